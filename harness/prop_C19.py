"""C19 — Front-wall registration recovers the true probe standoff and tilt.

Proof side : Props/C19.v (closed-form least-squares line is the unique minimiser, reproduces
             collinear data, any least-squares oracle (numpy.polyfit) equals it; pulse-echo
             selection ignores non-pulse-echo values and the timetrace order; the move puts
             every element at z = -d_k and reports the true (z_o, theta); Time.window and
             detect_surface_from_extrema specifications).
Tie        : A. arim.measurement.move_probe_over_flat_surface on real Frame/Probe objects
                (FMC / HMC / random subsets, random timetrace order, garbage distances on
                non-pulse-echo timetraces and on dead elements, 2..64 elements, both pitch
                signs, non-uniform arrays, every kind of reference element, tilt in
                (-45, 45) deg) vs the extracted model (OCaml floats + libm, closed-form fit)
                at 1e-9, vs the GROUND TRUTH pose the distances were computed from, and under
                a second timetrace order / other garbage; noisy (non-collinear) distances:
                polyfit vs the closed form + normal equations on the implementation's answer;
                every error branch (exception class and message vs the model's error value).
             B. find_probe_loc_from_frontwall end to end (probe displaced beforehand, echoes
                written into the timetraces, window) vs the model and, for echoes placed on
                sample times of an exactly representable pose, vs the ground truth.
             C. detect_surface_from_extrema, Time.window (all endpoint flags),
                Time.closest_index compared EXACTLY with the model evaluated by vm_compute on
                binary64 (ties of |value|, negative extrema, bounds on samples, empty windows);
                complex (analytic) timetraces against the brute-force specification only.
Spec on impl: every element ends at z = -d_k, y = 0, PCS coordinates unchanged, PCS origin at
             (0, 0, z_o); returned times are sample times inside the window with maximal
             |value|, first among ties.
"""
import math

import numpy as np

from common import Check, cZ, cbool, cfloat, clist, copt, cpair
import arimgen
from arimgen import fhex, unhex

chk = Check("C19", design_ref="DESIGN.md §5 C19")
chk.proofs(extra_trusted=[
    "extraction: ExtrOcamlBasic only (Extract/C19.v); ocaml/common/numf.ml and ocaml/C19/driver.ml hand-written, trusted",
    "oracle: numpy.polyfit(x, d, 1) returns a least-squares minimiser (Section hypothesis is_ls_minimiser; "
    "the normal equations are evaluated on the implementation's answer in every noisy case)",
    "Probe.reset_position is not modelled: find_probe_loc is compared on the PCS coordinates (1e-9)",
])
arim = chk.import_arim()
import arim.geometry as g
import arim.measurement as reg
from arim.core import Time

drv = arimgen.Driver(chk.ocaml_driver("C19"))
rng = chk.rng
Q = chk.tier == "quick"
evaluations = 0
nontrivial = set()
samples = []
RTOL = 1e-9

ERR = {1: ("ValueError", "PCS and the GCS"), 2: ("ValueError", "at least 2 pulse echo"),
       3: ("IndexError", "boolean index"), 4: ("ValueError", "Negative distance"),
       5: ("NotImplementedError", "linear points1"), 6: ("IndexError", "out of bounds"),
       7: ("AssertionError", ""), 8: ("RuntimeError", "no solution")}
EXAM = arim.ExaminationObject(arim.Material(1.0))


# ---------------------------------------------------------------------------
# helpers
# ---------------------------------------------------------------------------
def probe_block(locs, dead):
    return f"{len(locs)} " + " ".join(fhex(v) for v in np.asarray(locs, float).ravel()) + " " + \
        " ".join("1" if d else "0" for d in dead)


def frame_block(tx, rx):
    return f"{len(tx)} " + " ".join(str(int(t)) for t in tx) + " " + " ".join(str(int(r)) for r in rx)


def pcs_block(pcs):
    return " ".join(fhex(v) for v in list(pcs.origin) + list(pcs.i_hat) + list(pcs.j_hat))


def parse_move(out, n):
    tok = out.split()
    if tok[0] == "E":
        return {"err": int(tok[1])}
    v = [unhex(x) for x in tok[1:]]
    res = {"err": None, "z_o": v[0], "theta": v[1], "locs": np.array(v[2:2 + 3 * n]).reshape(n, 3),
           "pcs": np.array(v[2 + 3 * n:2 + 3 * n + 9]).reshape(3, 3), "rest": v[2 + 3 * n + 9:]}
    return res


def classify(exc):
    """(class name, message) of an exception of the implementation -> model error code"""
    name, msg = type(exc).__name__, str(exc)
    for code, (cls, frag) in ERR.items():
        if name == cls and frag in msg:
            return code
    if name == "ValueError" and "empty sequence" in msg:
        return 9
    return f"{name}: {msg[:80]}"


def dead_spelling(dead):
    """the same dead-element flags in the spellings a caller may use: bool array, 0/1 integers, lists"""
    r = int(rng.integers(0, 6))
    d = np.asarray(dead, bool)
    return [d, d.astype(np.uint8), d.astype(np.int64), d.tolist(), [int(v) for v in d], d.astype(float)][r]


def make_probe(kind, n, pitch, ref, dead):
    """a linear probe whose PCS is the GCS; returns the probe (fresh object)."""
    dead = dead_spelling(dead)
    if isinstance(kind, str) and kind == "matrix":
        p = arim.Probe.make_matrix_probe(n, pitch, 1, np.nan, 1e6, dead_elements=dead)
        p.set_reference_element(ref)
        p.reset_position()
    else:  # explicit abscissae (possibly non-uniform / unordered)
        coords = np.zeros((n, 3))
        coords[:, 0] = kind
        p = arim.Probe(g.Points(coords), 1e6, dead_elements=dead)
    return p


def frame_layout(n, how):
    if how == "fmc":
        tx, rx = arim.ut.fmc(n)
    elif how == "hmc":
        tx, rx = arim.ut.hmc(n)
    elif how == "pe":
        tx = rx = np.arange(n)
    else:  # random subset of the pairs, all pulse-echo pairs kept with probability 0.8
        pairs = [(i, j) for i in range(n) for j in range(n) if (i == j and rng.random() < 0.8) or
                 (i != j and rng.random() < min(1.0, 6.0 / n))]
        if not pairs:
            pairs = [(0, 0)]
        tx, rx = np.array([p[0] for p in pairs]), np.array([p[1] for p in pairs])
    perm = rng.permutation(len(tx))
    return np.array(tx)[perm], np.array(rx)[perm]


def garbage(size):
    kind = rng.integers(0, 4, size=size)
    vals = rng.uniform(-1.0, 1.0, size=size) * 10.0 ** rng.integers(-4, 3, size=size)
    vals[kind == 1] = np.nan
    vals[kind == 2] = -np.abs(vals[kind == 2]) - 1.0
    return vals


def run_impl_move(probe, tx, rx, ds, nt=2):
    frame = arim.Frame(np.zeros((len(tx), nt)), Time(0.0, 1.0, nt), tx, rx, probe, EXAM)
    try:
        out, iso = reg.move_probe_over_flat_surface(frame, np.array(ds, float), full_output=True)
    except Exception as e:  # noqa: BLE001 - every exception class is an observable here
        return {"err": classify(e)}
    assert out is frame
    pcs = frame.probe.pcs
    return {"err": None, "z_o": float(iso.z_o), "theta": float(iso.theta), "phi_nan": bool(np.isnan(iso.phi)),
            "locs": np.array(frame.probe.locations.coords, float),
            "pcs": np.array([pcs.origin, pcs.i_hat, pcs.j_hat], float),
            "locs_pcs": np.array(frame.probe.locations_pcs.coords, float)}


def mv_line(probe, tx, rx, ds):
    return "MV " + pcs_block(probe.pcs) + " " + probe_block(probe.locations.coords, probe.dead_elements) + " " + \
        frame_block(tx, rx) + f" {len(ds)} " + " ".join(fhex(d) for d in ds)


def differ(a, b, scale):
    a, b = np.asarray(a, float), np.asarray(b, float)
    if a.shape != b.shape:
        return True
    return bool(np.any(~(np.abs(a - b) <= RTOL * scale)))


def compare_move(key, impl, mod, scale, replay, spec_ok):
    """implementation vs model; `spec_ok` says whether the ground-truth predicate held"""
    if impl["err"] != mod["err"]:
        chk.violation(f"{key}:outcome", "move_probe_over_flat_surface: outcome differs from the model "
                      f"(impl error={impl['err']}, model error={mod['err']})",
                      dict(replay, impl_error=impl["err"], model_error=mod["err"]), failing_input_found=not spec_ok)
        return False
    if impl["err"] is not None:
        return True
    bad = [name for name, sc in (("z_o", scale), ("theta", 1.0), ("locs", scale), ("pcs", max(scale, 1.0)))
           if differ(impl[name], mod[name], sc)]
    if bad:
        chk.violation(f"{key}:{bad[0]}", f"move_probe_over_flat_surface differs from the model in {bad}",
                      dict(replay, impl={k: impl[k] for k in ("z_o", "theta", "locs", "pcs")},
                           model={k: mod[k] for k in ("z_o", "theta", "locs", "pcs")}),
                      failing_input_found=not spec_ok)
        return False
    return True


# ---------------------------------------------------------------------------
# A. move_probe_over_flat_surface
# ---------------------------------------------------------------------------
def gen_pose_case(n=None, layout=None, ref=None):
    n = int(n or rng.choice([2, 2, 3, 3, 4, 5, 8, 16, int(rng.integers(2, 65)), int(rng.integers(2, 65))]))
    pitch = float(rng.choice([-1, 1]) * rng.uniform(0.2e-3, 2e-3))
    # dead elements: keep at least two working
    dead = np.zeros(n, bool)
    if n > 2 and rng.random() < 0.6:
        k = int(rng.integers(1, max(2, min(n - 2, 1 + n // 3)) + 1))
        dead[rng.choice(n, size=min(k, n - 2), replace=False)] = True
    style = rng.integers(0, 4)
    if style < 3:
        ref = ref if ref is not None else [lambda: "first", lambda: "last", lambda: "mean",
                                           lambda: int(rng.integers(0, n)), lambda: int(rng.integers(-n, 0))][int(rng.integers(0, 5))]()
        probe = make_probe("matrix", n, pitch, ref, dead)
        refdesc = ref
    else:
        xs = np.cumsum(rng.uniform(0.2e-3, 2e-3, size=n)) * np.sign(pitch)
        xs = xs - xs[int(rng.integers(0, n))] * float(rng.choice([0.0, 1.0, 1.0])) + float(rng.choice([0.0, 0.0, rng.uniform(-3e-3, 3e-3)]))
        if rng.random() < 0.3:
            xs = rng.permutation(xs)
        probe = make_probe(xs, n, pitch, None, dead)
        refdesc = "explicit"
    layout = layout or str(rng.choice(["fmc", "hmc", "random", "pe"]))
    if n > 24 and layout == "fmc" and Q and rng.random() < 0.5:
        layout = "hmc"
    tx, rx = frame_layout(n, layout)
    return n, pitch, dead, probe, refdesc, layout, tx, rx


def true_pose(probe):
    xs = np.array(probe.locations.x, float)
    span = float(np.max(np.abs(xs))) + 1e-4
    th = math.radians(float(rng.uniform(-45.0, 45.0)))
    if rng.random() < 0.08:
        th = float(rng.choice([0.0, math.radians(44.999), -math.radians(44.999), 1e-7, -1e-9]))
    z0 = -(float(rng.uniform(0.5e-3, 60e-3)) + span * abs(math.sin(th)))
    t_x = float(rng.uniform(-20e-3, 20e-3))
    # ground truth, computed without arim: P_k = R_y(th) (x_k, 0, 0) + (t_x, 0, z0)
    P = np.stack([math.cos(th) * xs + t_x, np.zeros_like(xs), -math.sin(th) * xs + z0], axis=1)
    return th, z0, t_x, P


def good_mask(tx, rx, dead):
    return (tx == rx) & ~dead[np.clip(tx, 0, len(dead) - 1)]


num_pose = 350 if Q else 4000
pending = []
for it in range(num_pose):
    forced = {}
    if it < 12:   # boundary families: 2 elements, every layout
        forced = dict(n=2, layout=["fmc", "hmc", "pe", "random"][it % 4])
    n, pitch, dead, probe, refdesc, layout, tx, rx = gen_pose_case(**forced)
    th, z0, t_x, P = true_pose(probe)
    m = len(tx)
    usable = good_mask(tx, rx, dead)
    noisy = (not forced) and rng.random() < 0.2
    ds = garbage(m)
    ds[usable] = -P[tx[usable], 2]
    if noisy:
        ds[usable] = ds[usable] + rng.uniform(0.0, 1e-5, size=int(usable.sum()))   # slope moves by < 0.05
    pending.append(dict(n=n, pitch=pitch, dead=dead, probe=probe, ref=refdesc, layout=layout, tx=tx, rx=rx,
                        th=th, z0=z0, t_x=t_x, P=P, ds=ds, usable=usable, noisy=noisy))

lines = [mv_line(c["probe"], c["tx"], c["rx"], c["ds"]) for c in pending]
outs = drv.run(lines)
for c, o in zip(pending, outs):
    n, tx, rx, ds, P, th, z0 = c["n"], c["tx"], c["rx"], c["ds"], c["P"], c["th"], c["z0"]
    xs_pcs = np.array(c["probe"].locations.coords, float)
    mod = parse_move(o, n)
    scale = float(max(np.max(np.abs(xs_pcs)), abs(z0)))
    replay = {"fn": "move_probe_over_flat_surface", "locations_pcs": xs_pcs, "dead_elements": c["dead"],
              "tx": tx, "rx": rx, "distance_to_surface": ds, "true_theta": th, "true_z_o": z0,
              "reference": c["ref"], "layout": c["layout"]}
    npe = int(c["usable"].sum())
    distinct_x = len(set(np.round(xs_pcs[tx[c["usable"]], 0], 12)))
    expect_ok = npe >= 2 and distinct_x >= 2
    impl = run_impl_move(c["probe"], tx, rx, ds)
    evaluations += 1
    chk.count(A_layout=c["layout"], A_ref=str(c["ref"]) if isinstance(c["ref"], str) else "index",
              A_elements=("2" if n == 2 else "3-8" if n <= 8 else "9-64"), A_dead=int(c["dead"].sum() > 0),
              A_kind=("noisy" if c["noisy"] else "collinear") if expect_ok else "too-few")
    # --- ground truth (spec predicate) -----------------------------------------
    spec_ok = True
    if expect_ok and not c["noisy"]:
        nontrivial.add(("pose", n, round(c["pitch"], 9), str(c["ref"]), c["layout"], round(th, 9), tuple(c["dead"])))
        if impl["err"] is not None:
            spec_ok = False
            chk.violation("A:rejects-valid", f"registration rejects a valid flat-surface data set ({impl['err']})", replay)
        else:
            target = P - np.array([c["t_x"], 0.0, 0.0])
            preds = {
                "z_equals_minus_distance": not differ(impl["locs"][:, 2], P[:, 2], scale),
                "y_zero": not differ(impl["locs"][:, 1], 0 * P[:, 1], scale),
                "true_positions": not differ(impl["locs"], target, scale),
                "z_o_true": not differ(impl["z_o"], z0, scale),
                "theta_true": not differ(impl["theta"], th, 1.0),
                "pcs_origin_at_reference_point": not differ(impl["pcs"][0], [0.0, 0.0, z0], scale),
                "pcs_axes": not differ(impl["pcs"][1], [math.cos(th), 0.0, -math.sin(th)], 1.0)
                and not differ(impl["pcs"][2], [0.0, 1.0, 0.0], 1.0),
                "pcs_coordinates_unchanged": not differ(impl["locs_pcs"], xs_pcs, scale),
                "phi_nan": impl["phi_nan"],
            }
            for name, ok in preds.items():
                if not ok:
                    spec_ok = False
                    chk.violation(f"A:{name}", f"registration does not recover the true pose: '{name}' fails",
                                  dict(replay, impl_z_o=impl["z_o"], impl_theta=impl["theta"], impl_locations=impl["locs"],
                                       true_locations_up_to_x_shift=target))
    elif expect_ok and c["noisy"]:
        nontrivial.add(("noisy", n, round(c["pitch"], 9), str(c["ref"]), c["layout"], round(th, 9)))
        if impl["err"] is None:
            # least-squares normal equations on the implementation's line
            x = xs_pcs[tx[c["usable"]], 0]
            d = ds[c["usable"]]
            r = d - (math.sin(impl["theta"]) * x - impl["z_o"])
            grad = (abs(float(np.sum(r))) / len(x), abs(float(np.sum(r * (x - x.mean())))) / (len(x) * np.ptp(x)))
            # (noisy distances are outside the property's premise "distances produced by a probe above a plane":
            #  a deviation here breaks the correspondence with the least-squares model, not the property itself)
            if max(grad) > 1e-9 * scale:
                chk.violation("A:normal-equations", "the reported line is not the least-squares line of the pulse-echo distances",
                              dict(replay, residual_moments=grad, theorem_or_correspondence="fit_minimises / fit_oracle_is_closed_form"),
                              failing_input_found=False)
            if differ(impl["locs"][:, 2], -(math.sin(impl["theta"]) * xs_pcs[:, 0] - impl["z_o"]), scale):
                spec_ok = False
                chk.violation("A:on-fitted-line", "moved elements are not on the line z = -(sin(theta) x - z_o) that is reported", replay)
    # --- model ---------------------------------------------------------------
    if (mod["err"] is None) != expect_ok and mod["err"] not in (7,):
        chk.violation("A:model-domain", "harness expectation and model disagree on the domain", dict(replay, model=mod["err"]),
                      failing_input_found=False)
    agree = compare_move("A", impl, mod, scale, replay, spec_ok or c["noisy"])
    # --- a second timetrace order with other garbage must give the same answer ---
    if expect_ok and agree and impl["err"] is None and rng.random() < (0.5 if Q else 0.3):
        perm = rng.permutation(len(tx))
        ds2 = garbage(len(tx))
        ds2[c["usable"]] = ds[c["usable"]]
        p2 = make_probe(xs_pcs[:, 0], n, 0, None, c["dead"])
        impl2 = run_impl_move(p2, tx[perm], rx[perm], ds2[perm])
        evaluations += 1
        if impl2["err"] is not None or differ(impl2["locs"], impl["locs"], scale) or differ(impl2["z_o"], impl["z_o"], scale) \
                or differ(impl2["theta"], impl["theta"], 1.0):
            chk.violation("A:order-dependence", "the result depends on the timetrace order or on non-pulse-echo values",
                          dict(replay, tx2=tx[perm], rx2=rx[perm], distance_to_surface2=ds2[perm], second=impl2.get("locs"),
                               second_error=impl2["err"]))
    # --- HISTORY: the same Probe object, already registered (tilted), is given a new reference element, reset
    #     and registered again on a new data set: it must end at the new true pose like a fresh probe
    if expect_ok and not c["noisy"] and impl["err"] is None and rng.random() < 0.35:
        probe = c["probe"]
        live = [k for k in range(n) if not c["dead"][k]]
        newref = int(rng.choice(live)) if rng.random() < 0.7 else str(rng.choice(["first", "last", "mean"]))
        x_ref = {"first": xs_pcs[0, 0], "last": xs_pcs[-1, 0], "mean": float(np.mean(xs_pcs[:, 0]))}.get(newref, None)
        x_ref = float(xs_pcs[newref, 0]) if x_ref is None else float(x_ref)
        xs2 = xs_pcs[:, 0] - x_ref                      # abscissae in the re-referenced probe frame (computed without arim)
        err2 = None
        order2 = int(rng.integers(0, 2))
        try:
            if order2 == 0:
                probe.set_reference_element(newref)
                probe.reset_position()
            else:           # the other documented order: back to the GCS first, then another reference element
                probe.reset_position()
                probe.set_reference_element(newref)
                probe.translate_to_point_O()
        except Exception as e:      # noqa: BLE001
            err2 = classify(e)
        gcs_state = (np.array(g.GCS.origin, float), np.array(g.GCS.i_hat, float), np.array(g.GCS.j_hat, float), np.array(g.GCS.k_hat, float))
        if not (np.array_equal(gcs_state[0], [0, 0, 0]) and np.array_equal(gcs_state[1], [1, 0, 0])
                and np.array_equal(gcs_state[2], [0, 1, 0]) and np.array_equal(gcs_state[3], [0, 0, 1])):
            chk.violation("A:history-gcs", "re-referencing a reset probe changed the global coordinate system constant geometry.GCS "
                          "(every later registration in the process is measured against it)",
                          dict(replay, history=["move_probe_over_flat_surface(distance_to_surface)", "reset_position()",
                                                f"set_reference_element({newref!r})", "translate_to_point_O()"],
                               gcs_origin=gcs_state[0], gcs_i_hat=gcs_state[1], gcs_j_hat=gcs_state[2], gcs_k_hat=gcs_state[3]))
            g.GCS.origin[...] = 0.0     # restore, so that one defect is reported once and not on every later case
        th2 = math.radians(float(rng.uniform(-40.0, 40.0)))
        z2 = -(float(rng.uniform(0.5e-3, 60e-3)) + (float(np.max(np.abs(xs2))) + 1e-4) * abs(math.sin(th2)))
        P2z = -math.sin(th2) * xs2 + z2
        ds2 = garbage(len(tx))
        ds2[c["usable"]] = -P2z[tx[c["usable"]]]
        impl2 = run_impl_move(probe, tx, rx, ds2) if err2 is None else {"err": err2}
        evaluations += 1
        chk.count(A_history="registered, re-referenced, reset, registered again")
        rep2 = dict(replay, history=["move_probe_over_flat_surface(distance_to_surface)"]
                    + ([f"set_reference_element({newref!r})", "reset_position()"] if order2 == 0 else
                       ["reset_position()", f"set_reference_element({newref!r})", "translate_to_point_O()"])
                    + ["move_probe_over_flat_surface(distance_to_surface_2)"],
                    distance_to_surface_2=ds2, true_theta_2=th2, true_z_o_2=z2, second_error=impl2["err"])
        sc2 = float(max(np.max(np.abs(xs2)), abs(z2), 1e-3))
        if impl2["err"] is not None:
            chk.violation("A:history-rejects", f"a probe registered once cannot be registered again after set_reference_element + "
                          f"reset_position ({impl2['err']})", rep2)
        elif differ(impl2["locs"][:, 2], P2z, sc2) or differ(impl2["z_o"], z2, sc2) or differ(impl2["theta"], th2, 1.0) \
                or differ(impl2["locs_pcs"][:, 0], xs2, sc2):
            chk.violation("A:history-pose", "second registration of the same probe object does not recover the true pose",
                          dict(rep2, impl_z_o=impl2["z_o"], impl_theta=impl2["theta"], impl_z=impl2["locs"][:, 2], true_z=P2z))
    if len(samples) < 2 and expect_ok and not c["noisy"] and impl["err"] is None:
        samples.append({"move_probe": {"n": n, "layout": c["layout"], "reference": str(c["ref"]), "true_theta": th,
                                       "true_z_o": z0, "impl_theta": impl["theta"], "impl_z_o": impl["z_o"],
                                       "model_theta": mod.get("theta"), "model_z_o": mod.get("z_o")}})

# --- A'': element positions given as WHOLE numbers in an integer array (a layout typed without decimal points): the registered
#          elements are at the true positions, which are not whole numbers
for t_ in range(6 if Q else 40):
    n_ = int(rng.integers(2, 7))
    xs_i = np.sort(rng.choice(np.arange(-6, 13), size=n_, replace=False)).astype(np.int64)
    coords_i = np.zeros((n_, 3), dtype=np.int64)
    coords_i[:, 0] = xs_i
    probe_i = arim.Probe(g.Points(coords_i), 1e6)
    th_i = math.radians(float(rng.uniform(-40.0, 40.0)))
    z_i = -(float(rng.uniform(2.5, 30.0)) + 13 * abs(math.sin(th_i)))
    Pz_i = -math.sin(th_i) * xs_i + z_i
    Px_i = math.cos(th_i) * xs_i
    tx_i, rx_i = frame_layout(n_, "fmc")
    ds_i = garbage(len(tx_i))
    pe_i = tx_i == rx_i
    ds_i[pe_i] = -Pz_i[tx_i[pe_i]]
    impl_i = run_impl_move(probe_i, tx_i, rx_i, ds_i)
    evaluations += 1
    chk.count(A_locations_dtype="int64")
    nontrivial.add(("pose-int", n_, tuple(int(v) for v in xs_i), round(th_i, 9)))
    rep_i = {"fn": "move_probe_over_flat_surface", "locations_pcs": coords_i, "locations_dtype": "int64", "tx": tx_i, "rx": rx_i,
             "distance_to_surface": ds_i, "true_theta": th_i, "true_z_o": z_i}
    if impl_i["err"] is not None:
        chk.violation("A:int-locations:rejects", f"registration of a probe whose element coordinates are stored as integers fails ({impl_i['err']})", rep_i)
        break
    if differ(impl_i["locs"][:, 2], Pz_i, 30.0) or differ(impl_i["locs"][:, 0], Px_i, 30.0) or differ(impl_i["locs_pcs"][:, 0], xs_i, 30.0) \
            or differ(impl_i["z_o"], z_i, 30.0) or differ(impl_i["theta"], th_i, 1.0):
        chk.violation("A:int-locations", "a probe whose element coordinates are stored as integers is not registered at the true pose "
                      "(elements, PCS coordinates, standoff or tilt differ)",
                      dict(rep_i, impl_locations=impl_i["locs"], true_x=Px_i, true_z=Pz_i, impl_locations_pcs=impl_i["locs_pcs"],
                           impl_z_o=impl_i["z_o"], impl_theta=impl_i["theta"]))
        break

# --- A': error branches and malformed input --------------------------------------
mal = []


def add_mal(kind, probe_f, tx, rx, ds, expect):
    mal.append(dict(kind=kind, probe_f=probe_f, tx=np.array(tx), rx=np.array(rx), ds=np.array(ds, float), expect=expect))


for it in range(6 if Q else 40):
    n = int(rng.integers(2, 9))
    pitch = float(rng.choice([-1, 1]) * rng.uniform(0.3e-3, 1.5e-3))
    xs = (np.arange(n) - int(rng.integers(0, n))) * pitch
    s = float(rng.uniform(-0.6, 0.6))
    b = float(rng.uniform(5e-3, 30e-3)) + np.max(np.abs(xs))
    tx, rx = arim.ut.fmc(n)
    perm = rng.permutation(len(tx))
    tx, rx = tx[perm], rx[perm]
    pe = tx == rx
    base = garbage(len(tx))
    base[pe] = s * xs[tx[pe]] + b
    nodead = np.zeros(n, bool)
    mk = (lambda xs=xs, d=nodead: make_probe(xs, len(xs), 0, None, d))
    # 1 PCS != GCS (translated / rotated probe)
    add_mal("pcs-translated", (lambda xs=xs, d=nodead: make_probe(xs, len(xs), 0, None, d).translate(np.array([0.0, 0.0, 1e-3]))), tx, rx, base, 1)
    add_mal("pcs-rotated", (lambda xs=xs, d=nodead: make_probe(xs, len(xs), 0, None, d).rotate(g.rotation_matrix_y(0.01))), tx, rx, base, 1)
    add_mal("pcs-within-1e-8", (lambda xs=xs, d=nodead: make_probe(xs, len(xs), 0, None, d).translate(np.array([3e-9, 0.0, -5e-9]))), tx, rx, base, None)
    # 2 fewer than two usable pulse-echo timetraces
    keep = ~pe
    keep[np.nonzero(pe)[0][0]] = True
    add_mal("one-pulse-echo", mk, tx[keep], rx[keep], base[keep], 2)
    add_mal("no-pulse-echo", mk, tx[~pe], rx[~pe], base[~pe], 2)
    alld = np.ones(n, bool)
    alld[int(rng.integers(0, n))] = False
    add_mal("all-but-one-dead", (lambda xs=xs, d=alld: make_probe(xs, len(xs), 0, None, d)), tx, rx, base, 2)
    # 3 wrong number of distances
    add_mal("short-distances", mk, tx, rx, base[:-1], 3)
    add_mal("long-distances", mk, tx, rx, np.append(base, 1.0), 3)
    # 4 negative distance on a pulse-echo timetrace (and only there)
    neg = base.copy()
    neg[np.nonzero(pe)[0][int(rng.integers(0, n))]] = -1e-6
    add_mal("negative-distance", mk, tx, rx, neg, 4)
    nan_ok = np.where(pe, base, -1.0)
    add_mal("negative-only-off-pulse-echo", mk, tx, rx, nan_ok, None)
    # 5 element off the axis
    def off_axis(xs=xs, d=nodead, which=int(rng.integers(0, n)), axis=int(rng.integers(1, 3))):
        coords = np.zeros((len(xs), 3))
        coords[:, 0] = xs
        coords[which, axis] = 1e-4
        return arim.Probe(g.Points(coords), 1e6, dead_elements=d)
    add_mal("off-axis", off_axis, tx, rx, base, 5)
    # 6 element index out of range on a pulse-echo timetrace
    txo, rxo = tx.copy(), rx.copy()
    j = np.nonzero(pe)[0][0]
    txo[j] = rxo[j] = n + int(rng.integers(0, 3))
    add_mal("index-out-of-range", mk, txo, rxo, base, 6)
    # negative indices wrap (numpy): model py_index
    txn, rxn = tx.copy(), rx.copy()
    txn[j] = rxn[j] = tx[j] - n
    add_mal("negative-index-wraps", mk, txn, rxn, base, None)
    # 7 all pulse-echo abscissae (nearly) equal
    def same_x(n=n, d=nodead, x0=float(xs[0])):
        return make_probe(np.full(n, x0) + np.arange(n) * 1e-12, n, 0, None, d)
    add_mal("coincident-elements", same_x, tx, rx, np.where(pe, b, base), 7)
    # 8 slope outside [-1, 1]
    steep = base.copy()
    sl = float(rng.choice([-1, 1]) * rng.uniform(1.05, 3.0))
    steep[pe] = sl * xs[tx[pe]] + abs(sl) * np.max(np.abs(xs)) + 1e-3
    add_mal("slope-outside-unit", mk, tx, rx, steep, 8)
    edge = base.copy()
    # an element exactly ON the plane (distance 0.0 is valid); dyadic data, exact in binary64
    xz = (np.arange(n) - int(rng.integers(0, n))) * float(rng.choice([-1, 1])) * 2.0 ** -10
    sz = float(rng.choice([-0.5, 0.5, 0.25, 0.0]))
    bz = -float(np.min(sz * xz))
    zero = base.copy()
    zero[pe] = sz * xz[tx[pe]] + bz
    assert np.min(zero[pe]) == 0.0
    add_mal("zero-distance-valid", (lambda xs=xz, d=nodead: make_probe(xs, len(xs), 0, None, d)), tx, rx, zero, None)
    se = float(rng.choice([-1, 1]) * rng.uniform(0.9, 0.97))   # steep but valid (beyond the 45 deg of the property)
    edge[pe] = se * xs[tx[pe]] + np.max(np.abs(xs)) + 1e-3
    add_mal("slope-steep-valid", mk, tx, rx, edge, None)

for c in mal:
    probe = c["probe_f"]()
    mod = parse_move(drv.run([mv_line(probe, c["tx"], c["rx"], c["ds"])])[0], probe.numelements)
    impl = run_impl_move(probe, c["tx"], c["rx"], c["ds"])
    evaluations += 1
    chk.count(A_malformed=c["kind"])
    nontrivial.add(("mal", c["kind"], len(c["tx"])))
    replay = {"fn": "move_probe_over_flat_surface", "family": c["kind"], "tx": c["tx"], "rx": c["rx"],
              "distance_to_surface": c["ds"]}
    if c["expect"] != "any" and mod["err"] != c["expect"]:
        chk.violation(f"A:mal:{c['kind']}:model", f"model outcome {mod['err']} is not the documented one {c['expect']}", replay,
                      failing_input_found=False)
    if impl["err"] != mod["err"]:
        documented = (impl["err"] == c["expect"]) or c["expect"] == "any"
        chk.violation(f"A:mal:{c['kind']}", f"error branch '{c['kind']}': implementation {impl['err']!r}, model {mod['err']!r}",
                      dict(replay, impl=impl["err"], model=mod["err"]), failing_input_found=not documented)
    elif impl["err"] is None:
        sc = float(np.max(np.abs(impl["locs"])))
        compare_move(f"A:mal:{c['kind']}", impl, mod, sc, replay, True)

# ---------------------------------------------------------------------------
# B. find_probe_loc_from_frontwall end to end
# ---------------------------------------------------------------------------
num_fp = 60 if Q else 600
fp_cases = []
for it in range(num_fp):
    on_grid = it % 2 == 0
    n = int(rng.choice([2, 3, 4, 6, 8, 12, 16, int(rng.integers(2, 33))]))
    c_f = float(rng.uniform(900.0, 2000.0))
    dt = float(1.0 / rng.uniform(20e6, 100e6))
    nt = int(rng.integers(80, 400))
    start = float(rng.choice([0.0, 0.0, rng.uniform(-2.0, 2.0) * dt, rng.uniform(0, 5e-6)]))
    dead = np.zeros(n, bool)
    if n > 3 and rng.random() < 0.5:
        dead[rng.choice(n, size=int(rng.integers(1, n - 2)), replace=False)] = True
    ref = [lambda: "first", lambda: "last", lambda: "mean", lambda: int(rng.integers(0, n))][int(rng.integers(0, 4))]()
    samples_t = Time(start, dt, nt).samples
    if on_grid:
        # echoes exactly on samples: k_e = k0 + j*e  -> collinear times; pitch chosen for the tilt
        j = int(rng.choice([-3, -2, -1, 0, 1, 2, 3]))
        span = abs(j) * (n - 1)
        if span + 4 >= nt - 4:
            j = 0
            span = 0
        k0 = int(rng.integers(2, nt - 2 - span)) + (span if j < 0 else 0)
        ks = k0 + j * np.arange(n)
        s = float(rng.uniform(0.05, 0.7))
        pitch = (abs(j) * dt * c_f / (2 * s) if j else float(rng.uniform(0.3e-3, 1.5e-3))) * float(rng.choice([-1, 1]))
    else:
        pitch = float(rng.choice([-1, 1]) * rng.uniform(0.3e-3, 1.5e-3))
    probe = arim.Probe.make_matrix_probe(n, pitch, 1, np.nan, 1e6, dead_elements=dead_spelling(dead))
    probe.set_reference_element(ref)
    xs = np.array(probe.locations_pcs.x, float)
    if on_grid:
        d_e = samples_t[ks] * c_f / 2
        # exact line through the (x_e, d_e): slope and intercept from the end points
        slope = (d_e[-1] - d_e[0]) / (xs[-1] - xs[0])
        icpt = d_e[0] - slope * xs[0]
        th, z0 = math.asin(slope), -icpt
        if np.any(d_e < 0):
            continue
    else:
        th = math.radians(float(rng.uniform(-40.0, 40.0)))
        lo = (samples_t[3] * c_f / 2) + np.max(np.abs(xs)) * abs(math.sin(th))
        hi = (samples_t[-4] * c_f / 2) - np.max(np.abs(xs)) * abs(math.sin(th))
        if not (0 < lo < hi):
            continue
        z0 = -float(rng.uniform(lo, hi))
        d_e = math.sin(th) * xs - z0
        ks = np.array([int(np.argmin(np.abs(samples_t - 2 * d / c_f))) for d in d_e])
    layout = str(rng.choice(["fmc", "hmc", "random", "pe"]))
    tx, rx = frame_layout(n, layout)
    usable = good_mask(tx, rx, dead)
    if usable.sum() < 2:
        continue
    m = len(tx)
    tt = rng.uniform(-1.0, 1.0, size=(m, nt))
    amp = rng.uniform(2.0, 4.0, size=m) * rng.choice([-1.0, 1.0], size=m)
    tmin_i = max(0, int(ks.min()) - int(rng.integers(0, 6)))
    tmax_i = min(nt - 1, int(ks.max()) + int(rng.integers(0, 6)))
    use_window = rng.random() < 0.7
    for i in range(m):
        if usable[i]:
            tt[i, ks[tx[i]]] = amp[i]
            if use_window:   # larger echoes outside the window must be ignored
                if tmin_i > 0 and rng.random() < 0.5:
                    tt[i, int(rng.integers(0, tmin_i))] = 9.0
                if tmax_i < nt - 1 and rng.random() < 0.5:
                    tt[i, int(rng.integers(tmax_i + 1, nt))] = -9.0
        else:
            tt[i] *= float(rng.choice([1.0, 50.0]))
            tt[i, int(rng.integers(0, nt))] = float(rng.choice([-1, 1])) * 20.0
            # "whatever values are attached": channels the acquisition marked invalid (all NaN), muted (all zero), or with a
            # few NaN / infinite samples
            r_ = rng.random()
            if r_ < 0.12:
                tt[i, :] = np.nan
            elif r_ < 0.22:
                tt[i, :] = 0.0
            elif r_ < 0.30:
                tt[i, rng.integers(0, nt, size=3)] = np.nan
            elif r_ < 0.35:
                tt[i, int(rng.integers(0, nt))] = np.inf
    if use_window:
        tmin = float(samples_t[tmin_i]) if rng.random() < 0.5 else float(samples_t[tmin_i] - 0.3 * dt)
        tmax = float(samples_t[tmax_i]) if rng.random() < 0.5 else float(samples_t[tmax_i] + 0.3 * dt)
    else:
        tmin = tmax = None
    fp_cases.append(dict(n=n, c=c_f, dt=dt, nt=nt, start=start, dead=dead, ref=ref, probe=probe, xs=xs, th=th, z0=z0,
                         tx=tx, rx=rx, tt=tt, tmin=tmin, tmax=tmax, on_grid=on_grid, ks=ks, usable=usable, layout=layout,
                         d_e=d_e))

lines = []
for c in fp_cases:
    locs = np.array(c["probe"].locations_pcs.coords, float)
    lines.append(f"FP {fhex(c['start'])} {fhex(c['dt'])} {c['nt']} {fhex(c['c'])} "
                 f"{'none' if c['tmin'] is None else fhex(c['tmin'])} {'none' if c['tmax'] is None else fhex(c['tmax'])} "
                 + probe_block(locs, c["dead"]) + " " + frame_block(c["tx"], c["rx"]) + " "
                 + " ".join(fhex(v) for v in np.where(np.isfinite(c["tt"]), c["tt"], 0.0).ravel()))   # (non-finite garbage of unusable rows as 0 for the model)
outs = drv.run(lines) if lines else []
for c, o in zip(fp_cases, outs):
    n, probe = c["n"], c["probe"]
    mod = parse_move(o, n)
    xs_pcs = np.array(probe.locations_pcs.coords, float)
    # displace the probe first: registration must start from reset_position()
    probe.rotate(g.rotation_matrix_y(float(rng.uniform(-0.5, 0.5))))
    probe.translate(np.array([float(rng.uniform(-5e-3, 5e-3)), 0.0, float(rng.uniform(-30e-3, 5e-3))]))
    # the examination object attached to the frame may declare a nominal couplant of its own; the velocity that
    # converts echo times to distances is that of the `couplant` ARGUMENT (e.g. a measured value)
    exam_ = EXAM
    if rng.random() < 0.4:
        nominal = arim.Material(c["c"] * float(rng.choice([0.97, 1.02, 1.5])), density=1000.0, state_of_matter="liquid")
        exam_ = arim.BlockInImmersion(arim.Material(6300.0, 3100.0, 2700.0, "solid"), nominal,
                                      g.points_1d_wall_z(-1e-2, 1e-2, 0.0, 3), None)
        chk.count(B_frame_declares_other_couplant=True)
    frame = arim.Frame(c["tt"].copy(), Time(c["start"], c["dt"], c["nt"]), c["tx"], c["rx"], probe, exam_)
    couplant = arim.Material(c["c"])
    scale = float(max(np.max(np.abs(xs_pcs)), abs(c["z0"])))
    replay = {"fn": "find_probe_loc_from_frontwall", "locations_pcs": xs_pcs, "dead_elements": c["dead"], "tx": c["tx"],
              "rx": c["rx"], "time": [c["start"], c["dt"], c["nt"]], "velocity": c["c"], "tmin": c["tmin"], "tmax": c["tmax"],
              "echo_sample_per_element": c["ks"], "true_theta": c["th"], "true_z_o": c["z0"], "timetraces_seed": chk.seed}
    try:
        z_o, theta, times = reg.find_probe_loc_from_frontwall(frame, couplant, c["tmin"], c["tmax"])
        impl = {"err": None, "z_o": float(z_o), "theta": float(theta), "locs": np.array(frame.probe.locations.coords, float),
                "pcs": np.array([frame.probe.pcs.origin, frame.probe.pcs.i_hat, frame.probe.pcs.j_hat], float),
                "times": np.array(times, float)}
    except Exception as e:  # noqa: BLE001
        impl = {"err": classify(e)}
    evaluations += 1
    chk.count(B_kind="on-grid" if c["on_grid"] else "off-grid", B_window=c["tmin"] is not None, B_layout=c["layout"])
    nontrivial.add(("fp", n, c["layout"], str(c["ref"]), round(c["th"], 9), c["nt"]))
    spec_ok = True
    if impl["err"] is not None:
        spec_ok = False
        chk.violation("B:rejects-valid", f"find_probe_loc_from_frontwall fails on a valid frame ({impl['err']})", replay)
    else:
        # detected times: the echo sample of the transmitting element on every usable timetrace
        want = Time(c["start"], c["dt"], c["nt"]).samples[c["ks"][np.clip(c["tx"], 0, n - 1)]]
        if np.any(impl["times"][c["usable"]] != want[c["usable"]]):
            spec_ok = False
            chk.violation("B:times", "detected front-wall time is not the time of the largest |sample| in the window", replay)
        # ... and on EVERY timetrace with finite samples (usable or not): the detected time is a sample time inside the
        # requested window whose |sample| is not exceeded inside the window (half a step of slack at the window ends)
        st_ = Time(c["start"], c["dt"], c["nt"]).samples
        lo_t = st_[0] if c["tmin"] is None else c["tmin"]
        hi_t = st_[-1] if c["tmax"] is None else c["tmax"]
        inner_ = (st_ >= lo_t + 0.5 * c["dt"]) & (st_ <= hi_t - 0.5 * c["dt"])
        for i_ in np.flatnonzero(np.all(np.isfinite(c["tt"]), axis=1)):
            t_i = float(impl["times"][i_])
            k_i = int(np.argmin(np.abs(st_ - t_i)))
            ok_ = st_[k_i] == t_i and lo_t - 0.5 * c["dt"] <= t_i <= hi_t + 0.5 * c["dt"] and \
                (not inner_.any() or abs(c["tt"][i_, k_i]) >= np.max(np.abs(c["tt"][i_, inner_])))
            if not ok_:
                spec_ok = False
                chk.violation("B:times-window", "a detected time is not the time of a largest |sample| inside the requested window",
                              dict(replay, timetrace=int(i_), detected_time=t_i, window=[lo_t, hi_t],
                                   row_is_all_zero=bool(np.all(c["tt"][i_] == 0.0))))
                break
        tol_scale = scale if c["on_grid"] else None
        if c["on_grid"]:
            preds = {"z_equals_minus_distance": not differ(impl["locs"][:, 2], -c["d_e"], scale),
                     "z_o_true": not differ(impl["z_o"], c["z0"], scale),
                     "theta_true": abs(impl["theta"] - c["th"]) <= 1e-9,
                     "pcs_origin": not differ(impl["pcs"][0], [0.0, 0.0, c["z0"]], scale)}
        else:
            # echoes rounded to the nearest sample: each distance is off by at most delta = c*dt/4; the fitted
            # line at a DATA abscissa is off by at most delta * sum_j |h_ij| <= delta * sqrt(#data) (hat matrix)
            delta = c["c"] * c["dt"] / 4
            ue = np.unique(c["tx"][c["usable"]])
            preds = {"z_within_quantisation": bool(np.all(np.abs(impl["locs"][ue, 2] + c["d_e"][ue])
                                                          <= 1.01 * delta * math.sqrt(len(ue))))}
        for name, ok in preds.items():
            if not ok:
                spec_ok = False
                chk.violation(f"B:{name}", f"front-wall registration does not recover the pose: '{name}' fails",
                              dict(replay, impl_z_o=impl["z_o"], impl_theta=impl["theta"], impl_locations=impl["locs"]))
    if compare_move("B", impl, mod, scale, replay, spec_ok) and impl["err"] is None:
        mt = np.array(mod["rest"])
        # (rows holding NaN / infinite garbage were handed to the model as zeros: the detected time of such an unusable
        #  timetrace is not compared, the property says nothing about it)
        finite_rows = np.all(np.isfinite(c["tt"]), axis=1)
        if mt.shape != impl["times"].shape or np.any(mt[finite_rows] != impl["times"][finite_rows]):
            chk.violation("B:times-model", "detected times differ from the model (exact comparison)",
                          dict(replay, impl_times=impl["times"], model_times=mt), failing_input_found=not spec_ok)

# ---------------------------------------------------------------------------
# C. detect_surface_from_extrema / Time.window / closest_index — exact, vm_compute
# ---------------------------------------------------------------------------
IMPORTS = """From Coq Require Import ZArith List Bool PrimFloat.
From Arim Require Import Base.Num Base.NumF Base.ListX Model.Registration.
Definition feqb (a b : float) : bool := PrimFloat.eqb a b.
Definition chk_detect (c : float * float * Z * option float * option float * list (list float) * option (list float)) : bool :=
  let '(start, step, num, tmin, tmax, rows, expect) := c in
  option_eqb (list_eqb feqb) (detect_surface NumF (time_samples NumF start step num) rows tmin tmax) expect.
Definition chk_window (c : float * float * Z * option float * option float * bool * bool * (Z * Z)) : bool :=
  let '(start, step, num, tmin, tmax, el, er, want) := c in
  let w := window NumF (time_samples NumF start step num) tmin tmax el er in
  zpair_eqb (Z.of_nat (fst w), Z.of_nat (snd w)) want.
Definition chk_closest (c : float * float * Z * float * Z) : bool :=
  let '(start, step, num, t, want) := c in
  match closest_index NumF (time_samples NumF start step num) t with
  | Some k => Z.eqb (Z.of_nat k) want | None => false end.
"""


def time_params():
    style = int(rng.integers(0, 5))
    num = int(rng.choice([1, 2, 3, 5, 8, 13, int(rng.integers(1, 25))]))
    if style == 0:
        start, step = float(rng.integers(-4, 12)), float(rng.choice([1.0, 0.5, 0.25, 2.0]))
    elif style == 1:
        start, step = float(rng.integers(-8, 8)) * 0.125, 0.1
    elif style == 2:
        start, step = float(rng.uniform(-1e-6, 5e-6)), float(1.0 / rng.uniform(10e6, 100e6))
    elif style == 3:
        start, step = 0.0, float(1.0 / rng.choice([25e6, 40e6, 50e6, 100e6]))
    else:
        start, step = float(rng.uniform(-3, 3)), float(rng.choice([0.0, 1e-300, 0.3, 1e-9]))
    return start, step, num


def bound(samples_t, step):
    r = int(rng.integers(0, 9))
    k = int(rng.integers(0, len(samples_t)))
    s = float(samples_t[k])
    h = step if step > 0 else 1.0
    return [None, s, s, float(np.nextafter(s, np.inf)), float(np.nextafter(s, -np.inf)), s + 0.5 * h,
            float(samples_t[0] - 1.5 * h), float(samples_t[-1] + 1.5 * h), s - 0.25 * h][r]


def brute_detect(samples_t, row, tmin, tmax):
    idx = [i for i, s in enumerate(samples_t) if (tmin is None or s >= tmin) and (tmax is None or s <= tmax)]
    if not idx:
        return None
    best = max(abs(row[i]) for i in idx)
    return float(samples_t[[i for i in idx if abs(row[i]) == best][0]])


det_cases, det_meta, win_cases, win_meta, clo_cases, clo_meta = [], [], [], [], [], []
probe3 = arim.Probe.make_matrix_probe(4, 1e-3, 1, np.nan, 1e6)
num_det = 700 if Q else 9000
for it in range(num_det):
    start, step, num = time_params()
    time = Time(start, step, num)
    st = np.array(time.samples, float)
    tmin = None if rng.random() < 0.3 else bound(st, step)
    tmax = None if rng.random() < 0.3 else bound(st, step)
    if tmin is not None and tmax is not None and ((tmin > tmax) != (it % 9 == 0)):
        tmin, tmax = tmax, tmin   # mostly ordered; every ninth case a reversed window (empty)
    m = int(rng.integers(1, 5))
    vstyle = int(rng.integers(0, 4))
    store = None
    if vstyle == 3:
        # raw acquisition data: integer samples of full dynamic range stored as int8 / int16 / int32
        store = [np.int8, np.int16, np.int32][int(rng.integers(0, 3))]
        top = {np.int8: 127, np.int16: 32767, np.int32: 2 ** 31 - 1}[store]
        tt = rng.integers(-top // 3, top // 3 + 1, size=(m, num)).astype(float)
        if num > 1:
            i0, i1 = rng.integers(0, num, size=2)
            tt[0, i0] = -float(top - int(rng.integers(0, 3)))
            tt[-1, i1] = float(top) if rng.random() < 0.5 else tt[-1, i1]
    elif vstyle == 0:
        tt = rng.integers(-3, 4, size=(m, num)).astype(float)          # many ties of |value|
    elif vstyle == 1:
        tt = rng.choice([-2.5, 2.5, 1.0, -1.0, 0.0, -0.0], size=(m, num))
    else:
        tt = rng.standard_normal((m, num))
        if num > 1:   # a negative extremum and a duplicate of the extremum
            i0, i1 = rng.integers(0, num, size=2)
            tt[0, i0] = -5.0
            tt[0, i1] = 5.0 if rng.random() < 0.5 else tt[0, i1]
    pairs = [(0, 0), (0, 1), (1, 1), (2, 1)][:m]
    frame = arim.Frame(tt if store is None else tt.astype(store), time, np.array([p[0] for p in pairs]),
                       np.array([p[1] for p in pairs]), probe3, EXAM)
    try:
        res = [float(v) for v in reg.detect_surface_from_extrema(frame, tmin, tmax)]
        assert len(res) == m
    except ValueError as e:
        res = None
        if "empty sequence" not in str(e):
            raise
    evaluations += 1
    spec = [brute_detect(st, tt[i], tmin, tmax) for i in range(m)]
    spec = None if any(s is None for s in spec) else spec
    empty = spec is None
    chk.count(C_detect=("empty-window" if empty else "ties" if vstyle < 2 else "random" if vstyle == 2 else f"integer samples ({np.dtype(store).name})"),
              C_bounds=("none" if tmin is None and tmax is None else "half" if tmin is None or tmax is None else "both"))
    replay = {"fn": "detect_surface_from_extrema", "time": [start, step, num], "tmin": tmin, "tmax": tmax, "timetraces": tt,
              "stored_dtype": "float64" if store is None else np.dtype(store).name}
    if res != spec:
        chk.violation("C:detect-spec", "detect_surface_from_extrema is not the first largest |sample| inside [tmin, tmax]",
                      dict(replay, impl=res, spec=spec))
    nontrivial.add(("det", start, step, num, tmin, tmax, tt.tobytes()))
    det_cases.append(cpair(cfloat(start), cfloat(step), cZ(num), copt(tmin, cfloat), copt(tmax, cfloat),
                           clist([clist([cfloat(v) for v in row]) for row in tt]),
                           copt(res, lambda r: clist([cfloat(v) for v in r]))))
    det_meta.append(dict(replay, impl=res, spec=spec))
    # Time.window with every flag combination
    for el in (True, False):
        for er in (True, False):
            sl = time.window(tmin, tmax, endpoint_left=el, endpoint_right=er)
            lo = 0 if sl.start is None else int(sl.start)
            hi = num if sl.stop is None else int(sl.stop)
            evaluations += 1
            inside = [i for i, s in enumerate(st) if (tmin is None or (s >= tmin if el else s > tmin))
                      and (tmax is None or (s <= tmax if er else s < tmax))]
            got = list(range(num))[lo:hi]
            wrep = dict(fn="Time.window", time=[start, step, num], tmin=tmin, tmax=tmax, endpoint_left=el, endpoint_right=er,
                        impl=[lo, hi])
            if got != inside:
                chk.violation("C:window-spec", "Time.window does not select exactly the samples inside the interval", wrep)
            win_cases.append(cpair(cfloat(start), cfloat(step), cZ(num), copt(tmin, cfloat), copt(tmax, cfloat),
                                   cbool(el), cbool(er), cpair(cZ(lo), cZ(hi))))
            win_meta.append(wrep)
    # closest_index
    t = bound(st, step)
    t = float(st[0]) if t is None else t
    ci = int(time.closest_index(t))
    evaluations += 1
    dist = np.abs(st - t)
    if not (dist[ci] == dist.min() and np.all(dist[:ci] > dist[ci])):
        chk.violation("C:closest-spec", "Time.closest_index is not the first nearest sample",
                      {"fn": "Time.closest_index", "time": [start, step, num], "t": t, "impl": ci})
    clo_cases.append(cpair(cfloat(start), cfloat(step), cZ(num), cfloat(t), cZ(ci)))
    clo_meta.append({"fn": "Time.closest_index", "time": [start, step, num], "t": t, "impl": ci})

# many timetraces (a 33- or 47-element FMC has more than 1024): every one of them is examined
for nel_ in ((33,) if Q else (33, 47, 64)):
    nt_ = nel_ * nel_
    start, step, num = 0.0, 0.5, 24
    time = Time(start, step, num)
    st = np.array(time.samples, float)
    tt = rng.integers(-9, 10, size=(nt_, num)).astype(float)
    peak_ = rng.integers(0, num, size=nt_)
    tt[np.arange(nt_), peak_] = 50.0 * rng.choice([-1.0, 1.0], size=nt_)
    txl, rxl = arim.ut.fmc(nel_)
    pr_ = arim.Probe.make_matrix_probe(nel_, 1e-3, 1, np.nan, 1e6)
    frame = arim.Frame(tt, time, txl, rxl, pr_, EXAM)
    res = np.asarray(reg.detect_surface_from_extrema(frame), float)
    evaluations += 1
    chk.count(C_detect=f"{nt_} timetraces")
    want_ = st[peak_]
    if res.shape != want_.shape or not np.array_equal(res, want_):
        bad_ = np.nonzero(res != want_)[0] if res.shape == want_.shape else np.array([0])
        chk.violation("C:detect-many", f"detect_surface_from_extrema on a frame of {nt_} timetraces: {len(bad_)} detected times are not "
                      "the time of the largest |sample|",
                      {"fn": "detect_surface_from_extrema", "numtimetraces": nt_, "time": [start, step, num], "first_bad_timetrace": int(bad_[0]),
                       "impl": float(res[bad_[0]]) if res.shape == want_.shape else None, "spec": float(want_[bad_[0]]),
                       "how": "integer noise in [-9, 9] and one +-50 sample per timetrace at a random index; seed and tier replay it"})

# complex (analytic-signal) timetraces: |.| is the modulus; Gaussian integers so that ties are exact
# (3+4j, 5, -5j, 4-3j ...).  Specification only (the model is stated for real samples).
for it in range(60 if Q else 600):
    start, step, num = time_params()
    time = Time(start, step, num)
    st = np.array(time.samples, float)
    tmin = None if rng.random() < 0.4 else bound(st, step)
    tmax = None if rng.random() < 0.4 else bound(st, step)
    if tmin is not None and tmax is not None and tmin > tmax:
        tmin, tmax = tmax, tmin
    pool = np.array([3 + 4j, 5, -5j, 4 - 3j, -3 - 4j, 1, 2j, 0, 5 + 12j, 13, -12 + 5j, 1 + 1j])
    tt = rng.choice(pool, size=(2, num))
    frame = arim.Frame(tt, time, np.array([0, 1]), np.array([0, 1]), probe3, EXAM)
    try:
        res = [float(v) for v in reg.detect_surface_from_extrema(frame, tmin, tmax)]
    except ValueError as e:
        res = None
        if "empty sequence" not in str(e):
            raise
    evaluations += 1
    spec = [brute_detect(st, tt[i], tmin, tmax) for i in range(2)]
    spec = None if any(v is None for v in spec) else spec
    chk.count(C_detect="complex")
    if res != spec:
        chk.violation("C:detect-spec-complex", "detect_surface_from_extrema (complex samples) is not the first largest modulus in the window",
                      {"fn": "detect_surface_from_extrema", "time": [start, step, num], "tmin": tmin, "tmax": tmax,
                       "timetraces_real": tt.real, "timetraces_imag": tt.imag, "impl": res, "spec": spec})

for name, cases, meta, ctype, fn, what in (
        ("detect", det_cases, det_meta, "float * float * Z * option float * option float * list (list float) * option (list float)",
         "chk_detect", "detect_surface_from_extrema differs from the model (exact)"),
        ("window", win_cases, win_meta, "float * float * Z * option float * option float * bool * bool * (Z * Z)",
         "chk_window", "Time.window differs from the model (exact)"),
        ("closest", clo_cases, clo_meta, "float * float * Z * float * Z", "chk_closest",
         "Time.closest_index differs from the model (exact)")):
    bad = chk.coq_failing(f"c19_{name}", IMPORTS, ctype, cases, fn, shard=250, jobs=8)
    for i in bad[:5]:
        spec_holds = meta[i].get("impl") == meta[i].get("spec") if name == "detect" else True
        chk.violation(f"C:{name}-model", what, meta[i], failing_input_found=not spec_holds)
samples.append({"detect_surface": det_meta[0]})

# ---- the global coordinate system is a constant of the process: nothing the registrations did may have moved it
evaluations += 1
if not (np.array_equal(np.asarray(g.GCS.origin, float), [0, 0, 0]) and np.array_equal(np.asarray(g.GCS.i_hat, float), [1, 0, 0])
        and np.array_equal(np.asarray(g.GCS.j_hat, float), [0, 1, 0]) and np.array_equal(np.asarray(g.GCS.k_hat, float), [0, 0, 1])):
    chk.violation("gcs-constant", "geometry.GCS is no longer the origin with the unit axes after the registrations of this run",
                  dict(gcs_origin=np.asarray(g.GCS.origin, float), gcs_i_hat=np.asarray(g.GCS.i_hat, float),
                       gcs_j_hat=np.asarray(g.GCS.j_hat, float), gcs_k_hat=np.asarray(g.GCS.k_hat, float)), failing_input_found=True)

# ---- the glue model of the public functions (Model files added later, see manifest text) tied to the library on every run:
#      inputs generated here, the library run on them, the model evaluated on the same inputs by vm_compute inside coqc
import ties.tie_C19 as _tie_glue  # noqa: E402
_tie_n = _tie_glue.run(chk, arim, rng, Q)
chk.cov["glue_model_tie_comparisons"] = int(_tie_n or 0)

chk.finish(
    evaluations=evaluations, distinct_nontrivial=len(nontrivial),
    rule="distinct (element count, pitch, reference, layout, tilt, dead mask) poses accepted by the registration + distinct "
         "malformed families + distinct end-to-end frames + distinct (time axis, window, data) detection cases",
    samples=samples,
    extra={"tolerance": RTOL, "pose_cases": len(pending), "malformed_cases": len(mal), "end_to_end_cases": len(fp_cases),
           "detect_cases": len(det_cases), "window_cases": len(win_cases), "closest_cases": len(clo_cases)})
