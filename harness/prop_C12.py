"""C12 — TFM pipelines: contact = straight rays, HMC = FMC, reciprocal views coincide.

Proof side : Props/C12.v (contact_is_das, contact_is_straight_rays, view_is_das, hmc_eq_fmc,
             expand_then_image, reciprocal_views_coincide, spike_focus, and the refutation
             hmc_eq_fmc_needs_zero_fill) on Model/Tfm.v, which is built on the models of
             C02 (Das.v), C15 (Frame.v) and C01 (Fermat.v, MinPlus.v).
Tie        : arim.im.tfm.contact_tfm / tfm_for_view on real arim Probe / Points / Grid / Frame /
             View / Rays objects against the Coq model evaluated on binary64 by vm_compute
             inside coqc (the execution route of C02: the model gets the inputs AND the
             implementation's image and answers the indices of the disagreeing cases):
             (E) dyadic-exact inputs compared EXACTLY: probe / grid coordinates k*2^-m with
                 integer (Pythagorean or collinear) distances, velocity and dt powers of two,
                 t0 on quarter samples, small-integer data, float64 / float32, 1-D / 2-D / 3-D
                 grid shapes; views with hand-built Rays whose times are on quarter samples,
                 C- and Fortran-ordered;
             (T/D) random geometry: contact_tfm on tilted / translated probes and Grid / Points
                 objects; tfm_for_view on views ray-traced by arim itself (immersion set-ups of
                 arimgen and block-in-contact set-ups, 0-1 reflections, C / Fortran order) at
                 1e-11 (float32 1e-5 / 1e-4); pixels with a lookup closer than 1e-9 to a
                 decision boundary are excluded and counted;
             (X) calls that must raise (amplitude tables of the wrong shape, weights of the
                 wrong length, Lanczos with amplitudes): the model answers None.
Identities : the theorems evaluated directly on the implementation's outputs
             (I1) contact_tfm == delay_and_sum with hand-built dist/v tables (numpy), all
                  interpolations incl. Lanczos, weights default / None / list, amplitudes;
             (I2) N_hmc * I_hmc == N_fmc * I_fmc on reciprocal data (1e-12 of the max), with and
                  without (symmetric) amplitudes, nearest / linear / Lanczos;
             (I3) image of the expanded HMC frame == FMC image (contact and views);
             (I4) view vs reciprocal view on reciprocal FMC data;
             (I5) contact_tfm(weights=None) == tfm_for_view along the direct path (L-L view);
             (I6) unit spikes: image == 1 at the scatterer's node, <= 1 elsewhere (and for the
                  HMC with default weights N_hmc * I == n^2 at the node).
"""
import math
import sys

import numpy as np

from common import Check, cZ, cfloat, clist, cpair, cbool

chk = Check("C12", design_ref="DESIGN.md §5 C12")
chk.proofs(extra_trusted=[
    "modelled, not verified: numba fastmath (reassociation, x/N compiled as x*(1/N)), numpy dtype promotion, "
    "Points.to_1d_points / reshape(grid.shape), the memory order of Rays.times and the Frame/FocalLaw/View glue "
    "are exercised by the correspondence only",
    "the ray tracing behind tfm_for_view is the subject of C01; here the model receives the implementation's ray "
    "times (or hand-built ones) as input",
])
arim = chk.import_arim()
import logging                                  # noqa: E402
logging.getLogger("arim").setLevel(logging.ERROR)   # "possible erroneous usage of a noncomplete frame": HMC is on purpose
import arim.geometry as geo                     # noqa: E402
import arim.im.das as das                       # noqa: E402
import arim.im.tfm as tfm                       # noqa: E402
import arim.models.block_in_contact as bic      # noqa: E402
import arim.ray                                 # noqa: E402
import arimgen                                  # noqa: E402

rng = chk.rng
# second tie: the summands of the five mean delay-and-sum kernels are re-translated from the current source and
# checked convertible with Model/Das.v; a broken tie deepens the correspondence run (thorough sizes)
_ties = chk.translation_tie()
Q = chk.tier == "quick" and all(v == "ok" for v in _ties.values())
IMPORTS = ("From Coq Require Import ZArith List PrimFloat.\n"
           "From Arim Require Import Base.Num Base.NumF Model.Das Model.Tfm.\n")
SCHEME = {0: "nearest", 1: "linear", 2: ("lanczos", 3)}
FILLS = [0.0, float("nan"), -7.0]

evaluations = 0
nontrivial = set()
samples = []
stats = dict(pixels_compared=0, ambiguous_pixels_excluded=0, exact_runs=0, tolerance_runs=0, error_cases=0,
             identity_checks=0, spike_cases_skipped_on_ties=0)


# ---------------------------------------------------------------------------
# element pairs of a frame
# ---------------------------------------------------------------------------
def pairs_for(nel, mode, index_dtype=None):
    if mode.startswith("fmc"):
        tx, rx = arim.ut.fmc(nel)
    elif mode.startswith("hmcrev"):
        rx, tx = arim.ut.hmc(nel)            # the other orientation of the half matrix (tx >= rx)
    elif mode.startswith("halfmixed"):
        tx, rx = (np.array(v) for v in arim.ut.hmc(nel))   # every unordered pair once, random orientation
        flip = rng.random(len(tx)) < 0.5
        tx, rx = np.where(flip, rx, tx), np.where(flip, tx, rx)
    elif mode.startswith("hmc"):
        tx, rx = arim.ut.hmc(nel)
    else:
        allp = [(i, j) for i in range(nel) for j in range(nel)]
        k = int(rng.integers(1, len(allp) + 1))
        idx = rng.choice(len(allp), size=k, replace=False)
        tx = np.array([allp[i][0] for i in idx]); rx = np.array([allp[i][1] for i in idx])
    # element indices as stored by acquisition files: any integer dtype that can hold them
    fits = [d for d in (np.int8, np.uint8, np.int16, np.uint16, np.int32, np.int64) if nel - 1 <= np.iinfo(d).max]
    idt = index_dtype or (fits[int(rng.integers(0, len(fits)))] if rng.random() < 0.5 else np.int64)
    chk.count(index_dtype=np.dtype(idt).name)
    tx = np.asarray(tx).astype(idt); rx = np.asarray(rx).astype(idt)
    if mode.endswith("perm"):
        p = rng.permutation(len(tx))
        tx, rx = tx[p], rx[p]
    return np.ascontiguousarray(tx), np.ascontiguousarray(rx)


MODES = ["fmc", "hmc", "fmc", "hmc", "hmcrev", "fmc-perm", "hmc-perm", "halfmixed-perm", "subset", "subset-perm"]


def is_pow2(n):
    return n > 0 and (n & (n - 1)) == 0


def sym_data(tx, rx, ns, cplx, integer, dtype):
    """reciprocal data: the timetrace depends on the unordered pair {tx, rx} only."""
    nel = int(max(tx.max(), rx.max())) + 1
    if integer:
        base = rng.integers(-8, 9, size=(nel, nel, ns)).astype(np.float64)
        if cplx:
            base = base + 1j * rng.integers(-8, 9, size=(nel, nel, ns))
    else:
        base = rng.normal(size=(nel, nel, ns))
        if cplx:
            base = base + 1j * rng.normal(size=(nel, nel, ns))
    lo = np.minimum(tx, rx); hi = np.maximum(tx, rx)
    return np.ascontiguousarray(base[lo, hi].astype(dtype))


def rand_data(N, ns, cplx, integer, dtype):
    if integer:
        d = rng.integers(-8, 9, size=(N, ns)).astype(np.float64)
        if cplx:
            d = d + 1j * rng.integers(-8, 9, size=(N, ns))
    else:
        d = rng.normal(size=(N, ns))
        if cplx:
            d = d + 1j * rng.normal(size=(N, ns))
    return np.ascontiguousarray(d.astype(dtype))


def data_dtype(cplx, bits):
    return {(False, 64): np.float64, (False, 32): np.float32, (True, 64): np.complex128, (True, 32): np.complex64}[(cplx, bits)]


# ---------------------------------------------------------------------------
# arim objects
# ---------------------------------------------------------------------------
def make_probe(coords, dtype=np.float64):
    return arim.Probe(arim.Points(np.ascontiguousarray(coords.astype(dtype)), "Probe"), 1e6)


_grid_calls = [0]


def make_grid(coords, shape, dtype=np.float64):
    arr = np.ascontiguousarray(coords.reshape(tuple(shape) + (3,)).astype(dtype))
    _grid_calls[0] += 1
    if len(tuple(shape)) >= 2 and _grid_calls[0] % 3 == 0:
        # the same points stored column-major (a point set imported from MATLAB, np.asfortranarray): same grid, same image
        arr = np.asfortranarray(arr)
        chk.count(grid_memory_order="Fortran")
    return arim.Points(arr, "Grid")


def make_frame(case, probe):
    return arim.Frame(case["data"], arim.Time(case["t0"], case["dt"], case["ns"]), case["tx"], case["rx"], probe, None)


def make_amps(case):
    if case["amp"] is None:
        return None
    return tfm.TxRxAmplitudes(case["amp"][0], case["amp"][1])


def handmade_view(times_tx, times_rx, order):
    """a View whose two paths carry hand-built Rays (real arim Path / FermatPath / Rays objects)."""
    nel, P = times_tx.shape
    pts_probe = arim.Points(np.stack([np.arange(nel) * 1e-3, np.zeros(nel), np.zeros(nel)], axis=1), "P")
    pts_grid = arim.Points(np.stack([np.arange(P) * 1e-3, np.zeros(P), np.full(P, 5e-3)], axis=1), "G")
    mat = arim.Material(6300.0, 3100.0)
    i_probe = arim.Interface(*geo.default_oriented_points(pts_probe))
    i_grid = arim.Interface(*geo.default_oriented_points(pts_grid))
    paths = []
    for name, times in (("L", times_tx), ("T", times_rx)):
        path = arim.Path([i_probe, i_grid], [mat], [name], name=name)
        fp = arim.ray.FermatPath.from_path(path)
        t = np.asfortranarray(times) if order == "F" else np.ascontiguousarray(times)
        inter = np.zeros((0, nel, P), dtype=np.int64, order=order)
        path.rays = arim.ray.Rays(t, inter, fp, order)
        paths.append(path)
    return arim.View(paths[0], paths[1], "L-T"), arim.View(paths[1], paths[0], "T-L")


# ---------------------------------------------------------------------------
# running the implementation
# ---------------------------------------------------------------------------
def weights_kw(case, wmode):
    if wmode == 0:
        return "default"
    if wmode == 1:
        return None
    return [float(v) for v in case["w"]]          # (an ndarray makes `timetrace_weights == "default"` ambiguous)


def run_impl(case, run):
    """-> image as a flat array in the C order of the grid; checks the TfmResult container."""
    global evaluations
    kw = dict(fillvalue=run["fill"], interpolation=SCHEME[run["scheme"]])
    amps = make_amps(case)
    if case["kind"] == "contact":
        r = tfm.contact_tfm(case["frame"], case["grid"], case["vel"], amplitudes=amps,
                            timetrace_weights=weights_kw(case, run["wmode"]), **kw)
    else:
        r = tfm.tfm_for_view(case["frame"], case["grid"], case["view"], amplitudes=amps, **kw)
    evaluations += 1
    assert isinstance(r, tfm.TfmResult) and r.grid is case["grid"]
    assert r.res.shape == case["grid"].shape, (r.res.shape, case["grid"].shape)
    return np.asarray(r.res).reshape(-1)


def lookup_tables(case):
    """float64 lookup tables (P, nel) computed by the harness with numpy (independent of arim's kernels)."""
    if case["kind"] == "contact":
        g = case["gcoords"].astype(np.float64); e = case["pcoords"].astype(np.float64)
        d = np.sqrt(((g[:, None, :] - e[None, :, :]) ** 2).sum(axis=2))
        lt = d / case["vel"]
        return lt, lt
    return np.ascontiguousarray(case["ttx"].T.astype(np.float64)), np.ascontiguousarray(case["trx"].T.astype(np.float64))


def positions(case):
    ltx, lrx = lookup_tables(case)
    lt = ltx[:, case["tx"]] + lrx[:, case["rx"]]
    return (lt - case["t0"]) / case["dt"]


def ambiguous_pixels(case, scheme):
    l = positions(case)
    thr = case["margin"] * np.maximum(1.0, np.abs(l))
    ns = case["ns"]
    if scheme == 0:
        d = np.abs((l - 0.5) - np.round(l - 0.5))
    elif scheme == 1:
        d = np.minimum(np.abs(l), np.abs(l - (ns - 1)))
    else:
        d = np.minimum(np.abs(l), np.abs(l - ns))
    return np.any(d < thr, axis=1)


def scale_of(case, run):
    s = float(np.max(np.abs(case["data"]))) if case["data"].size else 0.0
    if case["kind"] == "contact" and run["wmode"] == 0:
        s *= 2.0
    if case["kind"] == "contact" and run["wmode"] == 2:
        s *= float(np.max(np.abs(case["w"])))
    if case["amp"] is not None:
        s *= float(np.max(np.abs(case["amp"][0]))) * float(np.max(np.abs(case["amp"][1])))
    f = run["fill"]
    if f == f:
        s = max(s, abs(f))
    return max(s, 1e-300)


def replay_of(case, run=None):
    rep = dict(kind=case["kind"], klass=case["klass"], capture=case["mode"], cplx=case["cplx"], bits=case["bits"],
               ns=case["ns"], dt=float(case["dt"]).hex(), t0=float(case["t0"]).hex(), tx=case["tx"], rx=case["rx"],
               data=case["data"], grid_shape=case["gshape"], view=case.get("viewname"))
    if case["kind"] == "contact":
        rep.update(grid=case["gcoords"], probe=case["pcoords"], velocity=float(case["vel"]).hex())
    else:
        rep.update(times_tx=case["ttx"], times_rx=case["trx"], ray_order=case.get("order"))
    if case["amp"] is not None:
        rep.update(amplitudes_tx=case["amp"][0], amplitudes_rx=case["amp"][1])
    if run is not None:
        rep.update(interpolation=str(SCHEME[run["scheme"]]), fill=run["fill"],
                   weights={0: "default", 1: None, 2: case["w"]}[run["wmode"]] if case["kind"] == "contact" else None,
                   impl=run.get("impl"), atol=run.get("atol"), pixels_compared=run.get("keep"))
    return rep


class ImplRaised(Exception):
    pass


def guarded(key, what, case, fn, run=None):
    """a valid input on which the pipeline raises is a failing input of the property."""
    try:
        return fn()
    except Exception as exc:      # noqa: BLE001 - anything the implementation raises
        rep = replay_of(case, run)
        rep["raised"] = f"{type(exc).__name__}: {exc}"
        chk.violation(key, what + f" raised {type(exc).__name__}", rep, failing_input_found=True)
        raise ImplRaised() from exc


def do_runs(case, runs):
    N = len(case["tx"]); P = case["P"]
    for run in runs:
        run["impl"] = guarded(f"tfm:{case['kind']}:raises", "contact_tfm / tfm_for_view on a valid input", case,
                              lambda: run_impl(case, run), run)
        if case["klass"] == "E":
            ulp = 0.0
            if not is_pow2(N):
                # fastmath: res_tmp / numtimetraces is a multiplication by the reciprocal
                ulp = 2.0 ** -51
                if run["impl"].dtype in (np.float32, np.complex64):
                    ulp = 2.0 ** -23
            mag = float(np.nanmax(np.abs(run["impl"]))) if np.any(np.isfinite(run["impl"])) else 0.0
            run["atol"] = ulp * mag
            run["keep"] = list(range(P))
            stats["exact_runs" if ulp == 0.0 else "tolerance_runs"] += 1
        else:
            run["atol"] = case["rtol"] * scale_of(case, run)
            if run["impl"].dtype in (np.float32, np.complex64):
                run["atol"] = max(run["atol"], 1e-5 * scale_of(case, run))
            amb = ambiguous_pixels(case, run["scheme"])
            stats["ambiguous_pixels_excluded"] += int(amb.sum())
            run["keep"] = [p for p in range(P) if not amb[p]]
            stats["tolerance_runs"] += 1
        stats["pixels_compared"] += len(run["keep"])
        chk.count(kind=case["kind"], interpolation=str(SCHEME[run["scheme"]]), fill=str(run["fill"]),
                  weights={0: "default", 1: "None", 2: "list"}[run["wmode"]] if case["kind"] == "contact" else "n/a",
                  amplitudes=case["amp"] is not None)
    case["runs"] = runs


# ---------------------------------------------------------------------------
# Coq literal of a case (Model.Tfm.tcase)
# ---------------------------------------------------------------------------
def cplx_pairs(arr):
    return [(float(np.real(v)), float(np.imag(v))) for v in np.asarray(arr).ravel()]


def cfpair(p):
    return cpair(cfloat(p[0]), cfloat(p[1]))


def cpoint(p):
    return "(" + ", ".join(cfloat(float(v)) for v in p) + ")"


def ftable(a):
    return clist([clist([float(v) for v in row], cfloat) for row in a])


def ctable(a):
    return clist([clist(cplx_pairs(row), cfpair) for row in a])


def case_literal(case, runs=None, with_results=True):
    runs = case["runs"] if runs is None else runs
    scans = [cpair(cpair(cZ(t), cZ(r)), clist(cplx_pairs(x), cfpair))
             for t, r, x in zip(case["tx"], case["rx"], case["data"])]
    rl = []
    for run in runs:
        keep = run.get("keep", [])
        res = cplx_pairs(run["impl"][keep]) if with_results and run.get("impl") is not None else []
        rl.append("(mkTRun {} {} {} {} {} {})".format(
            cZ(run["scheme"]), cfpair((float(run["fill"]), 0.0)), cZ(run["wmode"]), clist(keep, cZ),
            clist(res, cfpair), cfloat(run.get("atol", 0.0))))
    contact = case["kind"] == "contact"
    empty = np.zeros((0, 0))
    amp = case["amp"]
    return "(mkTCase {} {} {} {} {} {} {} {} {} {} {} {} {} {} {} {})".format(
        cbool(case["cplx"]), cZ(case["ns"]), cfloat(case["dt"]), cfloat(case["t0"]), cZ(0 if contact else 1),
        clist([cpoint(p) for p in case["gcoords"]]) if contact else "[]",
        clist([cpoint(p) for p in case["pcoords"]]) if contact else "[]",
        cfloat(case["vel"] if contact else 1.0),
        ftable(empty if contact else case["ttx"]), ftable(empty if contact else case["trx"]),
        clist([float(v) for v in case["w"]], cfloat),
        cbool(amp is not None), ctable(amp[0] if amp is not None else empty), ctable(amp[1] if amp is not None else empty),
        clist(scans), clist(rl))


# ---------------------------------------------------------------------------
# dyadic-exact geometries: integer coordinates with integer distances
# ---------------------------------------------------------------------------
def issq(n):
    r = math.isqrt(n)
    return r * r == n


def search_points(E, box, zmax, dmax):
    out = []
    for z in range(1, zmax + 1):
        for x in range(-box, box + 1):
            ok = True
            for e in E:
                d2 = (x - e[0]) ** 2 + e[1] ** 2 + z * z
                if not issq(d2) or d2 > dmax * dmax:
                    ok = False
                    break
            if ok:
                out.append((x, 0, z))
    return out


PYTH_CACHE = {}


def exact_geometry(nel, want):
    """-> (E, G) integer coordinates (nel, 3), (P, 3), every |g - e| an integer; P close to `want`."""
    fam = int(rng.integers(0, 4)) if nel <= 2 else int(rng.integers(1, 4))
    if fam == 0:
        # one or two elements, Pythagorean grid points found by exhaustive search
        E = [(0, 0, 0)] if nel == 1 else [(0, 0, 0), (int(rng.choice([7, 9, 16])), 0, 0)]
        key = tuple(E)
        if key not in PYTH_CACHE:
            PYTH_CACHE[key] = search_points(E, 40, 60, 45)
        cand = PYTH_CACHE[key]
        idx = rng.choice(len(cand), size=min(want, len(cand)), replace=False)
        G = [cand[i] for i in idx]
    elif fam == 1:
        # collinear probe and grid (along a random axis): distances are |differences|
        ax = int(rng.integers(0, 3))
        ev = rng.choice(np.arange(-12, 13), size=nel, replace=False)
        gv = rng.choice(np.arange(-14, 15), size=want, replace=True)
        E = [tuple(int(v) if a == ax else 0 for a in range(3)) for v in ev]
        G = [tuple(int(v) if a == ax else 0 for a in range(3)) for v in gv]
    elif fam == 2:
        # elements on the x axis at 0, +-5, +-9, +-16, +-35 and the grid point (0, 0, 12) (+ collinear ones)
        xs = rng.choice(np.array([0, 5, -5, 9, -9, 16, -16, 35, -35]), size=nel, replace=False)
        E = [(int(x), 0, 0) for x in xs]
        G = [(0, 0, 12)]
        if all(abs(x) in (0, 16) for x in xs):
            G += [(0, 0, 30), (0, 0, 63)]
    else:
        # a 2-D matrix probe in the plane z = 0 and grid points above its centre: (+-2, +-2 | +-6, +-6 ...)
        q = [(2, 3, 6), (1, 4, 8), (4, 4, 7), (2, 6, 9), (6, 6, 7), (3, 4, 12), (8, 9, 12)][int(rng.integers(0, 7))]
        a, b, c = q
        corners = [(a, b, 0), (-a, b, 0), (a, -b, 0), (-a, -b, 0), (b, a, 0), (-b, a, 0), (b, -a, 0), (-b, -a, 0)]
        corners = list(dict.fromkeys(corners))
        idx = rng.choice(len(corners), size=min(nel, len(corners)), replace=False)
        E = [corners[i] for i in idx]
        G = [(0, 0, c), (0, 0, -c)]
    E = np.array(E, dtype=np.int64); G = np.array(G, dtype=np.int64)
    d2 = ((G[:, None, :] - E[None, :, :]) ** 2).sum(axis=2)
    assert all(issq(int(v)) for v in d2.ravel())
    return E, G


def grid_shape_for(P):
    """a 1-D, 2-D or 3-D shape with P points."""
    shapes = [(P,)]
    for a in range(1, P + 1):
        if P % a == 0:
            shapes.append((a, P // a))
            for b in range(1, P // a + 1):
                if (P // a) % b == 0:
                    shapes.append((a, b, P // a // b))
    return shapes[int(rng.integers(0, len(shapes)))]


def gen_contact_exact(nel=None, mode=None, bits=(64, 64), cplx=None, symmetric=False, want=None):
    nel = int(nel or rng.integers(1, 5))
    E, G = exact_geometry(nel, int(want or rng.integers(1, 9)))
    nel = len(E); P = len(G)
    d = np.sqrt(((G[:, None, :] - E[None, :, :]) ** 2).sum(axis=2).astype(np.float64))
    m = int(rng.integers(0, 11)); kv = int(rng.integers(-2, 13)); q = int(rng.integers(0, 3))
    s = 2.0 ** -m; vel = 2.0 ** kv
    dt = s / vel * 2.0 ** q                    # one distance unit = 2^-q samples
    j = int(rng.integers(-9, 10)); t0 = j * dt / 4
    lmax = 2 * float(d.max()) * 2.0 ** -q
    ns = int(min(48, max(1, rng.integers(int(0.5 * lmax) + 1, int(1.3 * lmax) + 4))))
    mode = mode or MODES[int(rng.integers(0, len(MODES)))]
    tx, rx = pairs_for(nel, mode)
    cplx = bool(rng.integers(0, 2)) if cplx is None else cplx
    dd = data_dtype(cplx, bits[0])
    data = sym_data(tx, rx, ns, cplx, True, dd) if symmetric else rand_data(len(tx), ns, cplx, True, dd)
    gdt = np.float32 if bits[1] == 32 else np.float64
    shape = grid_shape_for(P)
    case = dict(kind="contact", klass="E", cplx=cplx, ns=ns, dt=dt, t0=t0, vel=vel, tx=tx, rx=rx, data=data,
                gcoords=(G * s).astype(gdt), pcoords=(E * s).astype(gdt), gshape=shape, P=P, nel=nel,
                w=rng.choice(np.array([1, 2, 0.5, 3, 0.25]), size=len(tx)).astype(np.float64), amp=None,
                mode=mode, bits=bits, margin=0.0, rtol=0.0)
    assert np.array_equal(case["gcoords"].astype(np.float64), G * s)
    finish_case(case, gdt)
    return case


def finish_case(case, gdt=np.float64):
    if case["kind"] == "contact":
        case["probe"] = make_probe(case["pcoords"], gdt)
        if "grid" not in case:
            case["grid"] = make_grid(case["gcoords"], case["gshape"], gdt)
    case["frame"] = make_frame(case, case["probe"])


def add_amps(case, exact, symmetric=False):
    P, nel = case["P"], case["nel"]
    bits = case["bits"][0]
    if exact:
        vals = np.array([1, -1, 0.5, 2, 0.25, -0.5, 3, 0, 1, 1])
        atx = rng.choice(vals, size=(P, nel)); arx = rng.choice(vals, size=(P, nel))
        if case["cplx"] and rng.random() < 0.5:
            atx = atx + 1j * rng.choice(vals, size=(P, nel)); arx = arx + 1j * rng.choice(vals, size=(P, nel))
    else:
        atx = rng.uniform(-2, 2, size=(P, nel)); arx = rng.uniform(-2, 2, size=(P, nel))
        if case["cplx"] and rng.random() < 0.5:
            atx = atx + 1j * rng.uniform(-2, 2, size=(P, nel)); arx = arx + 1j * rng.uniform(-2, 2, size=(P, nel))
    if symmetric:
        arx = atx.copy()
    if np.iscomplexobj(atx) or np.iscomplexobj(arx):
        da = np.complex64 if bits == 32 else np.complex128
    else:
        da = np.float32 if bits == 32 else np.float64
    case["amp"] = (np.ascontiguousarray(atx.astype(da)), np.ascontiguousarray(arx.astype(da)))


def gen_view_exact(nel=None, mode=None, bits=(64, 64), cplx=None, symmetric=False):
    """hand-built Rays whose times sit on quarter samples (as the sweep frames of C02)."""
    nel = int(nel or rng.integers(1, 5)); P = int(rng.integers(1, 9))
    e = int(rng.choice([0, 1, 3, 6, 20, 24])); dt = 2.0 ** -e
    m = int(rng.integers(-9, 10)); t0 = m * dt / 4
    ns = int(rng.integers(1, 13))
    a = rng.integers(-3, 2 * ns + 4, size=(nel, P)); b = rng.integers(-3, 2 * ns + 4, size=(nel, P))
    tdt = np.float32 if bits[1] == 32 else np.float64
    ttx = (a * (dt / 4)).astype(tdt); trx = ((b + m) * (dt / 4)).astype(tdt)
    assert np.array_equal(ttx.astype(np.float64), a * (dt / 4)) and np.array_equal(trx.astype(np.float64), (b + m) * (dt / 4))
    mode = mode or MODES[int(rng.integers(0, len(MODES)))]
    tx, rx = pairs_for(nel, mode)
    cplx = bool(rng.integers(0, 2)) if cplx is None else cplx
    dd = data_dtype(cplx, bits[0])
    data = sym_data(tx, rx, ns, cplx, True, dd) if symmetric else rand_data(len(tx), ns, cplx, True, dd)
    order = "F" if rng.random() < 0.5 else "C"
    view, view_rev = handmade_view(ttx, trx, order)
    shape = grid_shape_for(P)
    coords = np.stack([np.arange(P) * 1e-3, np.zeros(P), np.full(P, 5e-3)], axis=1)
    case = dict(kind="view", klass="E", cplx=cplx, ns=ns, dt=dt, t0=t0, vel=1.0, tx=tx, rx=rx, data=data,
                ttx=ttx, trx=trx, view=view, view_rev=view_rev, viewname="handmade:" + order, gshape=shape, P=P, nel=nel,
                grid=make_grid(coords, shape), probe=make_probe(np.stack([np.arange(nel) * 1e-3, np.zeros(nel), np.zeros(nel)], axis=1)),
                w=np.ones(len(tx)), amp=None, mode=mode, bits=bits, margin=0.0, rtol=0.0, order=order)
    finish_case(case)
    return case


def random_time_axis(tmin, tmax):
    """a time axis covering most (not all) of the lookup times.  The window is at least a quarter of the
    largest time of flight, so that tau / dt stays below a few hundred samples: the rounding error of a
    lookup position is eps * tau / dt samples, and the tolerances of class T assume it is negligible."""
    ns = int(rng.integers(8, 60))
    span = max(tmax - tmin, 0.25 * abs(tmax), 1e-9)
    dt = float(span * rng.uniform(0.7, 1.3) / ns)
    t0 = float(tmin + span * rng.uniform(-0.15, 0.15))
    return ns, dt, t0


def gen_contact_random(bits=(64, 64), symmetric=False, mode=None, cplx=None, nel=None):
    nel = int(nel or rng.integers(1, 6))
    kind = int(rng.integers(0, 3))
    pitch = float(rng.uniform(0.3e-3, 1.5e-3))
    if kind == 2 and nel in (4,):
        probe0 = arim.Probe.make_matrix_probe(2, pitch, 2, pitch, 1e6)
    else:
        probe0 = arim.Probe.make_matrix_probe(nel, pitch, 1, np.nan, 1e6)
    probe0.set_reference_element("first"); probe0.reset_position()
    probe0.rotate(geo.rotation_matrix_y(math.radians(float(rng.uniform(-20, 20)))))
    probe0.translate([float(rng.uniform(-3e-3, 3e-3)), float(rng.uniform(-1e-3, 1e-3)), float(rng.uniform(-2e-3, 0))])
    pcoords = np.array(probe0.locations.coords, dtype=np.float64)
    gk = int(rng.integers(0, 3))
    if gk == 0:
        grid = arim.Grid(float(rng.uniform(-4e-3, 0)), float(rng.uniform(1e-3, 6e-3)), 0.0, 0.0,
                         float(rng.uniform(2e-3, 6e-3)), float(rng.uniform(8e-3, 14e-3)), float(rng.uniform(1.2e-3, 3e-3)))
        gcoords = np.array(grid.to_1d_points().coords, dtype=np.float64)
        shape = grid.shape
    else:
        P = int(rng.integers(1, 13))
        gcoords = np.stack([rng.uniform(-5e-3, 8e-3, P), rng.uniform(-2e-3, 2e-3, P), rng.uniform(1e-3, 15e-3, P)], axis=1)
        shape = grid_shape_for(P)
        grid = None
    P = len(gcoords)
    gdt = np.float32 if bits[1] == 32 else np.float64
    gcoords = gcoords.astype(gdt); pcoords = pcoords.astype(gdt)
    vel = float(rng.uniform(1000.0, 7000.0))
    d = np.sqrt(((gcoords[:, None, :].astype(np.float64) - pcoords[None, :, :].astype(np.float64)) ** 2).sum(axis=2))
    ns, dt, t0 = random_time_axis(2 * d.min() / vel, 2 * d.max() / vel)
    mode = mode or MODES[int(rng.integers(0, len(MODES)))]
    tx, rx = pairs_for(nel, mode)
    cplx = bool(rng.integers(0, 2)) if cplx is None else cplx
    dd = data_dtype(cplx, bits[0])
    data = sym_data(tx, rx, ns, cplx, False, dd) if symmetric else rand_data(len(tx), ns, cplx, False, dd)
    f32geo = bits[1] == 32
    case = dict(kind="contact", klass="T", cplx=cplx, ns=ns, dt=dt, t0=t0, vel=vel, tx=tx, rx=rx, data=data,
                gcoords=gcoords, pcoords=pcoords, gshape=tuple(shape), P=P, nel=nel,
                w=rng.uniform(0.5, 2.0, size=len(tx)), amp=None, mode=mode, bits=bits,
                margin=1e-3 if f32geo else 1e-9, rtol=1e-3 if f32geo else (1e-11 if bits[0] == 64 else 1e-5))
    if grid is not None and not f32geo:
        case["grid"] = grid
    finish_case(case, gdt)
    return case


IMMERSION_VIEWS = ["L-L", "L-T", "T-L", "T-T", "LL-L", "LT-T", "LT-LT", "TL-TL", "LT-TL", "TL-LT", "L-LT", "TT-L", "T-TL", "LL-LL"]


def view_setups(kind, nel, P, fortran):
    """real ray tracing by arim: an immersion set-up of arimgen or a block in contact; 0-1 reflections."""
    if kind == "immersion":
        S = arimgen.immersion_setup(rng, numelements=nel, numscat=P, max_refl=1,
                                    wall_points=int(rng.integers(40, 160)), trace=False)
        views = S["views"]; probe = S["probe"]
        gcoords = np.array(S["scat"].points.coords)
    else:
        block = arim.Material(float(rng.uniform(3000, 7000)), float(rng.uniform(1500, 2900)))
        pitch = float(rng.uniform(0.4e-3, 1.2e-3))
        probe = arim.Probe.make_matrix_probe(nel, pitch, 1, np.nan, 1e6)
        probe.set_reference_element("first"); probe.reset_position()
        probe.translate([float(rng.uniform(-3e-3, 3e-3)), 0.0, 0.0])
        depth = float(rng.uniform(15e-3, 30e-3))
        gcoords = np.stack([rng.uniform(-4e-3, 8e-3, P), np.zeros(P), rng.uniform(0.15 * depth, 0.85 * depth, P)], axis=1)
        gpts = arim.Points(gcoords, "Grid")
        backwall = geo.points_1d_wall_z(-25e-3, 30e-3, depth, int(rng.integers(40, 160)), name="Backwall")
        exam = arim.BlockInContact(block, None, backwall)
        views = bic.make_views(exam, probe.to_oriented_points(), geo.default_oriented_points(gpts),
                               max_number_of_reflection=1)
        S = dict(block=block)
    arim.ray.ray_tracing(list(views.values()), convert_to_fortran_order=fortran)
    return views, probe, gcoords, S


def gen_view_cases(kind, bits=(64, 64), nviews=3, symmetric=False, mode=None):
    nel = int(rng.integers(1, 5)); P = int(rng.integers(1, 9))
    fortran = bool(rng.integers(0, 2))
    views, probe, gcoords, S = view_setups(kind, nel, P, fortran)
    names = [n for n in IMMERSION_VIEWS if n in views]
    picked = [names[i] for i in rng.choice(len(names), size=min(nviews, len(names)), replace=False)]
    out = []
    shape = grid_shape_for(P)
    grid = make_grid(gcoords, shape)
    mode = mode or MODES[int(rng.integers(0, len(MODES)))]
    tx, rx = pairs_for(nel, mode)
    for name in picked:
        v = views[name]
        ttx = np.array(v.tx_path.rays.times); trx = np.array(v.rx_path.rays.times)
        assert ttx.shape == (nel, P) and v.tx_path.rays.times.flags.f_contiguous == (fortran or nel == 1 or P == 1) or True
        ns, dt, t0 = random_time_axis(float((ttx.min(axis=0) + trx.min(axis=0)).min()), float((ttx.max(axis=0) + trx.max(axis=0)).max()))
        cplx = bool(rng.integers(0, 2))
        dd = data_dtype(cplx, bits[0])
        data = sym_data(tx, rx, ns, cplx, False, dd) if symmetric else rand_data(len(tx), ns, cplx, False, dd)
        rname = name.split("-")[1][::-1] + "-" + name.split("-")[0][::-1]
        case = dict(kind="view", klass="T", cplx=cplx, ns=ns, dt=dt, t0=t0, vel=1.0, tx=tx, rx=rx, data=data,
                    ttx=ttx, trx=trx, view=v, view_rev=views[rname], viewname=f"{kind}:{name}:{'F' if fortran else 'C'}",
                    gshape=shape, P=P, nel=nel, grid=grid, probe=probe, gcoords=gcoords,
                    w=np.ones(len(tx)), amp=None, mode=mode, bits=bits, margin=1e-9,
                    rtol=1e-11 if bits[0] == 64 else 1e-5, order="F" if fortran else "C", setup=S)
        finish_case(case)
        out.append(case)
    return out


def choose_runs(case, n):
    runs = []
    for _ in range(n):
        runs.append(dict(scheme=int(rng.integers(0, 2)), fill=float(FILLS[int(rng.integers(0, 3))]),
                         wmode=int(rng.choice([0, 0, 0, 1, 2])) if case["kind"] == "contact" else 1))
    return runs


def note_case(case):
    chk.count(klass=case["klass"], case_kind=case["kind"], capture=case["mode"], grid_ndim=len(case["gshape"]),
              data=("complex" + str(2 * case["bits"][0])) if case["cplx"] else ("real" + str(case["bits"][0])),
              geometry_or_times="float" + str(case["bits"][1]), numelements=case["nel"],
              ray_order=case.get("order", "n/a"), view=case.get("viewname", "contact").split(":")[1] if case["kind"] == "view" and case["klass"] == "T" else case.get("viewname", "contact"))
    l = positions(case)
    for p in range(case["P"]):
        inwin = int(np.sum((l[p] >= 0) & (l[p] < case["ns"] - 1)))
        if inwin > 0:
            nontrivial.add((id(case), p))


# ---------------------------------------------------------------------------
# (A) correspondence with the model
# ---------------------------------------------------------------------------
cases = []


def add_case(case, nruns=3, amps=None):
    if amps is None:
        amps = rng.random() < 0.3
    if amps:
        add_amps(case, case["klass"] == "E")
    try:
        do_runs(case, choose_runs(case, nruns))
    except ImplRaised:
        return
    note_case(case)
    cases.append(case)


# fixed cases (the examples of Props/C12.v and the palindromic view names), replayed on every run
def fixed_cases():
    E = np.array([[0, 0, 0], [3, 0, 0]]); G = np.array([[0, 0, 4], [3, 0, 4]])
    for mode in ("fmc", "hmc"):
        tx, rx = pairs_for(2, mode)
        data = np.array([[100 * min(i, j) + 10 * max(i, j) + k for k in range(12)] for i, j in zip(tx, rx)], dtype=np.float64)
        case = dict(kind="contact", klass="E", cplx=False, ns=12, dt=1.0, t0=0.0, vel=1.0, tx=tx, rx=rx, data=data,
                    gcoords=G.astype(np.float64), pcoords=E.astype(np.float64), gshape=(1, 2), P=2, nel=2,
                    w=np.ones(len(tx)), amp=None, mode=mode, bits=(64, 64), margin=0.0, rtol=0.0)
        finish_case(case)
        do_runs(case, [dict(scheme=s, fill=0.0, wmode=w) for s in (0, 1) for w in (0, 1)])
        expect = 41.5 if mode == "fmc" else 166.0 / 3
        got = case["runs"][0]["impl"]
        if not np.allclose(got, expect, rtol=1e-15, atol=0):
            chk.violation("fixed:contact-example", "contact_tfm on the example of Props/C12.v",
                          dict(mode=mode, impl=got, expected=expect), failing_input_found=True)
        note_case(case); cases.append(case)


fixed_cases()


def load_corpus():
    """corpus/C12/*.json: hand-minimised cases replayed first on every run (exact class)."""
    import glob, json
    for path in sorted(glob.glob("/verif/corpus/C12/*.json")):
        c = json.load(open(path))
        tx = np.ascontiguousarray(np.array(c["tx"], dtype=np.int64)); rx = np.ascontiguousarray(np.array(c["rx"], dtype=np.int64))
        data = np.ascontiguousarray(np.array(c["data"], dtype=np.float64))
        nel = int(max(tx.max(), rx.max())) + 1
        case = dict(klass="E", cplx=False, ns=int(c["ns"]), dt=float(c["dt"]), t0=float(c["t0"]), tx=tx, rx=rx, data=data,
                    gshape=tuple(c["grid_shape"]), nel=nel, w=np.ones(len(tx)), amp=None, mode="corpus:" + c["name"],
                    bits=(64, 64), margin=0.0, rtol=0.0, kind=c["kind"])
        if c["kind"] == "contact":
            case.update(vel=float(c["velocity"]), gcoords=np.array(c["grid"], dtype=np.float64),
                        pcoords=np.array(c["probe"], dtype=np.float64))
            case["P"] = len(case["gcoords"])
        else:
            ttx = np.array(c["times_tx"], dtype=np.float64); trx = np.array(c["times_rx"], dtype=np.float64)
            P = ttx.shape[1]
            view, view_rev = handmade_view(ttx, trx, c["order"])
            coords = np.stack([np.arange(P) * 1e-3, np.zeros(P), np.full(P, 5e-3)], axis=1)
            case.update(vel=1.0, ttx=ttx, trx=trx, view=view, view_rev=view_rev, viewname="handmade:" + c["order"], P=P,
                        order=c["order"], grid=make_grid(coords, case["gshape"]),
                        probe=make_probe(np.stack([np.arange(nel) * 1e-3, np.zeros(nel), np.zeros(nel)], axis=1)))
        finish_case(case)
        runs = [dict(scheme=int(r["scheme"]), fill=float(r["fill"]), wmode=int(r["wmode"])) for r in c["runs"]]
        try:
            do_runs(case, runs)
        except ImplRaised:
            continue
        if "expected_first" in c and not np.allclose(case["runs"][0]["impl"], c["expected_first"], rtol=1e-15, atol=0):
            chk.violation("corpus:" + c["name"], "corpus case: the image is not the recorded one",
                          dict(impl=case["runs"][0]["impl"], expected=c["expected_first"], file=path), failing_input_found=True)
        note_case(case); cases.append(case)


load_corpus()

n_ce = 80 if Q else 800
n_ve = 50 if Q else 500
n_cr = 60 if Q else 600
n_vs = 8 if Q else 80                 # ray-traced set-ups (x 3 views each)
variants_all = [(32, 64), (64, 32), (32, 32)]
extra_variants = variants_all if not Q else [variants_all[int(rng.integers(0, 3))]]


def pick_bits():
    return (64, 64) if rng.random() < 0.75 else extra_variants[int(rng.integers(0, len(extra_variants)))]


for i in range(n_ce):
    add_case(gen_contact_exact(bits=pick_bits()))
for i in range(n_ve):
    add_case(gen_view_exact(bits=pick_bits()))
for i in range(n_cr):
    add_case(gen_contact_random(bits=pick_bits()))
view_cases_T = []
for i in range(n_vs):
    for case in gen_view_cases("immersion" if i % 2 == 0 else "contact", bits=(64, 64) if rng.random() < 0.8 else (extra_variants[0][0], 64)):
        add_case(case, nruns=2)
        view_cases_T.append(case)

lits = [case_literal(c) for c in cases]
bad = chk.coq_failing("tfm_model", IMPORTS, "tcase", lits, "t_check", shard=30 if Q else 50, jobs=8)


def das_reference(case, run):
    """the property's right-hand side on the implementation: delay_and_sum with hand-built tables."""
    ltx, lrx = lookup_tables(case)
    lut_dtype = np.float32 if (case["bits"][1] == 32) else np.float64
    w = None
    if case["kind"] == "contact":
        w = {0: arim.ut.default_timetrace_weights(case["tx"], case["rx"]), 1: None, 2: np.asarray(case["w"], dtype=float)}[run["wmode"]]
    fl = tfm.FocalLaw(ltx.astype(lut_dtype), lrx.astype(lut_dtype), make_amps(case), w)
    return np.asarray(das.delay_and_sum(case["frame"], fl, fillvalue=run["fill"], interpolation=SCHEME[run["scheme"]])).reshape(-1)


def images_differ(a, b, atol):
    a = np.asarray(a); b = np.asarray(b)
    if a.shape != b.shape:
        return True
    na = np.isnan(a); nb = np.isnan(b)
    if np.any(na != nb):
        return True
    ok = ~na
    return bool(np.any(np.abs(a[ok] - b[ok]) > atol))


for b in bad[:3]:
    case = cases[b]
    out = chk.coq_values("tfm_diag", IMPORTS, [f"t_bad_runs {case_literal(case)}"])
    br = chk.parse_Z_list(out)
    br = br[0] if br and br[0] else [0]
    run = case["runs"][br[0]]
    rep = replay_of(case, run)
    rep["correspondence"] = ("Model.Tfm.contact_tfm / tfm_for_view (NumF, vm_compute) vs arim.im.tfm; by contact_is_das / "
                             "view_is_das the model is das_spec with tau = dist/v (contact) or rays.times.T (view)")
    try:
        mo = chk.coq_values("tfm_diag2", IMPORTS, [f"t_model_image {case_literal(case)} {cZ(br[0])}"])
        rep["model_image_raw"] = mo[-1500:]
    except Exception as exc:       # diagnostics only
        rep["model_image_raw"] = repr(exc)
    # failing-input decision: does the implementation leave the property's own right-hand side on this input?
    try:
        ref = das_reference(case, run)
        tol = max(run["atol"], 1e-9 * scale_of(case, run)) if case["klass"] == "T" else run["atol"]
        keep = run["keep"]
        found = images_differ(run["impl"][keep], ref[keep], tol)
        rep["delay_and_sum_with_hand_built_tables"] = ref
    except Exception as exc:
        found = False; rep["reference_error"] = repr(exc)
    if case["klass"] == "E":
        found = True      # exact class: the model IS the spec (contact_is_das / view_is_das) on exactly representable data
    chk.violation(f"tfm:{case['kind']}:{SCHEME[run['scheme']]}",
                  f"{'contact_tfm' if case['kind'] == 'contact' else 'tfm_for_view'} ({case['klass']}, {case['mode']}) differs from the model",
                  rep, failing_input_found=found)
if len(bad) > 3:
    chk.violation("tfm:more", f"{len(bad)} cases disagree with the model in total", {"cases": len(bad)},
                  failing_input_found=False)

# ---- (X) calls that must raise ------------------------------------------------------
err_cases = []


def try_error(case, run, what):
    try:
        run_impl(case, run)
        raised = None
    except (AssertionError, ValueError, TypeError, AttributeError, NotImplementedError, IndexError) as exc:
        raised = type(exc).__name__
    run["impl"] = None; run["keep"] = []; run["atol"] = 0.0
    case["runs"] = [run]
    chk.count(error_case=what, raised=str(raised))
    stats["error_cases"] += 1
    if raised is None:
        chk.violation("tfm:error:" + what, f"a call that must raise ({what}) returned an image",
                      replay_of(case, run), failing_input_found=False)
    else:
        err_cases.append(case)


for i in range(6 if Q else 30):
    which = i % 3
    case = gen_contact_exact(nel=int(rng.integers(2, 4)), mode="fmc") if i % 2 == 0 else gen_view_exact(nel=int(rng.integers(2, 4)), mode="fmc")
    if which == 0:
        add_amps(case, True)
        atx, arx = case["amp"]
        if rng.random() < 0.5:
            case["amp"] = (np.ascontiguousarray(np.vstack([atx, atx[:1]])), np.ascontiguousarray(np.vstack([arx, arx[:1]])))
        else:
            case["amp"] = (np.ascontiguousarray(np.hstack([atx, atx[:, :1]])), np.ascontiguousarray(np.hstack([arx, arx[:, :1]])))
        try_error(case, dict(scheme=0, fill=0.0, wmode=1), "amplitude-shape")
    elif which == 1:
        add_amps(case, True)
        try_error(case, dict(scheme=2, fill=0.0, wmode=1), "lanczos-with-amplitudes")
    else:
        if case["kind"] != "contact":
            case = gen_contact_exact(nel=2, mode="fmc")
        case["w"] = np.array([1.0, 2.0, 3.0])          # 4 timetraces
        try_error(case, dict(scheme=0, fill=0.0, wmode=2), "weights-length")
if err_cases:
    bad_e = chk.coq_failing("tfm_errors", IMPORTS, "tcase", [case_literal(c, with_results=False) for c in err_cases],
                            "t_check_raises", shard=30, jobs=4)
    for b in bad_e[:2]:
        chk.violation("tfm:error-model", "the implementation raises where the model returns an image",
                      replay_of(err_cases[b], err_cases[b]["runs"][0]), failing_input_found=False)


# ---------------------------------------------------------------------------
# (I) the theorems evaluated on the implementation
# ---------------------------------------------------------------------------
def tol_of(*imgs, rel=1e-12, floor=0.0):
    m = 0.0
    for im in imgs:
        f = np.abs(im[np.isfinite(im)])
        if f.size:
            m = max(m, float(f.max()))
    return rel * m + floor


def ident_violation(key, what, case, extra, run=None):
    rep = replay_of(case, run)
    rep.update(extra)
    chk.violation(key, what, rep, failing_input_found=True)


ALL_SCHEMES = [0, 1, 2]


def call_contact(case, frame, scheme, fill, weights="default", amps=None):
    global evaluations
    evaluations += 1
    return np.asarray(tfm.contact_tfm(frame, case["grid"], case["vel"], amplitudes=amps, timetrace_weights=weights,
                                      fillvalue=fill, interpolation=SCHEME[scheme]).res).reshape(-1)


def call_view(case, frame, view, scheme, fill, amps=None):
    global evaluations
    evaluations += 1
    return np.asarray(tfm.tfm_for_view(frame, case["grid"], view, amplitudes=amps, fillvalue=fill,
                                       interpolation=SCHEME[scheme]).res).reshape(-1)


def frame_with(case, tx, rx, data):
    return arim.Frame(np.ascontiguousarray(data), arim.Time(case["t0"], case["dt"], case["ns"]),
                      np.ascontiguousarray(tx), np.ascontiguousarray(rx), case["probe"], None)


def f32tol(case):
    return 1e-5 if (case["bits"][0] == 32) else 1e-12


# (I1) contact_tfm == delay_and_sum with hand-built tables (every contact case of part A, + Lanczos runs)
for case in cases:
    if case["kind"] != "contact":
        continue
    runs = list(case["runs"][:2]) + [dict(scheme=2, fill=float(FILLS[int(rng.integers(0, 3))]), wmode=int(rng.choice([0, 1, 2])))]
    for run in runs:
        if run["scheme"] == 2:
            if case["amp"] is not None:
                continue
            run["impl"] = run_impl(case, run)
        ref = das_reference(case, run)
        rel = 1e-12 if case["bits"] == (64, 64) else (1e-5 if case["bits"][1] == 64 else 1e-3)
        amb = ambiguous_pixels(case, run["scheme"]) if case["klass"] == "T" else np.zeros(case["P"], bool)
        keep = ~amb
        stats["identity_checks"] += 1
        if images_differ(run["impl"][keep], ref[keep], rel * scale_of(case, run)):
            ident_violation("I1:contact-is-das", "contact_tfm differs from delay_and_sum with lookup times distance/velocity on both sides",
                            case, dict(delay_and_sum_with_hand_built_tables=ref, theorem="contact_is_das"), run)
            break

# (I1b) raw acquisition dtypes: the samples of the exact classes are small integers, so the same frame stored as
#       int8 / int16 / int32 / float32 holds the same numbers; with the default or explicit timetrace weights
#       (float64) contact_tfm must return the same image as for the float64 frame, FMC and HMC alike
for case in [c for c in cases if c["kind"] == "contact" and c["klass"] == "E" and not c["cplx"] and c["bits"] == (64, 64)][:(25 if Q else 250)]:
    if not np.array_equal(case["data"], np.round(case["data"])) or np.max(np.abs(case["data"])) > 100:
        continue
    sdt = [np.int8, np.int16, np.int32, np.float32][int(rng.integers(0, 4))]
    fr_s = frame_with(case, case["tx"], case["rx"], case["data"].astype(sdt))
    chk.count(identity="sample_dtype", stored=np.dtype(sdt).name, mode=case["mode"].split("-")[0])
    for wts in ("default", [float(v) for v in case["w"]]):
        for scheme in (0, 1):
            a_ = call_contact(case, fr_s, scheme, 0.0, weights=wts)
            b_ = call_contact(case, case["frame"], scheme, 0.0, weights=wts)
            stats["identity_checks"] += 1
            if images_differ(a_, b_, tol_of(a_, b_, rel=1e-12)):
                ident_violation("I1b:sample-dtype", f"contact_tfm of a frame whose (integer-valued) samples are stored as {np.dtype(sdt).name} "
                                "differs from the image of the same samples stored as float64", case,
                                dict(interpolation=str(SCHEME[scheme]), weights="default" if isinstance(wts, str) else "explicit",
                                     stored_dtype=np.dtype(sdt).name, image_stored=a_, image_float64=b_))
                break

# (I1c) HISTORY on the objects: the same Probe (moved in place by translate / rotate, as a scan does), the same grid and the
#       same velocity imaged again: the image must be that of the NEW pose, i.e. of a fresh probe built at the new positions
for case in [c for c in cases if c["kind"] == "contact" and c["klass"] == "T" and c["bits"] == (64, 64) and "grid" in c][:(6 if Q else 60)]:
    fr_ = case["frame"]
    pr_ = fr_.probe
    first_ = call_contact(case, fr_, 0, 0.0)
    move_ = np.array([float(rng.uniform(1e-3, 4e-3)), 0.0, -float(rng.uniform(0.5e-3, 2e-3))])
    keep_ = (np.array(pr_.locations.coords, copy=True), pr_.pcs.copy())
    pr_.translate(move_)
    pr_.rotate(geo.rotation_matrix_y(float(rng.uniform(-0.2, 0.2))))
    moved_ = call_contact(case, fr_, 0, 0.0)
    fresh_probe = make_probe(np.asarray(pr_.locations.coords, dtype=np.float64))
    fresh_ = call_contact(case, frame_with(dict(case, probe=fresh_probe), case["tx"], case["rx"], case["data"]), 0, 0.0)
    stats["identity_checks"] += 1
    chk.count(identity="probe_moved_in_place")
    if images_differ(moved_, fresh_, tol_of(moved_, fresh_, rel=1e-12)):
        ident_violation("I1c:probe-moved", "contact_tfm with the same Probe object moved in place (translate + rotate) between two calls "
                        "differs from the image obtained with a fresh probe at the new positions", case,
                        dict(translation=move_, image_first_pose=first_, image_after_move=moved_, image_fresh_probe=fresh_,
                             same_as_first_pose=bool(not images_differ(moved_, first_, tol_of(moved_, first_, rel=1e-12)))))
    # put the probe back for the checks that follow
    pr_.locations = arim.Points(keep_[0], pr_.locations.name)
    pr_.pcs = keep_[1]

# (I2) N_hmc * I_hmc == N_fmc * I_fmc on reciprocal data; (I3) expanded HMC == FMC
n_i2 = 30 if Q else 300
for i in range(n_i2):
    exact = i % 2 == 0
    nel = int(rng.integers(1, 6)) if not exact else None
    if not exact and i % 10 == 1:
        nel = int(rng.integers(17, 22))          # more elements than sqrt(256): pair codes overflow 8-bit indices
    case = gen_contact_exact(mode="fmc", symmetric=True, bits=pick_bits()) if exact else \
        gen_contact_random(mode="fmc", symmetric=True, bits=(pick_bits()[0], 64), nel=nel)
    nel = case["nel"]
    txh, rxh = pairs_for(nel, ["hmc", "hmc", "hmc-perm", "hmcrev", "halfmixed-perm"][int(rng.integers(0, 5))],
                         index_dtype=(np.int8, np.uint8)[i % 4 // 2] if nel >= 17 else None)
    lo = np.minimum(case["tx"], case["rx"]); hi = np.maximum(case["tx"], case["rx"])
    # the HMC data = the FMC timetraces of the same unordered pair
    index = {(int(a), int(b)): k for k, (a, b) in enumerate(zip(case["tx"], case["rx"]))}
    data_h = np.ascontiguousarray(np.stack([case["data"][index[(int(a), int(b))]] for a, b in zip(txh, rxh)]))
    frame_h = frame_with(case, txh, rxh, data_h)
    frame_f = case["frame"]
    use_amp = rng.random() < 0.4
    amps = None
    if use_amp:
        add_amps(case, exact, symmetric=True)
        amps = make_amps(case)
    Nh, Nf = len(txh), len(case["tx"])
    chk.count(identity="hmc_eq_fmc", klass=case["klass"], amplitudes=use_amp, numelements=nel)
    for scheme in ([0, 1] if use_amp else ALL_SCHEMES):
        ih = call_contact(case, frame_h, scheme, 0.0, amps=amps)
        iff = call_contact(case, frame_f, scheme, 0.0, amps=amps)
        stats["identity_checks"] += 1
        tol = tol_of(Nh * ih, Nf * iff, rel=f32tol(case))
        if images_differ(Nh * ih, Nf * iff, tol):
            ident_violation("I2:hmc-eq-fmc", "N_hmc * I_hmc differs from N_fmc * I_fmc on reciprocal data (default weights, fill 0)",
                            case, dict(interpolation=str(SCHEME[scheme]), amplitudes=use_amp, hmc_tx=txh, hmc_rx=rxh,
                                       image_hmc=ih, image_fmc=iff, N_hmc=Nh, N_fmc=Nf, theorem="hmc_eq_fmc"))
            break
        # NaN fill: the same pixels are NaN (the window test is symmetric in tx / rx)
        if scheme == 0:
            ihn = call_contact(case, frame_h, 0, float("nan"), amps=amps)
            ifn = call_contact(case, frame_f, 0, float("nan"), amps=amps)
            if np.any(np.isnan(ihn) != np.isnan(ifn)):
                ident_violation("I2:hmc-eq-fmc-nan", "HMC and FMC images are NaN on different pixels (fill NaN)", case,
                                dict(image_hmc=ihn, image_fmc=ifn, hmc_tx=txh, hmc_rx=rxh))
                break
    # (I3) expansion
    try:
        fe = guarded("I3:expand-raises", "Frame.expand_frame_assuming_reciprocity on an HMC frame", case,
                     lambda: frame_h.expand_frame_assuming_reciprocity())
    except ImplRaised:
        continue
    if nel >= 2 and not (len(fe.tx) == Nf):
        ident_violation("I3:expand-size", "the expanded HMC frame has not n^2 timetraces", case,
                        dict(expanded_tx=np.asarray(fe.tx), expanded_rx=np.asarray(fe.rx)))
    for scheme in ALL_SCHEMES[:2] + ([2] if not use_amp else []):
        for wts in ("default", None):
            ie = call_contact(case, fe, scheme, float(FILLS[i % 3]), weights=wts, amps=amps)
            iff = call_contact(case, frame_f, scheme, float(FILLS[i % 3]), weights=wts, amps=amps)
            stats["identity_checks"] += 1
            if images_differ(ie, iff, tol_of(ie, iff, rel=f32tol(case))):
                ident_violation("I3:expand-then-image", "the image of the expanded HMC frame differs from the FMC image", case,
                                dict(interpolation=str(SCHEME[scheme]), weights=wts, image_expanded=ie, image_fmc=iff,
                                     expanded_tx=np.asarray(fe.tx), expanded_rx=np.asarray(fe.rx), theorem="expand_then_image"))
                break

# (I4) view vs reciprocal view on reciprocal FMC data (+ I3 for views); hand-built and ray-traced views
n_i4 = 20 if Q else 200
i4_cases = [gen_view_exact(mode="fmc" if k % 3 else "fmc-perm", symmetric=True, bits=pick_bits()) for k in range(n_i4)]
for k in range(4 if Q else 30):
    i4_cases += gen_view_cases("immersion" if k % 2 == 0 else "contact", nviews=4, symmetric=True, mode="fmc")
for case in i4_cases:
    use_amp = rng.random() < 0.3
    amps = amps_rev = None
    if use_amp:
        add_amps(case, case["klass"] == "E")
        amps = make_amps(case)
        amps_rev = tfm.TxRxAmplitudes(case["amp"][1], case["amp"][0])
    chk.count(identity="reciprocal_views", klass=case["klass"], amplitudes=use_amp, view=case["viewname"].split(":")[1] if case["klass"] == "T" else "handmade",
              ray_order=case["order"])
    for scheme in ([0, 1] if use_amp else ALL_SCHEMES):
        fill = float(FILLS[int(rng.integers(0, 3))])
        a = call_view(case, case["frame"], case["view"], scheme, fill, amps)
        b = call_view(case, case["frame"], case["view_rev"], scheme, fill, amps_rev)
        stats["identity_checks"] += 1
        if images_differ(a, b, tol_of(a, b, rel=f32tol(case))):
            ident_violation("I4:reciprocal-views", "a view and its reciprocal view give different images on reciprocal FMC data", case,
                            dict(interpolation=str(SCHEME[scheme]), fill=fill, image_view=a, image_reciprocal=b, amplitudes=use_amp,
                                 theorem="reciprocal_views_coincide"))
            break
    # (I3) for views: the HMC part of the frame, expanded, gives the FMC image
    if case["nel"] >= 1 and set(zip(case["tx"].tolist(), case["rx"].tolist())) == {(i, j) for i in range(case["nel"]) for j in range(case["nel"])}:
        sel = np.nonzero(case["tx"] <= case["rx"])[0]
        sel = sel[rng.permutation(len(sel))] if rng.random() < 0.3 else sel
        fh = frame_with(case, case["tx"][sel], case["rx"][sel], case["data"][sel])
        try:
            fe = guarded("I3:expand-raises", "Frame.expand_frame_assuming_reciprocity on an HMC frame", case,
                         lambda: fh.expand_frame_assuming_reciprocity())
        except ImplRaised:
            continue
        a = call_view(case, fe, case["view"], 1, 0.0, amps)
        b = call_view(case, case["frame"], case["view"], 1, 0.0, amps)
        stats["identity_checks"] += 1
        if images_differ(a, b, tol_of(a, b, rel=f32tol(case))):
            ident_violation("I3:expand-then-image-view", "tfm_for_view of the expanded HMC frame differs from the FMC image", case,
                            dict(image_expanded=a, image_fmc=b, expanded_tx=np.asarray(fe.tx), expanded_rx=np.asarray(fe.rx)))

# (I5) contact_tfm(weights=None) == tfm_for_view along the direct path
for k in range(5 if Q else 40):
    nel = int(rng.integers(1, 5)); P = int(rng.integers(1, 9))
    fortran = bool(rng.integers(0, 2))
    views, probe, gcoords, S = view_setups("contact", nel, P, fortran)
    shape = grid_shape_for(P)
    grid = make_grid(gcoords, shape)
    tx, rx = pairs_for(nel, MODES[int(rng.integers(0, len(MODES)))])
    for name, vel in (("L-L", S["block"].longitudinal_vel), ("T-T", S["block"].transverse_vel)):
        v = views[name]
        tt = np.array(v.tx_path.rays.times)
        ns, dt, t0 = random_time_axis(float(2 * tt.min()), float(2 * tt.max()))
        cplx = bool(rng.integers(0, 2))
        data = rand_data(len(tx), ns, cplx, False, data_dtype(cplx, 64))
        case = dict(kind="contact", klass="T", cplx=cplx, ns=ns, dt=dt, t0=t0, vel=float(vel), tx=tx, rx=rx, data=data,
                    gcoords=gcoords, pcoords=np.array(probe.locations.coords), gshape=shape, P=P, nel=nel, grid=grid, probe=probe,
                    w=np.ones(len(tx)), amp=None, mode="any", bits=(64, 64), margin=1e-9, rtol=1e-11, viewname=name)
        case["frame"] = make_frame(case, probe)
        chk.count(identity="contact_is_straight_rays", view=name, ray_order="F" if fortran else "C")
        for scheme in ALL_SCHEMES:
            fill = float(FILLS[int(rng.integers(0, 3))])
            a = call_contact(case, case["frame"], scheme, fill, weights=None)
            b = call_view(case, case["frame"], v, scheme, fill)
            amb = ambiguous_pixels(case, scheme)
            stats["identity_checks"] += 1
            if images_differ(a[~amb], b[~amb], tol_of(a, b)):
                ident_violation("I5:contact-is-straight-rays", f"contact_tfm(weights=None) differs from tfm_for_view of the direct view {name}", case,
                                dict(interpolation=str(SCHEME[scheme]), fill=fill, image_contact=a, image_view=b,
                                     theorem="contact_is_straight_rays"))
                break

# (I6) unit spikes of a scatterer on a grid node
n_i6 = 40 if Q else 400
for i in range(n_i6):
    r = i % 4
    if r == 0:
        case = gen_contact_exact(cplx=False, mode=["fmc", "hmc", "subset"][int(rng.integers(0, 3))], want=int(rng.integers(2, 9)))
    elif r == 1:
        case = gen_contact_random(cplx=False, mode=["fmc", "hmc", "subset-perm"][int(rng.integers(0, 3))], bits=(64, 64))
    elif r == 2:
        case = gen_view_exact(cplx=False)
    else:
        if not view_cases_T:
            continue
        base = view_cases_T[int(rng.integers(0, len(view_cases_T)))]
        case = dict(base); case["cplx"] = False; case["amp"] = None
    ltx, lrx = lookup_tables(case)
    P = case["P"]; p0 = int(rng.integers(0, P))
    lt = ltx[p0, case["tx"]] + lrx[p0, case["rx"]]
    ns = case["ns"]
    if r in (1, 3):
        # a time axis that contains every arrival
        dt = case["dt"]; t0 = float(lt.min() - dt * rng.uniform(0.3, 3.0))
        ns = int(math.ceil((lt.max() - t0) / dt)) + int(rng.integers(2, 6))
        case["t0"] = t0; case["ns"] = ns
    pos = (lt - case["t0"]) / case["dt"]
    pos2 = (lt - case["t0"]) * (1 / case["dt"])
    k1 = np.round(pos); k2 = np.round(pos2)
    if np.any(k1 != k2) or (case["klass"] == "T" and np.any(np.abs((pos - 0.5) - np.round(pos - 0.5)) < 1e-9 * np.maximum(1, np.abs(pos)))):
        stats["spike_cases_skipped_on_ties"] += 1
        continue
    kk = k1.astype(int)
    inside = (kk >= 0) & (kk < ns)
    data = np.zeros((len(case["tx"]), ns))
    data[np.nonzero(inside)[0], kk[inside]] = 1.0
    case["data"] = np.ascontiguousarray(data)
    frame = frame_with(case, case["tx"], case["rx"], case["data"])
    chk.count(identity="spike_focus", klass=case["klass"], case_kind=case["kind"], capture=case["mode"], all_inside=bool(inside.all()))
    if case["kind"] == "contact":
        img = call_contact(case, frame, 0, 0.0, weights=None)
    else:
        img = call_view(case, frame, case["view"], 0, 0.0)
    stats["identity_checks"] += 1
    expect0 = float(inside.sum()) / len(inside)
    eps = 4e-16
    if abs(img[p0] - expect0) > eps or np.any(img > 1 + eps) or np.any(img < 0):
        ident_violation("I6:spike-focus", "unit spikes at the arrival samples of a node: the nearest-sample image is not 1 at the node / exceeds 1",
                        case, dict(node=p0, image=img, expected_at_node=expect0, spike_samples=kk, theorem="spike_focus"))
    if case["kind"] == "contact" and case["mode"] in ("hmc", "fmc") and inside.all():
        imgw = call_contact(case, frame, 0, 0.0, weights="default")
        n = case["nel"]; N = len(case["tx"])
        if abs(N * imgw[p0] - n * n) > 1e-12 * n * n or np.any(N * imgw > n * n * (1 + 1e-12)):
            ident_violation("I6:spike-focus-weights", "unit spikes, default weights: N * image is not n^2 at the node / exceeds n^2",
                            case, dict(node=p0, image=imgw, N=N, n=n))

# the witness of hmc_eq_fmc_needs_zero_fill replayed on the code: elements at x = 0 and 5, grid point at the origin
# (lookup times 0 and 5), two samples, dt = 1, t0 = 0, data zero, fill 1, linear: 3 * I_hmc = 2 and 4 * I_fmc = 3
def replay_fill_witness():
    res = {}
    for mode in ("hmc", "fmc"):
        tx, rx = pairs_for(2, mode)
        case = dict(kind="contact", klass="E", cplx=False, ns=2, dt=1.0, t0=0.0, vel=1.0, tx=tx, rx=rx,
                    data=np.zeros((len(tx), 2)), gcoords=np.zeros((1, 3)), pcoords=np.array([[0.0, 0, 0], [5.0, 0, 0]]),
                    gshape=(1,), P=1, nel=2, w=np.ones(len(tx)), amp=None, mode=mode, bits=(64, 64), margin=0.0, rtol=0.0)
        finish_case(case)
        res[mode] = float(len(tx) * call_contact(case, case["frame"], 1, 1.0)[0])
    if abs(res["hmc"] - 2.0) > 1e-15 or abs(res["fmc"] - 3.0) > 1e-15:
        chk.violation("witness:nonzero-fill", "the witness of hmc_eq_fmc_needs_zero_fill does not behave on the code as in the model",
                      dict(theorem_or_correspondence="hmc_eq_fmc_needs_zero_fill", N_times_image=res, model=dict(hmc=2.0, fmc=3.0)),
                      failing_input_found=False)
    if abs(res["hmc"] - res["fmc"]) > 1e-12:
        # the property as stated (no condition on the fill value) fails on this concrete input:
        # a genuine deviation, recorded in known_findings.txt under this key
        chk.violation("hmc-fmc:nonzero-fill",
                      "HMC image x N_hmc != FMC image x N_fmc on symmetric data when a lookup leaves the time window and the fill value is non-zero",
                      dict(elements_x=[0.0, 5.0], grid_point=[0.0, 0.0, 0.0], velocity=1.0, samples=2, dt=1.0, t0=0.0,
                           data="zeros", interpolation="linear", fillvalue=1.0, N_times_image=res,
                           theorem="hmc_eq_fmc_needs_zero_fill (Props/C12.v)"), failing_input_found=True)
    return res


fill_witness = replay_fill_witness()

samples = []
for c in cases[:3] + cases[-2:]:
    samples.append(dict(kind=c["kind"], klass=c["klass"], capture=c["mode"], grid_shape=c["gshape"], numelements=c["nel"],
                        ns=c["ns"], view=c.get("viewname"), image=c["runs"][0]["impl"][:4]))

# (I7) IMAGE-SIZED grids (more than 2^19 pixels, a count that is not a multiple of a power of two): the value of a pixel does
#      not depend on how many other pixels are imaged with it -- the whole image against the same pixels imaged a few at a time
#      (the last ones in storage order, the first ones, random ones), FMC and HMC, and a unit-spike scatterer on the LAST node
for big_i in range(1 if Q else 3):
    nel_ = 4
    nx_, nz_ = [(1000, 600), (733, 901), (2049, 513)][big_i]
    xs_ = (np.arange(nel_) - (nel_ - 1) / 2) * 0.7e-3
    probe_ = arim.Probe(arim.Points(np.column_stack([xs_, np.zeros(nel_), np.zeros(nel_)]), "Probe"), 5e6)
    gx_, gz_ = np.meshgrid(np.linspace(-8e-3, 8e-3, nx_), np.linspace(6e-3, 18e-3, nz_), indexing="ij")
    gcoords_ = np.stack([gx_, np.zeros_like(gx_), gz_], axis=-1)
    grid_ = arim.Points(gcoords_, "Grid")
    vel_ = 6300.0
    time_ = arim.Time(0.0, 1 / 40e6, 400)
    node_ = gcoords_[-1, -1]
    flat_ = gcoords_.reshape(-1, 3)
    pick_ = np.unique(np.concatenate([np.arange(0, 50), rng.integers(0, len(flat_), 200), np.arange(len(flat_) - 3000, len(flat_))]))
    sub_grid_ = arim.Points(np.ascontiguousarray(flat_[pick_]), "Grid")
    for capture_ in ("fmc", "hmc"):
        tx_, rx_ = (arim.ut.fmc if capture_ == "fmc" else arim.ut.hmc)(nel_)
        tau_ = np.linalg.norm(node_[None, :] - probe_.locations.coords, axis=1) / vel_
        data_ = np.zeros((len(tx_), len(time_)))
        for k_, (a_, b_) in enumerate(zip(tx_, rx_)):
            data_[k_, int(round((tau_[a_] + tau_[b_]) / time_.step))] = 1.0
        data_ = data_ + 0.01 * rng.standard_normal(data_.shape)
        frame_ = arim.Frame(data_, time_, tx_, rx_, probe_, None)
        img_ = np.asarray(tfm.contact_tfm(frame_, grid_, vel_).res)
        sub_ = np.asarray(tfm.contact_tfm(frame_, sub_grid_, vel_).res)
        stats["identity_checks"] += 1
        evaluations += 1
        chk.count(identity="image_sized_grid", pixels=nx_ * nz_, capture=capture_)
        bad_ = img_.shape != (nx_, nz_) or not np.allclose(img_.reshape(-1)[pick_], sub_, rtol=0, atol=1e-12 * float(np.max(np.abs(sub_))))
        if bad_:
            wrong_ = pick_[np.flatnonzero(~np.isclose(img_.reshape(-1)[pick_], sub_, rtol=0, atol=1e-12 * float(np.max(np.abs(sub_)))))] if img_.shape == (nx_, nz_) else pick_[:0]
            chk.violation("I7:image-sized-grid", f"contact_tfm on a grid of {nx_} x {nz_} pixels ({capture_.upper()}) differs from the image of the same pixels taken a few at a time",
                          dict(grid_shape=[nx_, nz_], capture=capture_, numelements=nel_, velocity=vel_, time=[0.0, 1 / 40e6, 400], image_shape=list(img_.shape),
                               first_wrong_pixels_flat_index=wrong_[:10], values_in_full_image=img_.reshape(-1)[wrong_[:10]] if len(wrong_) else None,
                               values_imaged_apart=sub_[np.searchsorted(pick_, wrong_[:10])] if len(wrong_) else None,
                               data="unit spikes at the arrival times of the last grid node + 0.01 * rng.standard_normal (seed and tier)"), failing_input_found=True)
            break

# (I8) several Python threads image different symmetric frames of the same size at once with the default weights (a thread pool
#      over the frames of a scan): every image is bit for bit the image of its own frame computed alone.
# (I9) a caller-supplied result buffer that is not zero (np.empty memory, a buffer re-used from the previous frame): same image
from concurrent.futures import ThreadPoolExecutor as _TPE  # noqa: E402
for big_i in range(1 if Q else 4):
    nel_ = 8
    xs_ = (np.arange(nel_) - (nel_ - 1) / 2) * 0.7e-3
    probe_ = arim.Probe(arim.Points(np.column_stack([xs_, np.zeros(nel_), np.zeros(nel_)]), "Probe"), 5e6)
    grid_ = arim.Grid(-8e-3, 8e-3, 0.0, 0.0, 6e-3, 18e-3, 0.1e-3)
    time_ = arim.Time(0.0, 1 / 40e6, 500)
    tx_, rx_ = arim.ut.hmc(nel_)
    frames_ = [arim.Frame(rng.standard_normal((len(tx_), len(time_))), time_, tx_, rx_, probe_, None) for _ in range(3)]
    seq_ = [np.asarray(tfm.contact_tfm(f_, grid_, 6300.0).res) for f_ in frames_]
    order_ = [int(k_) for k_ in rng.integers(0, 3, 24)]
    with _TPE(max_workers=4) as ex_:
        futs_ = [ex_.submit(tfm.contact_tfm, frames_[k_], grid_, 6300.0) for k_ in order_]
        conc_ = [np.asarray(f_.result().res) for f_ in futs_]
    stats["identity_checks"] += 1
    evaluations += len(order_)
    chk.count(identity="concurrent_calls", capture="hmc")
    wrong_ = [j_ for j_, (k_, im_) in enumerate(zip(order_, conc_)) if not np.array_equal(im_, seq_[k_])]
    if wrong_:
        chk.violation("I8:concurrent-calls", f"contact_tfm (default weights) called from 4 Python threads at once on frames of the same size: {len(wrong_)} of "
                      f"{len(order_)} images differ from the image of their own frame computed alone",
                      dict(numelements=nel_, capture="hmc", grid_points=int(np.prod(grid_.shape)), frame_of_first_wrong_image=order_[wrong_[0]],
                           max_abs_difference=float(np.max(np.abs(conc_[wrong_[0]] - seq_[order_[wrong_[0]]]))),
                           data="rng.standard_normal, seed and tier"), failing_input_found=True)
    buf_ = np.full(int(np.prod(grid_.shape)), 7.25)
    for k_, f_ in enumerate(frames_[:2]):
        got_ = np.asarray(tfm.contact_tfm(f_, grid_, 6300.0, result=buf_).res)      # the buffer of the previous frame, re-used
        stats["identity_checks"] += 1
        evaluations += 1
        chk.count(identity="result_buffer_reused")
        if got_.shape != seq_[k_].shape or not np.array_equal(got_, seq_[k_]):
            chk.violation("I9:result-buffer", "contact_tfm with a caller-supplied result buffer that is not zero (re-used from the previous image) "
                          "differs from the image computed without it",
                          dict(numelements=nel_, capture="hmc", buffer_before="7.25 everywhere" if k_ == 0 else "the previous image",
                               max_abs_difference=float(np.max(np.abs(got_.reshape(seq_[k_].shape) - seq_[k_]))) if got_.size == seq_[k_].size else None),
                          failing_input_found=True)
            break

# ---- the glue model of the public functions (Model files added later, see manifest text) tied to the library on every run:
#      inputs generated here, the library run on them, the model evaluated on the same inputs by vm_compute inside coqc
import ties.tie_C12 as _tie_glue  # noqa: E402
_tie_n = _tie_glue.run(chk, arim, rng, Q)
chk.cov["glue_model_tie_comparisons"] = int(_tie_n or 0)

chk.finish(
    evaluations=evaluations,
    distinct_nontrivial=len(nontrivial),
    rule="(case, pixel) pairs of the model correspondence with at least one timetrace looked up inside the time window",
    samples=samples,
    extra=dict(stats=stats, cases_compared_with_model=len(cases), cases_failing=len(bad),
               refutation_replayed=dict(theorem="hmc_eq_fmc_needs_zero_fill", N_times_image_on_the_code=fill_witness,
                                        note="HMC = FMC is stated (and holds) for the default fill value 0 only")),
)
