"""C02 — Delay-and-sum image equals its mathematical definition.

Proof side : Props/C02.v (every mean kernel = das_spec for all frames; unit
             amplitudes; linear two forms / nodes; permutation of timetraces;
             window characterisations; dispatch table; robust kernels hand the
             delayed samples to geomed / Huber; Newton step, Huber fixed point).
Tie        : arim.im.das.delay_and_sum(frame, focal_law, ...) on real arim.Frame /
             FocalLaw / TxRxAmplitudes objects, for every accepted combination,
             against the Coq model:
             (E) dyadic-exact inputs, compared EXACTLY with the model evaluated on
                 binary64 by vm_compute inside coqc (nearest, linear, amp / noamp,
                 real / complex, float32 / float64, weights, fill 0 / NaN / -7,
                 FMC / HMC / subsets / permuted order, fresh / preallocated result);
                 sweep frames put a lookup on every quarter-sample position from
                 -2 to n+2, so round / floor / trunc, `<` vs `<=`, the t0 offset and
                 the tx/rx indirection are pinned without tolerance;
             (T/D) random floats at 1e-11 (float32 configurations 1e-5), lookups
                 closer than 1e-9 to a decision boundary excluded and counted;
             (L) Lanczos, median, Huber through the extracted OCaml model (libm sin);
             (M) theorems das_permutation, das_unit_amp, das_linear_in_data evaluated on
                 the implementation (exact on dyadic frames);
             (X) the dispatcher (kernel chosen / error class) against the model's
                 decision table over the whole finite domain.
             corpus/C02/*.json (minimised cases: the repaired linear left edge and the
             four known findings of the median aggregation) is replayed first.
Median / Huber: compared with the model at 1e-7 AND checked against the property
             itself on the implementation's value (median: the objective sum|z-d_i|,
             extracted geomed_f, cannot be decreased from z; Huber: |sum psi_tau| ~ 0).
             Known findings (one root cause: geomed's gradient / Hessian are singular at
             data points) carry the stable keys median:start-on-fill-value,
             median:stalls-near-data-point, median:collinear-samples,
             median:iterate-hits-sample; any other disagreement has key das:<kernel>.
Search     : the extracted spec (das_spec, per pixel) is evaluated on the
             implementation's inputs whenever a correspondence breaks; a pixel where
             the implementation differs from the spec is a failing input, shrunk to
             one pixel and <= 2 timetraces.
"""
import itertools
import math
import sys

import numpy as np

from common import Check, close, cZ, cfloat, clist, cpair, cbool, copt

chk = Check("C02", design_ref="DESIGN.md §5 C02")
chk.proofs(extra_trusted=[
    "extraction: ExtrOcamlBasic only (Extract/C02.v); ocaml/common/numf.ml and ocaml/C02/driver.ml are hand-written and trusted",
    "modelled, not verified: numba fastmath (reassociation, x/N compiled as x*(1/N)), numpy dtype promotion and the "
    "Frame/FocalLaw glue are exercised by the correspondence only",
])
arim = chk.import_arim()
import arim.im.das as das      # noqa: E402
import arim.im.tfm as tfm      # noqa: E402

rng = chk.rng
# second tie: the scalar kernels are re-translated from the current source and checked
# convertible with the model; a broken tie deepens the correspondence run (thorough sizes)
_ties = chk.translation_tie()
Q = chk.tier == "quick" and all(v == "ok" for v in _ties.values())
IMPORTS = ("From Coq Require Import ZArith List PrimFloat.\n"
           "From Arim Require Import Base.Num Base.NumF Model.Das Model.Robust.\n")

KNAME = {0: ("amp", "nearest", "mean"), 1: ("amp", "linear", "mean"), 2: ("noamp", "nearest", "mean"),
         3: ("noamp", "linear", "mean"), 4: ("noamp", "lanczos", "mean"), 5: ("noamp", "nearest", "median"),
         6: ("noamp", "lanczos", "median"), 7: ("noamp", "lanczos", "huber")}


# ---------------------------------------------------------------------------
# inputs: a `spec` is a dict of plain numpy arrays from which the real arim objects
# are built; a `run` is one call of delay_and_sum on it
# ---------------------------------------------------------------------------
def pairs_for(rng, nel, mode):
    """(tx, rx) of a frame: FMC, HMC, a random subset of distinct pairs, any of them permuted."""
    if mode.startswith("fmc"):
        tx, rx = arim.ut.fmc(nel)
    elif mode.startswith("hmc"):
        tx, rx = arim.ut.hmc(nel)
    else:
        allp = [(i, j) for i in range(nel) for j in range(nel)]
        k = int(rng.integers(1, len(allp) + 1))
        if mode.endswith("pow2"):
            k = 1 << int(math.log2(k))
        idx = rng.choice(len(allp), size=k, replace=False)
        tx = np.array([allp[i][0] for i in idx]); rx = np.array([allp[i][1] for i in idx])
    tx = np.asarray(tx).astype(np.int64); rx = np.asarray(rx).astype(np.int64)
    if mode.endswith("perm"):
        p = rng.permutation(len(tx))
        tx, rx = tx[p], rx[p]
    return np.ascontiguousarray(tx), np.ascontiguousarray(rx)


def build(spec, use_amp, use_w):
    probe = arim.Probe.make_matrix_probe(spec["nel"], 1e-3, 1, np.nan, 1e6)
    frame = arim.Frame(spec["data"], arim.Time(spec["t0"], spec["dt"], spec["ns"]), spec["tx"], spec["rx"], probe, None)
    amps = tfm.TxRxAmplitudes(spec["atx"], spec["arx"]) if use_amp else None
    fl = tfm.FocalLaw(spec["ltx"], spec["lrx"], amps, spec["w"] if use_w else None)
    return frame, fl


def interp_arg(name, a):
    return ("lanczos", a) if name == "lanczos" else name


def aggr_arg(name, tau):
    return ("huber", tau) if name == "huber" else name


_history_count = 0


def run_impl(spec, run):
    amp, interp, aggr = KNAME[run["kernel"]]
    frame, fl = build(spec, amp == "amp", run["use_w"])
    kw = dict(fillvalue=run["fill"], interpolation=interp_arg(interp, run.get("a", 0)),
              aggregation=aggr_arg(aggr, run.get("tau", 0.0)))
    P = spec["ltx"].shape[0]
    global _history_count
    _history_count += 1
    if _history_count % 3 == 0:
        # HISTORY: the same Frame and FocalLaw objects were used before, when the frame held other samples (the caller
        # gates / filters frame.timetraces in place between two images); the image must be that of the samples it holds now
        tt = frame.timetraces
        if tt.flags.writeable:
            keep_ = tt.copy()
            tt[...] = (keep_ * 0 + 3) if _history_count % 2 else keep_[::-1]
            try:
                das.delay_and_sum(frame, fl, **kw)
            except Exception:       # noqa: BLE001  (robust solvers may fail on the scrambled samples; irrelevant here)
                pass
            tt[...] = keep_
            chk.count(frame_and_focal_law_used_before="samples changed in place since")
    if run.get("prealloc"):
        res0 = np.full((P,), 12345.0, dtype=run["prealloc"])
        out = das.delay_and_sum(frame, fl, result=res0, **kw)
        assert out is res0
    else:
        out = das.delay_and_sum(frame, fl, **kw)
    assert out.shape == (P,)
    return np.asarray(out)


def cplx_pairs(arr):
    return [(float(np.real(v)), float(np.imag(v))) for v in np.asarray(arr).ravel()]


def cfpair(p):
    return cpair(cfloat(p[0]), cfloat(p[1]))


def case_literal(spec, runs, keep=None):
    """Coq literal (Model.Das.fcase) of a frame + the implementation's images.
    keep[r] = pixel indices compared for run r (None = all)."""
    P = spec["ltx"].shape[0]
    scans = [cpair(cpair(cZ(t), cZ(r)), clist(cplx_pairs(x), cfpair))
             for t, r, x in zip(spec["tx"], spec["rx"], spec["data"])]
    run_lits = []
    for k, run in enumerate(runs):
        run_lits.append((run, keep[k] if keep else list(range(P))))
    # rows differ per run only through `keep`; to keep literals small all runs of one case share the rows,
    # so a case is split by the caller when keeps differ
    pix = run_lits[0][1]
    assert all(kp == pix for _, kp in run_lits)
    rows = [cpair(cpair(cpair(clist([float(v) for v in spec["ltx"][p]], cfloat),
                              clist([float(v) for v in spec["lrx"][p]], cfloat)),
                        clist(cplx_pairs(spec["atx"][p]), cfpair)),
                  clist(cplx_pairs(spec["arx"][p]), cfpair)) for p in pix]
    rl = []
    for run, _ in run_lits:
        fill = run["fill"]
        rl.append("(mkFRun {} {} {} {} {} {})".format(
            cZ(run["kernel"]), cZ(run.get("a", 0)), cfpair((float(fill), 0.0)), cbool(run["use_w"]),
            clist(cplx_pairs(run["impl"][pix]), cfpair), cfloat(run["atol"])))
    return "(mkFCase {} {} {} {} {} {} {} {})".format(
        cbool(spec["cplx"]), cZ(spec["ns"]), cfloat(spec["dt"]), cfloat(spec["t0"]),
        clist([float(v) for v in spec["w"]], cfloat), clist(scans), clist(rows), clist(rl))


DTYPES = {("real", 64): np.float64, ("real", 32): np.float32, ("cplx", 64): np.complex128, ("cplx", 32): np.complex64}


def gen_exact(rng, cplx, nel, ns, P, mode, bits_data=64, bits_lut=64, sweep=False, edge=None):
    """dyadic-exact frame: dt = 2^-e, t0 = m dt/4, lookups on quarter samples, small-integer data,
    amplitudes / weights small dyadic numbers: every operation of every kernel is exact in binary64
    (and in binary32 where the implementation uses it)."""
    e = int(rng.choice([0, 1, 3, 6, 20, 24]))
    dt = 2.0 ** -e
    m = int(rng.integers(-9, 10))
    t0 = m * dt / 4
    tx, rx = pairs_for(rng, nel, mode)
    N = len(tx)
    re = rng.integers(-8, 9, size=(N, ns)).astype(np.float64)
    if cplx:
        data = re + 1j * rng.integers(-8, 9, size=(N, ns))
    else:
        data = re
    if sweep:
        # every quarter-sample position from -2 to ns+2, one pixel each; a on tx, b on rx
        q = np.arange(-8, 4 * ns + 9)
        P = len(q)
        a = rng.integers(-3, 4, size=(P, nel))
        b = np.zeros((P, nel), dtype=np.int64)
        # pixel p: the pair (tx[0], rx[0]) is exactly on q[p]; other pairs land wherever
        b[:, :] = rng.integers(-3, 2 * ns + 4, size=(P, nel))
        b[:, rx[0]] = q - a[:, tx[0]]
    elif edge == "late":
        # EVERY entry of the lookup tables (every pixel, every element pair) is later than the last sample, by 1/4 to 5/4
        # of a sample: nearest still reads the last sample up to half a step beyond it, Lanczos up to one step
        a = 2 * (ns - 1) + rng.integers(0, 2, size=(P, nel))
        b = 2 * (ns - 1) + rng.integers(1, 4, size=(P, nel))
    elif edge == "early":
        # ... or earlier than the first sample by 1/4 to 5/4 of a sample
        a = rng.integers(-2, 0, size=(P, nel))
        b = rng.integers(-3, 1, size=(P, nel))
    else:
        a = rng.integers(-3, 2 * ns + 4, size=(P, nel))
        b = rng.integers(-3, 2 * ns + 4, size=(P, nel))
    ltx = a * (dt / 4)
    lrx = (b + m) * (dt / 4)
    avals = np.array([1, -1, 0.5, 2, 0.25, -0.5, 3, 0, 1, 1])
    atx = rng.choice(avals, size=(P, nel)); arx = rng.choice(avals, size=(P, nel))
    if cplx and rng.random() < 0.5:
        atx = atx + 1j * rng.choice(avals, size=(P, nel)); arx = arx + 1j * rng.choice(avals, size=(P, nel))
    w = rng.choice(np.array([1, 2, 0.5, 3, 0.25, 2, 2]), size=N)
    dd = DTYPES[("cplx" if cplx else "real", bits_data)]
    dl = np.float32 if bits_lut == 32 else np.float64
    da = (np.complex64 if bits_data == 32 else np.complex128) if np.iscomplexobj(atx) else (np.float32 if bits_data == 32 else np.float64)
    spec = dict(cplx=cplx, nel=nel, ns=ns, dt=dt, t0=t0, tx=tx, rx=rx,
                data=np.ascontiguousarray(data.astype(dd)), ltx=np.ascontiguousarray(ltx.astype(dl)),
                lrx=np.ascontiguousarray(lrx.astype(dl)), atx=np.ascontiguousarray(atx.astype(da)),
                arx=np.ascontiguousarray(arx.astype(da)), w=np.ascontiguousarray(w.astype(np.float64)),
                mode=mode, bits=(bits_data, bits_lut), klass="E", sweep=sweep)
    # the conversions must have been exact
    assert np.array_equal(spec["ltx"].astype(np.float64), ltx) and np.array_equal(spec["lrx"].astype(np.float64), lrx)
    return spec


def gen_random(rng, cplx, nel, ns, P, mode, bits_data=64, bits_lut=64):
    dt = float(rng.uniform(0.5, 2.0) * 10.0 ** rng.integers(-9, -6))
    t0 = float(rng.uniform(-5, 20) * dt)
    tx, rx = pairs_for(rng, nel, mode)
    N = len(tx)
    data = rng.normal(size=(N, ns))
    if cplx:
        data = data + 1j * rng.normal(size=(N, ns))
    half = rng.uniform(-1.5, ns / 2 + 1.5, size=(2, P, nel))
    ltx = half[0] * dt + t0 * 0.25
    lrx = half[1] * dt + t0 * 0.75
    atx = rng.uniform(-2, 2, size=(P, nel)); arx = rng.uniform(-2, 2, size=(P, nel))
    if cplx and rng.random() < 0.5:
        atx = atx + 1j * rng.uniform(-2, 2, size=(P, nel)); arx = arx + 1j * rng.uniform(-2, 2, size=(P, nel))
    w = rng.uniform(0.5, 2.0, size=N)
    dd = DTYPES[("cplx" if cplx else "real", bits_data)]
    dl = np.float32 if bits_lut == 32 else np.float64
    da = (np.complex64 if bits_data == 32 else np.complex128) if np.iscomplexobj(atx) else (np.float32 if bits_data == 32 else np.float64)
    return dict(cplx=cplx, nel=nel, ns=ns, dt=dt, t0=t0, tx=tx, rx=rx,
                data=np.ascontiguousarray(data.astype(dd)), ltx=np.ascontiguousarray(ltx.astype(dl)),
                lrx=np.ascontiguousarray(lrx.astype(dl)), atx=np.ascontiguousarray(atx.astype(da)),
                arx=np.ascontiguousarray(arx.astype(da)), w=np.ascontiguousarray(w), mode=mode,
                bits=(bits_data, bits_lut), klass="T", sweep=False)


def positions(spec):
    """l[p, k] in float64 (harness-side, only used for the decision-margin exclusion and statistics)."""
    lt = spec["ltx"].astype(np.float64)[:, spec["tx"]] + spec["lrx"].astype(np.float64)[:, spec["rx"]]
    return (lt - spec["t0"]) / spec["dt"]


def ambiguous_pixels(spec, interp):
    """class D: pixels having a lookup within the margin of a decision boundary of the scheme."""
    l = positions(spec)
    thr = (1e-9 if spec["bits"][1] == 64 else 4e-6) * np.maximum(1.0, np.abs(l))
    ns = spec["ns"]
    if interp == "nearest":
        d = np.abs((l - 0.5) - np.round(l - 0.5))          # distance to the nearest half-integer
    elif interp == "linear":
        d = np.minimum(np.abs(l), np.abs(l - (ns - 1)))
    else:
        d = np.minimum(np.abs(l), np.abs(l - ns))
    return np.any(d < thr, axis=1)


def scale_of(spec, run):
    amp, _, _ = KNAME[run["kernel"]]
    s = float(np.max(np.abs(spec["data"]))) if spec["data"].size else 0.0
    if run["use_w"]:
        s *= float(np.max(np.abs(spec["w"])))
    if amp == "amp":
        s *= float(np.max(np.abs(spec["atx"]))) * float(np.max(np.abs(spec["arx"])))
    f = run["fill"]
    if f == f:
        s = max(s, abs(f))
    return max(s, 1e-300)


def is_pow2(n):
    return n > 0 and (n & (n - 1)) == 0


evaluations = 0
nontrivial = set()
samples = []
stats = dict(ambiguous_pixels_excluded=0, pixels_compared=0, pixels_filled=0, pixels_in_window=0,
             exact_runs=0, tolerance_runs=0)

# ---------------------------------------------------------------------------
# generation of frames and runs for the mean kernels (nearest / linear): model in coqc
# ---------------------------------------------------------------------------
FILLS = [0.0, float("nan"), -7.0]
MODES = ["fmc", "hmc", "fmc-perm", "hmc-perm", "subset", "subset-perm", "subset-pow2", "subset-pow2-perm"]



def load_corpus():
    """corpus/C02/*.json: minimised past failures / known findings, replayed first on every run."""
    import glob, json, os
    out = []
    for path in sorted(glob.glob("/verif/corpus/C02/*.json")):
        c = json.load(open(path))
        cplx = bool(c["cplx"])
        data = np.array([[complex(v[0], v[1]) for v in row] for row in c["data"]])
        P = len(c["ltx"]); nel = c["nel"]
        spec = dict(cplx=cplx, nel=nel, ns=c["ns"], dt=float(c["dt"]), t0=float(c["t0"]),
                    tx=np.ascontiguousarray(np.array(c["tx"], dtype=np.int64)), rx=np.ascontiguousarray(np.array(c["rx"], dtype=np.int64)),
                    data=np.ascontiguousarray(data if cplx else data.real.astype(np.float64)),
                    ltx=np.ascontiguousarray(np.array(c["ltx"], dtype=np.float64)), lrx=np.ascontiguousarray(np.array(c["lrx"], dtype=np.float64)),
                    atx=np.ones((P, nel)), arx=np.ones((P, nel)), w=np.ascontiguousarray(np.array(c["w"], dtype=np.float64)),
                    mode="corpus:" + c["name"], bits=(64, 64), klass="E", sweep=False)
        runs = []
        for r in c["runs"]:
            run = dict(kernel=int(r["kernel"]), a=int(r.get("a", 0)), tau=float(r.get("tau", 0.0)), fill=float(r["fill"]),
                       use_w=bool(r["use_w"]))
            if r.get("prealloc"):
                run["prealloc"] = np.dtype(r["prealloc"])
            runs.append(run)
        out.append((c["part"], spec, runs))
    return out


CORPUS = load_corpus()

def choose_runs(rng, spec, kernels, nruns):
    runs = []
    for _ in range(nruns):
        k = int(rng.choice(kernels))
        run = dict(kernel=k, fill=float(FILLS[int(rng.integers(0, 3))]), use_w=bool(rng.integers(0, 2)))
        if rng.random() < 0.3:
            # preallocated result (stale content 12345): same dtype as a fresh one, or complex128 (wider)
            run["prealloc"] = "same" if rng.random() < 0.7 else np.complex128
        runs.append(run)
    return runs


def result_dtype(spec, run):
    amp, _, _ = KNAME[run["kernel"]]
    arrs = [spec["data"] * spec["w"][:, None] if run["use_w"] else spec["data"]]
    if amp == "amp":
        arrs.append(spec["atx"].dtype)
    return np.result_type(*arrs)


def do_runs(spec, runs):
    global evaluations
    N = len(spec["tx"])
    for run in runs:
        if run.get("prealloc") == "same":
            run["prealloc"] = result_dtype(spec, run)
        run["impl"] = run_impl(spec, run)
        evaluations += 1
        amp, interp, aggr = KNAME[run["kernel"]]
        if spec["klass"] == "E":
            # exact, except that numba's fastmath compiles res_tmp / numtimetraces as a multiplication by
            # the reciprocal: one rounding when numtimetraces is not a power of two; and a binary32 result
            # array rounds the quotient once more
            ulp = 0.0
            if not is_pow2(N):
                ulp = 2.0 ** -51
                if run["impl"].dtype in (np.float32, np.complex64):
                    ulp = 2.0 ** -23
            mag = float(np.nanmax(np.abs(run["impl"]))) if np.any(np.isfinite(run["impl"])) else 0.0
            run["atol"] = ulp * mag
            stats["exact_runs" if ulp == 0.0 else "tolerance_runs"] += 1
        else:
            rel = 1e-11 if spec["bits"] == (64, 64) and run["impl"].dtype in (np.float64, np.complex128) else 1e-5
            run["atol"] = rel * scale_of(spec, run)
            stats["tolerance_runs"] += 1
        chk.count(kernel="/".join(KNAME[run["kernel"]]), fill=str(run["fill"]), weights=run["use_w"],
                  result="prealloc" if run.get("prealloc") else "fresh")


frames = []   # (spec, runs)


def add_frame(spec, kernels, nruns):
    runs = choose_runs(rng, spec, kernels, nruns)
    do_runs(spec, runs)
    frames.append((spec, runs))
    chk.count(klass=spec["klass"], frame=spec["mode"], data=("complex" if spec["cplx"] else "real") + str(spec["bits"][0]),
              lookup="float" + str(spec["bits"][1]), numtimetraces=len(spec["tx"]))


MEAN_COQ = [0, 1, 2, 3]
for part, spec, runs in CORPUS:
    if part == "mean":
        do_runs(spec, runs)
        frames.append((spec, runs))
        chk.count(klass="corpus", frame=spec["mode"], data="real64", lookup="float64", numtimetraces=len(spec["tx"]))
# sweeps: every quarter-sample position, all four kernels, all three fills
for cplx in (False, True):
    for nel, mode in ((1, "fmc"), (2, "fmc"), (2, "hmc-perm"), (3, "subset-pow2-perm")):
        ns = int(rng.integers(2, 9))
        spec = gen_exact(rng, cplx, nel, ns, 0, mode, sweep=True)
        runs = [dict(kernel=k, fill=f, use_w=bool((k + i) % 2)) for k in MEAN_COQ for i, f in enumerate(FILLS)]
        do_runs(spec, runs)
        frames.append((spec, runs))
        chk.count(klass="E-sweep", frame=mode, data=("complex" if cplx else "real") + "64", lookup="float64",
                  numtimetraces=len(spec["tx"]))
# boundary sizes: one sample, one timetrace, one pixel
for cplx in (False, True):
    for ns, nel in ((1, 1), (1, 2), (2, 1)):
        spec = gen_exact(rng, cplx, nel, ns, 1 if ns == 2 else 6, "fmc", sweep=(ns == 1))
        runs = [dict(kernel=k, fill=-7.0, use_w=False) for k in MEAN_COQ]
        do_runs(spec, runs)
        frames.append((spec, runs))
        chk.count(klass="E-boundary", frame="fmc", data=("complex" if cplx else "real") + "64", lookup="float64",
                  numtimetraces=len(spec["tx"]))

# whole focal laws just outside the recorded window (every lookup of every pixel beyond one end, within 5/4 of a sample)
for cplx in (False, True):
    for edge_ in ("late", "early"):
        for nel, mode in ((2, "fmc"), (3, "hmc-perm")):
            spec = gen_exact(rng, cplx, nel, int(rng.integers(2, 9)), int(rng.integers(2, 7)), mode, edge=edge_)
            runs = [dict(kernel=k, fill=f, use_w=bool((k + i) % 2)) for k in MEAN_COQ for i, f in enumerate(FILLS)]
            do_runs(spec, runs)
            frames.append((spec, runs))
            chk.count(klass="E-edge-" + edge_, frame=mode, data=("complex" if cplx else "real") + "64", lookup="float64",
                      numtimetraces=len(spec["tx"]))

n_exact = 120 if Q else 800
n_rand = 80 if Q else 600
# dtype variants cost one numba compilation per (kernel, signature): the quick tier draws two variants
# per seed, the thorough tier visits all of them
variants64 = [(64, 64)]
variants_all = [(64, 64), (32, 64), (64, 32), (32, 32)]
extra_variants = variants_all[1:] if not Q else [variants_all[1 + int(rng.integers(0, 3))]]
for i in range(n_exact + n_rand):
    exact = i < n_exact
    cplx = bool(rng.integers(0, 2))
    nel = int(rng.integers(1, 5))
    ns = int(rng.integers(1, 13)) if exact else int(rng.integers(2, 30))
    P = int(rng.integers(1, 9))
    mode = MODES[int(rng.integers(0, len(MODES)))]
    bits = (64, 64) if rng.random() < 0.7 else extra_variants[int(rng.integers(0, len(extra_variants)))]
    g = gen_exact if exact else gen_random
    spec = g(rng, cplx, nel, ns, P, mode, bits_data=bits[0], bits_lut=bits[1])
    add_frame(spec, MEAN_COQ, 3)

# ---- compare with the model inside coqc ---------------------------------------
lits, index = [], []
for fi, (spec, runs) in enumerate(frames):
    P = spec["ltx"].shape[0]
    if spec["klass"] == "E":
        groups = {"all": (list(range(P)), list(range(len(runs))))}
    else:
        groups = {}
        for ri, run in enumerate(runs):
            amb = ambiguous_pixels(spec, KNAME[run["kernel"]][1])
            stats["ambiguous_pixels_excluded"] += int(amb.sum())
            pix = [p for p in range(P) if not amb[p]]
            if pix:
                groups.setdefault(tuple(pix), (pix, []))[1].append(ri)
    for pix, ris in groups.values():
        sub = [runs[r] for r in ris]
        lits.append(case_literal(spec, sub, keep=[pix] * len(sub)))
        index.append((fi, ris, pix))
        stats["pixels_compared"] += len(pix) * len(sub)
    l = positions(spec)
    for p in range(P):
        key = (fi, p)
        inwin = int(np.sum((l[p] >= 0) & (l[p] < spec["ns"] - 1)))
        if 0 < inwin:
            nontrivial.add(key)
        stats["pixels_in_window" if inwin == l.shape[1] else "pixels_filled"] += 1

bad = chk.coq_failing("das_mean", IMPORTS, "fcase", lits, "f_check", shard=40 if Q else 60, jobs=8)


def report_mean(fi, ris, pix):
    """locate the failing run, shrink to one pixel and <= 2 timetraces, evaluate the spec."""
    spec, runs = frames[fi]
    out = chk.coq_values("das_diag", IMPORTS, [f"f_bad_runs {case_literal(spec, [runs[r] for r in ris], keep=[pix] * len(ris))}"])
    badruns = chk.parse_Z_list(out)
    badruns = badruns[0] if badruns else [0]
    for b in badruns[:1]:
        run = runs[ris[b]]
        rep = dict(kernel="/".join(KNAME[run["kernel"]]), fill=run["fill"], use_w=run["use_w"], klass=spec["klass"],
                   mode=spec["mode"], bits=spec["bits"], cplx=spec["cplx"], ns=spec["ns"], dt=float(spec["dt"]).hex(),
                   t0=float(spec["t0"]).hex(), tx=spec["tx"], rx=spec["rx"], data=spec["data"], ltx=spec["ltx"][pix],
                   lrx=spec["lrx"][pix], atx=spec["atx"][pix], arx=spec["arx"][pix], w=spec["w"],
                   positions=positions(spec)[pix], impl=run["impl"][pix], atol=run["atol"],
                   correspondence="Model.Das.das_amp/das_noamp (NumF, vm_compute) vs arim.im.das.delay_and_sum")
        found, shrunk = spec_search(spec, run, pix)
        rep["shrunk"] = shrunk
        chk.violation("das:" + "/".join(KNAME[run["kernel"]]),
                      f"delay_and_sum ({'/'.join(KNAME[run['kernel']])}, {spec['klass']}) differs from the model",
                      rep, failing_input_found=found)


def sub_spec(spec, pix, scans):
    s = dict(spec)
    s["tx"] = np.ascontiguousarray(spec["tx"][scans]); s["rx"] = np.ascontiguousarray(spec["rx"][scans])
    s["data"] = np.ascontiguousarray(spec["data"][scans]); s["w"] = np.ascontiguousarray(spec["w"][scans])
    for k in ("ltx", "lrx", "atx", "arx"):
        s[k] = np.ascontiguousarray(spec[k][pix])
    return s


def spec_search(spec, run, pix):
    """failing-input search: the SPEC (Model.Das.das_spec on binary64, vm_compute) is evaluated on the
    implementation's outputs for single pixels x (single timetraces, pairs of timetraces) of the divergent
    case and for the whole case; a candidate where the implementation is outside the spec is a failing
    input (already shrunk to one pixel and <= 2 timetraces when possible)."""
    N = len(spec["tx"])
    rel = 1e-9 if spec["bits"] == (64, 64) else 1e-4
    cands = []
    try:
        subsets = [[k] for k in range(N)] + [[j, k] for j in range(N) for k in range(j + 1, N)]
        for p in pix[:4]:
            for sc in subsets[:10]:
                s = sub_spec(spec, [p], sc)
                if spec["klass"] != "E" and ambiguous_pixels(s, KNAME[run["kernel"]][1])[0]:
                    continue
                r2 = dict(run); r2.pop("impl", None)
                r2["impl"] = run_impl(s, r2)
                r2["atol"] = rel * scale_of(s, r2)
                cands.append((s, r2))
        s = sub_spec(spec, pix, list(range(N)))
        r2 = dict(run); r2["impl"] = run_impl(s, r2); r2["atol"] = rel * scale_of(s, r2)
        cands.append((s, r2))
        lits_ = [case_literal(s, [r]) for s, r in cands]
        badc = chk.coq_failing("das_spec_search", IMPORTS, "fcase", lits_,
                               "(fun c => match f_spec_bad_runs c with nil => true | _ => false end)", shard=40, jobs=8)
        if badc:
            s, r = cands[badc[0]]
            return True, dict(tx=s["tx"], rx=s["rx"], data=s["data"], ltx=s["ltx"], lrx=s["lrx"], atx=s["atx"],
                              arx=s["arx"], w=s["w"], ns=s["ns"], dt=float(s["dt"]).hex(), t0=float(s["t0"]).hex(),
                              fill=r["fill"], use_w=r["use_w"], position=positions(s), impl=r["impl"],
                              predicate="das_spec (Model.Das, binary64, vm_compute) at this pixel")
    except Exception as exc:   # the search must never mask the violation itself
        return False, dict(search_error=repr(exc))
    return False, None


for b in bad[:2]:
    report_mean(*index[b])
if len(bad) > 2:
    chk.violation("das:more", f"{len(bad)} frames disagree with the model in total", {"frames": len(bad)},
                  failing_input_found=False)


# ---------------------------------------------------------------------------
# (L) Lanczos mean, median (nearest / Lanczos), Huber: extracted OCaml model (libm)
# ---------------------------------------------------------------------------
import arimgen                          # noqa: E402
from arimgen import fhex, unhex         # noqa: E402

drv = arimgen.Driver(chk.ocaml_driver("C02"))


def driver_line(spec, run, mode=0, pix=None, impl=None):
    P = spec["ltx"].shape[0]
    pix = list(range(P)) if pix is None else pix
    N = len(spec["tx"])
    t = [mode, run["kernel"], run.get("a", 0), int(run["use_w"]), spec["ns"], N, len(pix), spec["nel"]]
    t = [str(int(v)) for v in t]
    fill = run["fill"]
    t += [fhex(spec["dt"]), fhex(spec["t0"]), fhex(fill), fhex(0.0), fhex(run.get("tau", 0.0))]
    t += [fhex(v) for v in spec["w"]]
    for k in range(N):
        t += [str(int(spec["tx"][k])), str(int(spec["rx"][k]))]
        for re_, im_ in cplx_pairs(spec["data"][k]):
            t += [fhex(re_), fhex(im_)]
    for p in pix:
        t += [fhex(v) for v in spec["ltx"][p]] + [fhex(v) for v in spec["lrx"][p]]
        for arr in (spec["atx"][p], spec["arx"][p]):
            for re_, im_ in cplx_pairs(arr):
                t += [fhex(re_), fhex(im_)]
    impl = run["impl"] if impl is None else impl
    for p in pix:
        v = impl[p] if impl is not None else 0.0
        t += [fhex(np.real(v)), fhex(np.imag(v))]
    return " ".join(t)


def gen_inwindow(rng, nel, ns, P, mode, a):
    """complex128 frame whose lookups are inside the window, except those through one element on some pixels
    (a minority of bare fill values among the delayed samples)."""
    spec = gen_random(rng, True, nel, ns, P, mode)
    dt, t0 = spec["dt"], spec["t0"]
    half = rng.uniform(0.2, ns / 2 - 0.7, size=(2, P, nel))
    spec["ltx"] = np.ascontiguousarray(half[0] * dt + t0 * 0.25)
    spec["lrx"] = np.ascontiguousarray(half[1] * dt + t0 * 0.75)
    if nel >= 3:
        for p in range(P):
            if rng.random() < 0.4:
                spec["ltx"][p, int(rng.integers(0, nel))] += (ns + 3) * dt * (1 if rng.random() < 0.5 else -1)
    return spec


def exec_lruns(spec, runs, klass):
    global evaluations
    for run in runs:
        try:
            run["impl"] = run_impl(spec, run)
            run["impl_error"] = None
        except (Exception, SystemError) as exc:
            # the numba solvers raise "max iter reached" / "cannot find suitable alpha"; inside a prange kernel the
            # exception is lost when several threads run and propagates with a single one
            run["impl"] = np.full((spec["ltx"].shape[0],), np.nan, dtype=np.complex128)
            run["impl_error"] = repr(exc)
        evaluations += 1
        chk.count(kernel="/".join(KNAME[run["kernel"]]), fill=str(run["fill"]), weights=run["use_w"],
                  result="prealloc" if run.get("prealloc") is not None else "fresh")
    lframes.append((spec, runs))
    chk.count(klass=klass, frame=spec["mode"], data=("complex" if spec["cplx"] else "real") + str(spec["bits"][0]),
              lookup="float" + str(spec["bits"][1]), numtimetraces=len(spec["tx"]))


lframes = []
for part, spec, runs in CORPUS:
    if part == "robust":
        exec_lruns(spec, runs, "corpus")
nL = 60 if Q else 480
for i in range(nL):
    kind = ["lanczos", "lanczos-exact", "median-nearest", "median-lanczos", "huber-lanczos", "median-exact"][i % 6]
    a = int(rng.integers(1, 5))
    if kind == "lanczos":
        cplx = bool(rng.integers(0, 2))
        spec = gen_random(rng, cplx, int(rng.integers(1, 5)), int(rng.integers(2, 30)), int(rng.integers(1, 9)),
                          MODES[int(rng.integers(0, len(MODES)))])
        runs = [dict(kernel=4, a=a, fill=float(FILLS[int(rng.integers(0, 3))]), use_w=bool(rng.integers(0, 2)))]
    elif kind == "lanczos-exact":
        cplx = bool(rng.integers(0, 2))
        spec = gen_exact(rng, cplx, int(rng.integers(1, 4)), int(rng.integers(1, 9)), 0, "fmc", sweep=True)
        runs = [dict(kernel=4, a=a, fill=f, use_w=bool(rng.integers(0, 2))) for f in FILLS]
    elif kind == "median-exact":
        # quarter-sample positions (round half to even inside the median kernel); odd real parts and an odd fill
        # value keep every delayed sample away from geomed's start point (0, 0)
        spec = gen_exact(rng, True, int(rng.integers(2, 5)), int(rng.integers(3, 10)), int(rng.integers(2, 8)),
                         ["fmc", "hmc-perm", "fmc-perm"][int(rng.integers(0, 3))])
        spec["data"] = np.ascontiguousarray(2 * spec["data"].real + 1 + 1j * spec["data"].imag)
        runs = [dict(kernel=5, a=0, fill=-7.0, use_w=bool(rng.integers(0, 2)), tau=0.0)]
    else:
        nel = int(rng.integers(3, 6))
        ns = int(rng.integers(4, 24))
        mode = ["fmc", "hmc", "fmc-perm", "hmc-perm"][int(rng.integers(0, 4))]
        spec = gen_inwindow(rng, nel, ns, int(rng.integers(1, 7)), mode, a)
        k = {"median-nearest": 5, "median-lanczos": 6, "huber-lanczos": 7}[kind]
        runs = [dict(kernel=k, a=a, fill=float([0.0, -7.0][int(rng.integers(0, 2))]), use_w=bool(rng.integers(0, 2)),
                     tau=float(rng.uniform(0.5, 3.0)))]
        if rng.random() < 0.3:
            runs[0]["prealloc"] = np.complex128
        if kind == "huber-lanczos" and (i // 6) % 2 == 1:
            # tau just above the largest sample while the samples have a clear non-zero mean: every weight is 1 at the
            # start point 0 but NOT at the mean, so the estimator must keep iterating (boundary of the quadratic regime)
            # (a large common offset, the timetraces of one transmitter with inverted polarity)
            off = complex(rng.uniform(6.0, 12.0), rng.uniform(-3.0, 3.0)) * float(np.max(np.abs(spec["data"])))
            dnew = spec["data"] + off
            dnew[np.asarray(spec["tx"]) == int(np.asarray(spec["tx"])[0])] *= -1.0
            spec["data"] = np.ascontiguousarray(dnew)
            runs[0]["tau"] = float(rng.uniform(1.02, 1.12) * np.max(np.abs(spec["data"])))
            chk.count(huber_tau="just above max|sample|, non-zero mean")
    exec_lruns(spec, runs, "L-" + kind)

# TfmResult.res of the contact pipeline on HALF-MATRIX frames (default weights: 1 for pulse-echo, 2 otherwise) with the
# transmitter/receiver indices stored in any integer type that can hold them: the definition, evaluated directly here
for i_ in range(8 if Q else 60):
    nel_ = int(rng.choice([3, 8, 16, 17, 20, 24, 33]))
    idt_ = [np.int64, np.uint8, np.int8, np.uint16, np.int16, np.int32, np.uint32][i_ % 7]
    xs_ = (np.arange(nel_) - (nel_ - 1) / 2) * float(rng.uniform(0.4e-3, 0.9e-3))
    probe_ = arim.Probe(np.column_stack([xs_, np.zeros(nel_), np.zeros(nel_)]), 5e6)
    tx_, rx_ = arim.ut.hmc(nel_)
    if rng.random() < 0.5:
        keep_ = rng.permutation(len(tx_))[: int(rng.integers(max(2, len(tx_) // 2), len(tx_) + 1))]
        tx_, rx_ = tx_[keep_], rx_[keep_]
    time_ = arim.Time(0.0, 1 / 50e6, 1200)
    tt_ = rng.normal(size=(len(tx_), len(time_)))
    frame_ = arim.Frame(tt_, time_, tx_.astype(idt_), rx_.astype(idt_), probe_, None)
    grid_ = arim.Grid(-4e-3, 4e-3, 0.0, 0.0, 12e-3, 20e-3, 2e-3)
    vel_ = 6300.0
    got_ = np.asarray(tfm.contact_tfm(frame_, grid_, vel_, interpolation="linear").res)
    pts_ = grid_.to_1d_points().coords
    tau_ = np.linalg.norm(pts_[:, None, :] - probe_.locations.coords[None, :, :], axis=-1) / vel_
    pairs_ = set(zip(tx_.tolist(), rx_.tolist()))
    # default weights: 2 for a timetrace whose reciprocal is not in the frame, 1 otherwise (pulse-echo included)
    w_ = np.array([1.0 if (a == b or (b, a) in pairs_) else 2.0 for a, b in zip(tx_.tolist(), rx_.tolist())])
    loc_ = (tau_[:, tx_] + tau_[:, rx_] - time_.start) / time_.step
    left_ = np.floor(loc_).astype(int)
    assert np.all((left_ >= 0) & (left_ + 1 < len(time_)))
    fr_ = loc_ - left_
    k_ = np.arange(len(tx_))[None, :]
    want_ = (np.sum(w_[None, :] * ((1 - fr_) * tt_[k_, left_] + fr_ * tt_[k_, left_ + 1]), axis=1) / len(tx_)).reshape(grid_.shape)
    evaluations += 1
    chk.count(contact_hmc_index_dtype=np.dtype(idt_).name)
    if not np.allclose(got_, want_, rtol=0, atol=1e-9 * float(np.max(np.abs(want_)))):
        chk.violation("contact-hmc:index-dtype", f"contact_tfm on a half-matrix frame of {nel_} elements whose tx/rx are stored as "
                      f"{np.dtype(idt_).name} is not (1/N) sum weight * g_k(tau_tx + tau_rx) with the default weights",
                      dict(numelements=nel_, index_dtype=np.dtype(idt_).name, tx=tx_, rx=rx_, element_x=xs_, velocity=vel_,
                           time=[0.0, 1 / 50e6, 1200], weights_expected=w_, max_abs_deviation=float(np.max(np.abs(got_ - want_))),
                           timetraces="rng.normal, regenerated by seed and tier"), failing_input_found=True)
        break

# several Python threads image different frames of the same size at the same time (the kernels release the GIL: a thread pool
# over the frames of a scan is ordinary use): every image is the image of ITS OWN frame, bit for bit the sequential one
from concurrent.futures import ThreadPoolExecutor as _TPE  # noqa: E402
for i_ in range(2 if Q else 10):
    nel_c, ns_c, P_c = 8, 160, 6000
    specs_ = [gen_random(rng, bool(i_ % 2), nel_c, ns_c, P_c, "fmc") for _ in range(3)]
    for sp_ in specs_[1:]:        # same focal law geometry and time axis, other samples and weights
        for k_ in ("dt", "t0", "ltx", "lrx", "atx", "arx"):
            sp_[k_] = specs_[0][k_]
    use_amp_ = bool(i_ % 4 >= 2)
    interp_ = "linear" if i_ % 2 else "nearest"
    pairs_ = [build(sp_, use_amp_, True) for sp_ in specs_]
    seq_ = [np.asarray(das.delay_and_sum(fr_, fl_, fillvalue=0.0, interpolation=interp_)) for fr_, fl_ in pairs_]
    order_ = [int(k_) for k_ in rng.integers(0, len(pairs_), 24)]
    with _TPE(max_workers=4) as ex_:
        futs_ = [ex_.submit(das.delay_and_sum, pairs_[k_][0], pairs_[k_][1], fillvalue=0.0, interpolation=interp_) for k_ in order_]
        conc_ = [np.asarray(f_.result()) for f_ in futs_]
    evaluations += len(order_)
    chk.count(concurrent_calls=f"{interp_}{'+amplitudes' if use_amp_ else ''}, 4 threads, 3 frames of one size with weights")
    wrong_ = [j_ for j_, (k_, im_) in enumerate(zip(order_, conc_)) if not np.array_equal(im_, seq_[k_], equal_nan=True)]
    if wrong_:
        j_ = wrong_[0]
        chk.violation("das:concurrent-calls", f"delay_and_sum called from 4 Python threads at once on frames of the same size: {len(wrong_)} of {len(order_)} "
                      "images differ from the image of their own frame computed alone",
                      dict(interpolation=interp_, amplitudes=use_amp_, weights=True, numelements=nel_c, numsamples=ns_c, numpoints=P_c,
                           frame_of_first_wrong_image=order_[j_], max_abs_difference=float(np.nanmax(np.abs(conc_[j_] - seq_[order_[j_]]))),
                           predicate="each concurrent image == the same call made alone (bit for bit)", data="gen_random, seed and tier"), failing_input_found=True)
        break

# complex timetrace weights (a per-channel gain-and-phase calibration) on REAL samples: the image is linear in the weights,
# I(w_re + i w_im) = I(w_re) + i I(w_im), for every kernel of the mean family
for i_ in range(6 if Q else 60):
    spec_ = gen_random(rng, False, int(rng.integers(2, 5)), int(rng.integers(4, 30)), int(rng.integers(1, 8)), MODES[int(rng.integers(0, len(MODES)))])
    N_ = len(spec_["tx"])
    w_re, w_im = rng.uniform(0.5, 2.0, N_), rng.uniform(-1.0, 1.0, N_)
    use_amp_ = bool(rng.integers(0, 2))
    interp_ = [("nearest", 0), ("linear", 0), ("lanczos", 3)][int(rng.integers(0, 2 if use_amp_ else 3))]
    kw_ = dict(fillvalue=0.0, interpolation=interp_arg(*interp_))
    imgs_ = []
    for w_ in (w_re + 1j * w_im, w_re, w_im):
        frame_, fl_ = build(dict(spec_, w=w_), use_amp_, True)
        imgs_.append(np.asarray(das.delay_and_sum(frame_, fl_, **kw_)))
    evaluations += 3
    chk.count(complex_weights=interp_[0] + ("+amplitudes" if use_amp_ else ""))
    want_ = imgs_[1] + 1j * imgs_[2]
    sc_ = float(np.max(np.abs(want_))) or 1.0
    if imgs_[0].shape != want_.shape or not np.allclose(imgs_[0], want_, rtol=0, atol=1e-12 * sc_):
        chk.violation("das:complex-weights", "delay_and_sum with complex timetrace weights on real samples is not I(Re w) + i I(Im w)",
                      dict(interpolation=interp_[0], amplitudes=use_amp_, weights_re=w_re, weights_im=w_im, image=imgs_[0], expected=want_,
                           tx=spec_["tx"], rx=spec_["rx"], predicate="linearity in the timetrace weights"), failing_input_found=True)

llines, lindex = [], []
for fi, (spec, runs) in enumerate(lframes):
    for ri, run in enumerate(runs):
        llines.append(driver_line(spec, run))
        lindex.append((fi, ri))
louts = drv.run(llines)
stats.update(robust_pixels=0, robust_errors_agreed=0, robust_model_nan_impl_value_checked=0, robust_property_failures=0, lanczos_pixels=0, max_optimality_residual=0.0)
for (fi, ri), out in zip(lindex, louts):
    spec, run = lframes[fi][ri][0] if False else lframes[fi][0], lframes[fi][1][ri]
    P = spec["ltx"].shape[0]
    N = len(spec["tx"])
    toks = out.split()
    name = "/".join(KNAME[run["kernel"]])
    scale = scale_of(spec, run)
    rep = dict(kernel=name, a=run.get("a"), tau=run.get("tau"), fill=run["fill"], use_w=run["use_w"], ns=spec["ns"],
               dt=float(spec["dt"]).hex(), t0=float(spec["t0"]).hex(), tx=spec["tx"], rx=spec["rx"], data=spec["data"],
               ltx=spec["ltx"], lrx=spec["lrx"], w=spec["w"], positions=positions(spec), impl=run["impl"],
               impl_error=run["impl_error"], model_line=out,
               correspondence="extracted Model.Das / Model.Robust (OCaml floats, libm) vs arim.im.das.delay_and_sum")
    if run["kernel"] == 4:
        amb = ambiguous_pixels(spec, "lanczos") if spec["klass"] != "E" else np.zeros(P, dtype=bool)
        stats["ambiguous_pixels_excluded"] += int(amb.sum())
        vals = [complex(unhex(toks[2 * p]), unhex(toks[2 * p + 1])) for p in range(P)]
        tol = 1e-11 * scale * max(1, 2 * run["a"])
        for p in range(P):
            if amb[p]:
                continue
            stats["lanczos_pixels"] += 1
            nontrivial.add(("L", fi, p))
            m, v = vals[p], complex(run["impl"][p])
            nan_m = math.isnan(m.real) or math.isnan(m.imag); nan_v = math.isnan(v.real) or math.isnan(v.imag)
            ok = (nan_m and nan_v) if (nan_m or nan_v) else abs(m - v) <= tol
            if not ok:
                # failing-input search: the spec itself on this pixel
                sline = driver_line(spec, run, mode=1, pix=[p])
                so = drv.run([sline])[0].split()
                sv = complex(unhex(so[0]), unhex(so[1]))
                found = not (abs(sv - v) <= 1e3 * tol) if not (math.isnan(sv.real) or nan_v) else not (math.isnan(sv.real) and nan_v)
                chk.violation("das:" + name, f"delay_and_sum ({name}) differs from the model at pixel {p}",
                              dict(rep, pixel=p, model=m, impl_value=v, spec_value=sv, tol=tol), failing_input_found=found)
                break
    else:
        if toks == ["none"]:
            chk.violation("das:" + name, "the model rejects a request the implementation serves", rep, failing_input_found=False)
            continue
        model_fail_any = False
        collinear_any = False
        onsample_any = False
        filled = ~((positions(spec) >= 0) & (positions(spec) < spec["ns"]))     # statistics / classification only
        for p in range(P):
            mre, mim, pred, resid = toks[6 * p], toks[6 * p + 1], unhex(toks[6 * p + 2]), unhex(toks[6 * p + 3])
            collinear = toks[6 * p + 4] == "1"
            onsample = toks[6 * p + 5] == "1"
            collinear_any |= collinear
            onsample_any |= onsample
            model_fail = mre in ("maxiter", "noalpha") or math.isnan(unhex(mre))
            model_fail_any |= model_fail
            if run["impl_error"] is not None:
                continue
            v = complex(run["impl"][p])
            impl_fail = math.isnan(v.real) or math.isnan(v.imag)
            stats["robust_pixels"] += 1
            # the property itself on the implementation's value: Huber: |sum psi_tau(z - d_i)| ~ 0;
            # median: the objective cannot be decreased from z (convex objective)
            pred_ok = pred <= (1e-6 * N * scale if run["kernel"] == 7 else 1e-7 * N * scale)
            m = None if model_fail else complex(unhex(mre), unhex(mim))
            same = (m is not None) and (not impl_fail) and abs(m - v) <= 1e-7 * scale
            if not impl_fail and not pred_ok:
                if run["kernel"] != 7 and run["fill"] == 0.0 and filled[p].any() and model_fail:
                    key, what = "median:start-on-fill-value", (
                        f"{name}: fillvalue=0 and an out-of-window lookup: geomed starts ON the delayed sample (0,0) "
                        f"(0/0), the pixel is silently left unwritten (value {v}); not the geometric median "
                        f"(objective can be decreased by {pred:.3g})")
                elif run["kernel"] != 7 and model_fail and collinear:
                    key, what = "median:collinear-samples", (
                        f"{name}: pixel {p}: the delayed samples are collinear (e.g. every lookup out of window, or data with zero "
                        f"imaginary part): geomed's Hessian is singular (0/0); value {v} is not the geometric median "
                        f"(objective can be decreased by {pred:.3g})")
                elif run["kernel"] != 7 and onsample and not same:
                    key, what = "median:iterate-hits-sample", (
                        f"{name}: pixel {p}: the geometric median IS a delayed sample ({m}); geomed's iterates run into it (r -> 0, 0/0): "
                        f"the implementation gives {v} (objective can be decreased by {pred:.3g})")
                elif run["kernel"] != 7 and same:
                    key, what = "median:stalls-near-data-point", (
                        f"{name}: pixel {p}: geomed (implementation and model alike) stops at {v}, where the objective "
                        f"sum|z-d_i| can still be decreased by {pred:.3g} (optimality residual {resid:.3g})")
                elif run["kernel"] == 7 and mre == "maxiter":
                    key, what = "huber:max-iter-reached", (
                        f"{name}: pixel {p}: the Huber fixed-point iteration (implementation and model alike) does not reach xtol within "
                        f"maxiter=600 iterations on these delayed samples (tau = {run.get('tau')}): huber_m_estimate raises, the exception is "
                        f"lost inside the prange kernel and the pixel is left unwritten (value {v}); sum psi_tau = {pred:.3g}")
                else:
                    key, what = "das:" + name, (
                        f"{name}: pixel {p}: value {v} is not the geometric median / Huber location of the delayed "
                        f"samples (predicate {pred:.3g}, model {m})")
                stats["robust_property_failures"] += 1
                chk.violation(key, what,
                              dict(rep, pixel=p, model=m, impl_value=v, objective_decrease_or_psi=pred, optimality_residual=resid,
                                   predicate="median: sum_i |z - d_i| cannot be decreased from z; Huber: sum_i psi_tau(z - d_i) = 0 "
                                             "(evaluated with the extracted model on the delayed samples)"),
                              failing_input_found=True)
                continue
            if model_fail and not impl_fail:
                # IEEE evaluation of the model hits 0/0 (an iterate on a data point); under fastmath the
                # implementation's behaviour is then not described by the model: only the property was checked
                stats["robust_model_nan_impl_value_checked"] += 1
                continue
            if model_fail or impl_fail:
                if model_fail != impl_fail:
                    chk.violation("das:" + name, f"{name}: solver failure on the implementation's side only (pixel {p})",
                                  dict(rep, pixel=p), failing_input_found=False)
                    break
                stats["robust_errors_agreed"] += 1
                continue
            nontrivial.add(("R", fi, p))
            stats["max_optimality_residual"] = max(stats["max_optimality_residual"], pred / (N * scale))
            if not same:
                chk.violation("das:" + name, f"{name}: pixel {p}: implementation {v}, model {m}",
                              dict(rep, pixel=p, model=m, impl_value=v), failing_input_found=False)
                break
        if run["impl_error"] is not None:
            if run["kernel"] != 7 and run["fill"] == 0.0 and filled.any() and model_fail_any:
                # same defect as "pixel left unwritten": with a single numba thread the lost exception propagates
                stats["robust_property_failures"] += 1
                chk.violation("median:start-on-fill-value",
                              f"{name}: fillvalue=0 and an out-of-window lookup: geomed starts ON the delayed sample (0,0) (0/0); "
                              f"the call raised {run['impl_error']} instead of returning the geometric median",
                              rep, failing_input_found=True)
            elif run["kernel"] != 7 and collinear_any and model_fail_any:
                stats["robust_property_failures"] += 1
                chk.violation("median:collinear-samples",
                              f"{name}: collinear delayed samples at some pixel: geomed's Hessian is singular (0/0); the call raised "
                              f"{run['impl_error']} instead of returning the geometric median", rep, failing_input_found=True)
            elif run["kernel"] != 7 and onsample_any:
                stats["robust_property_failures"] += 1
                chk.violation("median:iterate-hits-sample",
                              f"{name}: at some pixel the geometric median IS a delayed sample; geomed's iterates run into it (0/0) and the call "
                              f"raised {run['impl_error']} (the model's IEEE evaluation converges)", rep, failing_input_found=True)
            elif model_fail_any:
                stats["robust_errors_agreed"] += 1
            else:
                chk.violation("das:" + name, f"{name}: the implementation raised {run['impl_error']}, the model converges",
                              rep, failing_input_found=False)

# ---------------------------------------------------------------------------
# (M) theorems evaluated directly on the implementation (dyadic-exact frames with a power-of-two number
# of timetraces: every comparison below is exact; Lanczos at 1e-11):
#   das_permutation, das_unit_amp, das_linear_in_data
# ---------------------------------------------------------------------------
def same_image(a, b, tol):
    a = np.asarray(a, dtype=np.complex128); b = np.asarray(b, dtype=np.complex128)
    na = np.isnan(a.real) | np.isnan(a.imag); nb = np.isnan(b.real) | np.isnan(b.imag)
    if not np.array_equal(na, nb):
        return False
    return bool(np.all(np.abs(a[~na] - b[~na]) <= tol))


stats["metamorphic"] = 0
for i in range(15 if Q else 150):
    cplx = bool(rng.integers(0, 2))
    nel = int(rng.integers(2, 5))
    spec = gen_exact(rng, cplx, nel, int(rng.integers(2, 10)), int(rng.integers(2, 8)), "subset-pow2")
    N = len(spec["tx"]); P = spec["ltx"].shape[0]
    k = int(rng.choice([0, 1, 2, 3, 4]))
    run = dict(kernel=k, a=int(rng.integers(1, 4)), fill=float(FILLS[int(rng.integers(0, 3))]), use_w=bool(rng.integers(0, 2)))
    tol = 0.0 if k != 4 else 1e-11 * scale_of(spec, run) * 8
    base = run_impl(spec, run)
    rep = dict(kernel="/".join(KNAME[k]), a=run["a"], fill=run["fill"], use_w=run["use_w"], ns=spec["ns"], dt=float(spec["dt"]).hex(),
               t0=float(spec["t0"]).hex(), tx=spec["tx"], rx=spec["rx"], data=spec["data"], ltx=spec["ltx"], lrx=spec["lrx"],
               atx=spec["atx"], arx=spec["arx"], w=spec["w"], image=base)
    # das_permutation: reorder the timetraces (and their weights)
    perm = rng.permutation(N)
    s2 = sub_spec(spec, list(range(P)), perm)
    img2 = run_impl(s2, run)
    evaluations += 2; stats["metamorphic"] += 1
    if not same_image(base, img2, tol):
        chk.violation("theorem:das_permutation:" + "/".join(KNAME[k]), "the image changes when the timetraces are reordered",
                      dict(rep, permutation=perm, image_permuted=img2, predicate="theorem das_permutation on the implementation"),
                      failing_input_found=True)
    # das_unit_amp: amplitudes identically one = no amplitudes
    if k in (0, 1):
        s3 = dict(spec); s3["atx"] = np.ones_like(spec["atx"]); s3["arx"] = np.ones_like(spec["arx"])
        img_amp = run_impl(s3, run)
        img_no = run_impl(s3, dict(run, kernel=k + 2))
        evaluations += 2; stats["metamorphic"] += 1
        if not same_image(img_amp, img_no, 0.0):
            chk.violation("theorem:das_unit_amp:" + KNAME[k][1], "unit amplitudes do not give the image of the no-amplitude kernel",
                          dict(rep, image_amp=img_amp, image_noamp=img_no, predicate="theorem das_unit_amp on the implementation"),
                          failing_input_found=True)
    # das_linear_in_data (fill = 0): image(2 X + Y) = 2 image(X) + image(Y)
    sy = dict(spec)
    ydata = rng.integers(-8, 9, size=spec["data"].shape) + (1j * rng.integers(-8, 9, size=spec["data"].shape) if cplx else 0)
    sy["data"] = np.ascontiguousarray(ydata.astype(spec["data"].dtype))
    sc = dict(spec); sc["data"] = np.ascontiguousarray(2 * spec["data"] + sy["data"])
    r0 = dict(run, fill=0.0)
    ix, iy, ic = run_impl(spec, r0), run_impl(sy, r0), run_impl(sc, r0)
    evaluations += 3; stats["metamorphic"] += 1
    if not same_image(ic, 2 * ix + iy, 3 * tol):
        chk.violation("theorem:das_linear_in_data:" + "/".join(KNAME[k]), "the image is not linear in the data (fill = 0)",
                      dict(rep, ydata=sy["data"], image_x=ix, image_y=iy, image_2x_plus_y=ic,
                           predicate="theorem das_linear_in_data on the implementation"), failing_input_found=True)

# ---- the OCaml driver itself is cross-checked: on a shard of the mean-kernel frames (already compared with the
# model inside coqc) the extracted model must give the implementation's image as well
xl, xi = [], []
for fi, (spec, runs) in enumerate(frames[: (40 if Q else 200)]):
    for ri, run in enumerate(runs[:2]):
        xl.append(driver_line(spec, run)); xi.append((fi, ri))
for (fi, ri), out in zip(xi, drv.run(xl)):
    spec, run = frames[fi][0], frames[fi][1][ri]
    toks = out.split()
    P = spec["ltx"].shape[0]
    amb = ambiguous_pixels(spec, KNAME[run["kernel"]][1]) if spec["klass"] != "E" else np.zeros(P, dtype=bool)
    vals = np.array([complex(unhex(toks[2 * p]), unhex(toks[2 * p + 1])) for p in range(P)])
    keep = ~amb
    if not spec["cplx"]:
        vals = vals.real + 0j
    if not same_image(vals[keep], np.asarray(run["impl"])[keep], run["atol"]):
        chk.violation("driver-crosscheck", "the implementation's image of a mean-kernel frame differs from the extracted OCaml model (driver cross-check: on the unchanged tree this model, the vm_compute model and the implementation agree)",
                      dict(kernel="/".join(KNAME[run["kernel"]]), model_ocaml=vals, impl=run["impl"],
                           correspondence="ocaml/C02/driver.exe vs coqc vm_compute (both from Model/Das.v)"),
                      failing_input_found=False)
stats["driver_crosscheck_runs"] = len(xl)

# ---------------------------------------------------------------------------
# (X) the dispatcher against the decision table of the model, whole finite domain.
# The numba kernels are replaced (inside this process) by recorders that bind their
# arguments to the real kernel's Python signature, so no compilation is needed.
# ---------------------------------------------------------------------------
import inspect   # noqa: E402

KFUNCS = {"_delay_and_sum_amplitudes_nearest": 0, "_delay_and_sum_amplitudes_linear": 1, "_delay_and_sum_noamp": 2,
          "_delay_and_sum_noamp_linear": 3, "_delay_and_sum_noamp_lanczos": 4, "_delay_and_sum_noamp_median_nearest": 5,
          "_delay_and_sum_noamp_median_lanczos": 6, "_delay_and_sum_noamp_huber_lanczos": 7}
called = []
originals = {}
for fname, code in KFUNCS.items():
    orig = getattr(das, fname)
    originals[fname] = orig
    sig = inspect.signature(orig.py_func)

    def recorder(*args, _sig=sig, _code=code):
        _sig.bind(*args)          # TypeError on a wrong number of positional arguments, as numba does
        called.append(_code)
    setattr(das, fname, recorder)

INAMES = ["nearest", "linear", "lanczos", "cubic"]
ANAMES = ["mean", "median", "huber", "max"]


def spell(names, tup, n, k, arg):
    return (names[n],) + (arg,) * k if tup else names[n]


def err_code(exc):
    if isinstance(exc, das.NotImplementedTyping):
        return 101
    for cls, c in ((NotImplementedError, 100), (ValueError, 102), (AttributeError, 103), (AssertionError, 104),
                   (UnboundLocalError, 105), (TypeError, 106)):
        if isinstance(exc, cls):
            return c
    return 199


dcases, dmeta = [], []
try:
    dspecs = {}
    for d, dd in ((0, np.float64), (1, np.complex64), (2, np.complex128)):
        sp = gen_exact(rng, dd != np.float64, 2, 4, 2, "fmc")
        sp["data"] = np.ascontiguousarray(sp["data"].astype(dd))
        dspecs[d] = sp
    interp_forms = [(False, n, 0) for n in range(4)] + [(True, n, k) for n in range(4) for k in range(3)]
    aggr_forms = [(False, n, 0) for n in range(4)] + [(True, n, k) for n in range(4) for k in range(3)]
    for am in range(3):
        for (it, inn, ik) in interp_forms:
            for (at, an, ak) in aggr_forms:
                for d in range(3):
                    sp = dspecs[d]
                    frame, fl = build(sp, am == 0, False)
                    if am == 2:
                        fl = tfm.FocalLaw(sp["ltx"], sp["lrx"], np.ones((sp["ltx"].shape[0], sp["nel"])), None)
                    called.clear()
                    try:
                        das.delay_and_sum(frame, fl, fillvalue=0.0, interpolation=spell(INAMES, it, inn, ik, 3),
                                          aggregation=spell(ANAMES, at, an, ak, 1.5))
                        code = called[0] if len(called) == 1 else 198
                    except Exception as exc:
                        code = err_code(exc)
                    evaluations += 1
                    dcases.append(cpair(cpair(cpair(cZ(am), cpair(cbool(it), cpair(cZ(inn), cZ(ik)))),
                                              cpair(cbool(at), cpair(cZ(an), cZ(ak)))), cpair(cZ(d), cZ(code))))
                    dmeta.append(dict(amplitudes=["TxRxAmplitudes", "None", "ndarray"][am],
                                      interpolation=repr(spell(INAMES, it, inn, ik, 3)),
                                      aggregation=repr(spell(ANAMES, at, an, ak, 1.5)),
                                      dtype_data=["float64", "complex64", "complex128"][d], implementation=code))
                    chk.count(dispatch_outcome=code)
finally:
    for fname, orig in originals.items():
        setattr(das, fname, orig)

dcheck = ("(fun c => match c with (am, (it, (inn, ik)), (at_, (an, ak)), (d, code)) => "
          "Z.eqb (outcome_code (dispatch (amp_of_Z am) (interp_of_Z it inn ik) (aggr_of_Z at_ an ak) (dtype_of_Z d))) code end)")
dbad = chk.coq_failing("das_dispatch", IMPORTS, "Z * (bool * (Z * Z)) * (bool * (Z * Z)) * (Z * Z)", dcases, dcheck,
                       shard=600, jobs=4)
for b in dbad[:5]:
    m = dmeta[b]
    # spec predicate: a canonical accepted request must be served by the kernel it names
    chk.violation("dispatch:" + m["amplitudes"] + ":" + m["interpolation"] + ":" + m["aggregation"],
                  f"delay_and_sum dispatch differs from the decision table: {m}",
                  dict(m, correspondence="Model.Das.dispatch (vm_compute) vs arim.im.das.delay_and_sum with recording kernels",
                       codes="0..7 kernel; 100 NotImplementedError 101 NotImplementedTyping 102 ValueError 103 AttributeError "
                             "104 AssertionError 105 UnboundLocalError 106 TypeError (argument count)"),
                  failing_input_found=m["implementation"] < 100)
stats["dispatch_requests"] = len(dcases)

for spec, runs in frames[:: max(1, len(frames) // 3)][:3]:
    r = runs[0]
    samples.append(dict(kernel="/".join(KNAME[r["kernel"]]), klass=spec["klass"], frame=spec["mode"], ns=spec["ns"],
                        numtimetraces=len(spec["tx"]), positions_pixel0=positions(spec)[0].tolist()[:6],
                        fill=r["fill"], impl_pixel0=complex(r["impl"][0])))

# ---- the glue model of the public functions (Model files added later, see manifest text) tied to the library on every run:
#      inputs generated here, the library run on them, the model evaluated on the same inputs by vm_compute inside coqc
import ties.tie_C02 as _tie_glue  # noqa: E402
_tie_n = _tie_glue.run(chk, arim, rng, Q)
chk.cov["glue_model_tie_comparisons"] = int(_tie_n or 0)

chk.finish(
    evaluations=evaluations,
    distinct_nontrivial=len(nontrivial),
    rule=("one evaluation = one call of arim.im.das.delay_and_sum on a generated Frame/FocalLaw; one distinct "
          "non-trivial case = one (frame, pixel) with at least one lookup inside the window"),
    samples=samples,
    extra=dict(stats=stats, frames=len(frames)),
    assumptions=["rounding: theorems hold in exact arithmetic; class E compares bit-exactly on dyadic-exact inputs, "
                 "class T at 1e-11 (float32: 1e-5) of the operand scale"],
)
