"""C01 — Ray tracing returns the globally fastest discrete ray (Fermat).

Proof side : Props/C01.v — the min-plus kernel with strict `<` returns the least
             minimiser (minplus_spec / minplus_first / minplus_tile); the recursive
             solver's times are <= the left-nested cost of EVERY index tuple and equal
             to the cost of the reported tuple (solve_optimal / solve_realised) over an
             abstract ordered cost type; reversal, grouping (shared caches), bounds.
Tie        : real arim.ray.FermatSolver(...).solve() / ray_tracing_for_paths (C and F
             order, float64 / float32) on generated point clouds against
             (a) the Coq model (Model/Fermat.v, NumF instance, vm_compute inside coqc):
                 `times` bit-exact on dyadic-exact clouds, 1e-12 relative on random
                 clouds (1e-5 for float32); `indices` are NOT compared with the model's
                 argmin — they must satisfy solve_realised on the implementation's own
                 times (evaluated by the Coq function `cost`);
             (b) the spec predicates evaluated directly in numpy on the implementation's
                 outputs: brute force over all tuples == times, reported tuples realise
                 times, reversed path == transposed times, grouped == alone.
"""
import itertools
import sys

import numpy as np

from common import Check, cZ, cfloat, clist, cpair

chk = Check("C01", design_ref="DESIGN.md §5 C01")
chk.proofs(extra_trusted=[
    "harness/prop_C01.py: generators, numpy brute-force spec predicates (same left-nested float sums)",
    "instance gap: theorems are over an abstract total preorder with monotone add (IEEE non-NaN doubles satisfy the laws); "
    "reversal needs associativity/commutativity, which floats do not have: compared within 1e-12 on random clouds",
    "not modelled: dtype casts, memory order (only values are compared), thread pool (C13), gone_through_extreme_points warnings",
])
arim = chk.import_arim()
import logging  # noqa: E402
import arim.ray as ray  # noqa: E402
logging.getLogger("arim.ray").setLevel(logging.ERROR)
logging.getLogger("arim").setLevel(logging.ERROR)
import gc  # noqa: E402
# FermatSolver calls gc.collect() twice per solve (54 ms each with numba's heap loaded): move the
# objects that exist now to the permanent generation so that those collections are cheap.
gc.collect(); gc.freeze()
import arim.geometry as g  # noqa: E402

rng = chk.rng
Q = chk.tier == "quick"
evaluations = 0
nontrivial = set()
samples = []
MAXPROD = 100000

# --------------------------------------------------------------------------
# generators: a "cloud" is a dict id -> (k, 3) float64 array; a path literal is
# (id0, [(v0, id1), (v1, id2), ...]); a group is a list of path literals.
# --------------------------------------------------------------------------
PYTH3 = [(0, 0), (5, 0), (-5, 0), (0, 5), (0, -5), (3, 4), (-3, 4), (3, -4), (-3, -4), (4, 3), (-4, 3), (4, -3),
         (-4, -3), (9, 0), (-9, 0), (0, 9), (0, -9), (16, 0), (-16, 0), (0, 16), (0, -16), (35, 0), (-35, 0),
         (9, 20), (-9, 20), (20, 9), (20, -9), (16, 21), (-16, -21), (21, 16), (3.5, 0), (-3.5, 0), (0, 3.5),
         (22.5, 0), (0, -22.5)]      # (x, y) with x^2 + y^2 + 12^2 a perfect (dyadic) square
PYTH2 = [xy for xy in PYTH3 if xy[1] == 0]
POW2 = [0.25, 0.5, 1.0, 2.0, 4.0, 8.0]


def exact_dist(a, b):
    """True when sqrt(dx^2+dy^2+dz^2) is exactly representable (dyadic-exact leg)."""
    from fractions import Fraction
    s = sum((Fraction(float(x)) - Fraction(float(y))) ** 2 for x, y in zip(a, b))
    r = Fraction(float(np.sqrt(float(s))))
    return r * r == s


def size_draw(maxsize):
    r = rng.random()
    if r < 0.15:
        return 1
    if r < 0.3:
        return 2
    return int(rng.integers(1, maxsize + 1))


def gen_sets_dyadic(kind, nsets, dim, maxsize, sizes=None):
    sets = []
    draw = (lambda s, mx: int(sizes[s])) if sizes is not None else (lambda s, mx: size_draw(mx))
    if kind == "line":
        axis = int(rng.integers(0, 3)) if dim == 3 else int(rng.choice([0, 2]))
        const = rng.integers(-8, 9, size=3) * 0.5
        if dim == 2:
            const[1] = 0.0
        for s in range(nsets):
            k = draw(s, maxsize)
            c = np.tile(const, (k, 1)).astype(float)
            c[:, axis] = rng.integers(-24, 25, size=k) * float(rng.choice([0.25, 0.5, 1.0]))
            sets.append(c)
    elif kind == "diamond":
        scale = float(rng.choice([0.5, 1.0, 2.0]))
        off = rng.integers(-4, 5, size=3).astype(float)
        if dim == 2:
            off[1] = 0.0
        start_single = bool(rng.integers(0, 2))
        for s in range(nsets):
            single = (s % 2 == 0) == start_single
            if single:
                k = draw(s, 3)         # coincident copies of the axis point
                c = np.zeros((k, 3))
                c[:, 2] = 12.0 * s
            else:
                k = draw(s, maxsize)
                pool = PYTH3 if dim == 3 else PYTH2
                pick = rng.integers(0, len(pool), size=k)
                c = np.array([[pool[i][0], pool[i][1], 12.0 * s] for i in pick], dtype=float)
            sets.append(c * scale + off)
    else:  # "reject": integer lattice, accept a point when all distances to the previous set are exact
        prev = None
        for s in range(nsets):
            k = size_draw(min(maxsize, 4))
            pts = []
            tries = 0
            while len(pts) < k and tries < 4000:
                tries += 1
                if prev is not None and rng.random() < 0.7:
                    base = prev[int(rng.integers(0, len(prev)))]
                    o = PYTH3[int(rng.integers(0, len(PYTH3)))] if dim == 3 else PYTH2[int(rng.integers(0, len(PYTH2)))]
                    perm = rng.permutation(3) if dim == 3 else np.array([0, 1, 2])
                    v = np.zeros(3)
                    v[perm[0]], v[perm[1]], v[perm[2]] = o[0], o[1], 12.0 * float(rng.choice([-1, 1]))
                    if dim == 2:
                        v = np.array([o[0], 0.0, 12.0 * float(rng.choice([-1, 1]))])
                        if rng.random() < 0.5:
                            v = v[[2, 1, 0]]
                    cand = base + v
                else:
                    cand = rng.integers(-6, 7, size=3).astype(float)
                    if dim == 2:
                        cand[1] = 0.0
                if prev is None or all(exact_dist(cand, q) for q in prev):
                    pts.append(cand)
            if not pts:
                pts = [prev[0].copy()]    # coincident with a point of the previous set (exactness re-checked by the caller)
            while len(pts) < k:
                pts.append(pts[int(rng.integers(0, len(pts)))].copy())   # coincident duplicates
            prev = np.array(pts, dtype=float)
            sets.append(prev)
    return sets


def gen_sets_random(nsets, dim, maxsize, sizes=None):
    sets = []
    for s in range(nsets):
        k = int(sizes[s]) if sizes is not None else size_draw(maxsize)
        c = rng.uniform(-30e-3, 30e-3, size=(k, 3))
        c[:, 2] += 15e-3 * s
        if dim == 2:
            c[:, 1] = 0.0
        if k >= 2 and rng.random() < 0.2:
            c[int(rng.integers(0, k))] = c[int(rng.integers(0, k))]     # coincident points
        sets.append(c)
    return sets


def prodsize(cloud, lit):
    n = len(cloud[lit[0]])
    for _, i in lit[1]:
        n *= len(cloud[i])
    return n


def gen_group(dyadic, maxsize, maxlegs=4, sizes=None):
    """Returns (cloud, [path literals], exact flag, description)."""
    dim = int(rng.choice([2, 3]))
    nlegs = int(rng.integers(1, maxlegs + 1)) if sizes is None else len(sizes) - 1
    kind = str(rng.choice(["line", "diamond", "reject"] if sizes is None else ["line", "diamond"])) if dyadic else "random"
    # keep the brute-force search space bounded
    for _ in range(50):
        sets = (gen_sets_dyadic(kind, nlegs + 1, dim, maxsize, sizes) if dyadic
                else gen_sets_random(nlegs + 1, dim, maxsize, sizes))
        if sizes is not None:
            break
        if np.prod([len(s) for s in sets], dtype=float) <= MAXPROD:
            break
        maxsize = max(1, maxsize // 2)
    cloud = {i: s for i, s in enumerate(sets)}
    pos = {i: i for i in cloud}           # position in the chain (clones share their original's position)

    def vel():
        return float(rng.choice(POW2)) if dyadic else float(rng.uniform(500.0, 7000.0))
    base_v = [vel() for _ in range(nlegs)]
    base = (0, [(base_v[k], k + 1) for k in range(nlegs)])
    group = [base]
    npaths = int(rng.integers(1, 7))
    kinds_used = ["base"]
    for _ in range(npaths - 1):
        r = rng.random()
        if r < 0.2:       # reversed duplicate
            src = group[int(rng.integers(0, len(group)))]
            group.append(lit_reverse(src)); kinds_used.append("reversed")
        elif r < 0.35:    # exact duplicate (equal dict key)
            group.append(group[int(rng.integers(0, len(group)))]); kinds_used.append("duplicate")
        elif r < 0.6:     # shared prefix, other tail
            src = group[int(rng.integers(0, len(group)))]
            cut = int(rng.integers(0, len(src[1]) + 1))
            legs = list(src[1][:cut])
            last = src[0] if not legs else legs[-1][1]
            extra = int(rng.integers(0 if legs else 1, 3))
            for _e in range(extra):
                if len(legs) >= maxlegs:
                    break
                # next set: a neighbour in the chain (distances between neighbours are exact on dyadic clouds)
                nxt = [i for i in cloud if abs(pos[i] - pos[last]) == 1]
                if (dyadic and kind == "line") or not dyadic:
                    nxt = list(cloud)
                last = int(rng.choice(nxt))
                legs.append((vel() if rng.random() < 0.5 else base_v[min(len(legs), nlegs - 1)], last))
            if legs:
                group.append((src[0], legs)); kinds_used.append("prefix")
        elif r < 0.75:    # same geometry, one velocity changed
            src = group[int(rng.integers(0, len(group)))]
            legs = list(src[1])
            k = int(rng.integers(0, len(legs)))
            legs[k] = (vel(), legs[k][1])
            group.append((src[0], legs)); kinds_used.append("velocity")
        elif r < 0.9:     # a sub-path (prefix) that another path will find in / put into the cache
            src = group[int(rng.integers(0, len(group)))]
            cut = int(rng.integers(1, len(src[1]) + 1))
            group.append((src[0], list(src[1][:cut]))); kinds_used.append("subpath")
        else:             # a distinct Points object with the same coordinates (different key, same times)
            src = group[int(rng.integers(0, len(group)))]
            legs = list(src[1])
            k = int(rng.integers(0, len(legs)))
            new_id = max(cloud) + 1
            cloud[new_id] = cloud[legs[k][1]].copy()
            pos[new_id] = pos[legs[k][1]]
            legs[k] = (legs[k][0], new_id)
            group.append((src[0], legs)); kinds_used.append("clone")
    group = [p for p in group if prodsize(cloud, p) <= MAXPROD]
    if dyadic:
        # the exact comparison class is MEASURED, not assumed: every leg distance used must be exactly representable
        pairs = set()
        for lit in group:
            ids = [lit[0]] + [i for _, i in lit[1]]
            pairs |= {(min(a, b), max(a, b)) for a, b in zip(ids, ids[1:])}
        dyadic = all(exact_dist(x, y) for a, b in pairs for x in cloud[a] for y in cloud[b])
        if not dyadic:
            kind = kind + "-inexact"
    order = rng.permutation(len(group))
    group = [group[i] for i in order]
    return cloud, group, dyadic, dict(kind=kind, dim=dim, nlegs=nlegs, variants=[kinds_used[i] for i in order])


def lit_reverse(lit):
    ids = [lit[0]] + [i for _, i in lit[1]]
    vs = [v for v, _ in lit[1]]
    ids, vs = ids[::-1], vs[::-1]
    return (ids[0], [(vs[k], ids[k + 1]) for k in range(len(vs))])


# --------------------------------------------------------------------------
# implementation side
# --------------------------------------------------------------------------
def make_points(cloud):
    # (integer-typed clouds -- coordinates in whole grid units -- are handed over as they are)
    return {i: g.Points(np.array(c, dtype=None if np.asarray(c).dtype.kind in "iu" else float).reshape(-1, 3), f"S{i}")
            for i, c in cloud.items()}


def make_fpath(pts, lit):
    seq = [pts[lit[0]]]
    for v, i in lit[1]:
        # a velocity whose value is a whole number may be written with an integer type (1480, np.int64(5900)): same number
        # (a numpy integer scalar promotes float32 times to float64 -- values unchanged --, so that spelling is kept for
        #  the default float64 solver, where the dtype of the answer is also checked)
        if float(v).is_integer() and _vel_spelling[0] % 3 != 0:
            v = int(v) if (_vel_spelling[0] % 3 == 1 or not _vel_spelling[1]) else np.int64(int(v))
        _vel_spelling[0] += 1
        seq += [v, pts[i]]
    return ray.FermatPath(tuple(seq))


_vel_spelling = [0, True]


def impl_solve(cloud, group, dtype=None, as_set=False, np_scalar_velocities=False):
    pts = make_points(cloud)
    _vel_spelling[1] = dtype is None
    fps = [make_fpath(pts, lit) for lit in group]
    _vel_spelling[1] = True
    if np_scalar_velocities:
        # velocities taken out of a NumPy array (np.float64 scalars): the same numbers
        fps = [ray.FermatPath(tuple(np.float64(x) if k % 2 == 1 else x for k, x in enumerate(fp))) for fp in fps]
    arg = set(fps) if as_set else tuple(fps)
    kw = {} if dtype is None else {"dtype": dtype}
    res = ray.FermatSolver(arg, **kw).solve()
    return [res[fp] for fp in fps]


def make_arim_paths(cloud, group):
    """The same group as arim.Path objects (interfaces + materials), for ray_tracing_for_paths."""
    pts = make_points(cloud)
    ifaces = {i: arim.Interface(p, g.default_orientations(p)) for i, p in pts.items()}
    mats = {}
    paths = []
    for lit in group:
        inter = [ifaces[lit[0]]] + [ifaces[i] for _, i in lit[1]]
        ms, modes = [], []
        for v, _ in lit[1]:
            if rng.random() < 0.5:
                m = mats.setdefault(("L", v), arim.Material(longitudinal_vel=v, transverse_vel=v / 2, density=1000.0,
                                                            state_of_matter="solid"))
                ms.append(m); modes.append("L")
            else:
                m = mats.setdefault(("T", v), arim.Material(longitudinal_vel=2 * v, transverse_vel=v, density=1000.0,
                                                            state_of_matter="solid"))
                ms.append(m); modes.append("T")
        paths.append(arim.Path(tuple(inter), tuple(ms), tuple(modes), name="p"))
    return paths


# --------------------------------------------------------------------------
# spec predicates in numpy (the same float operations in the same association)
# --------------------------------------------------------------------------
def leg_formula(cloud, a, v, b, dtype=np.float64):
    A, B = np.asarray(cloud[a], float), np.asarray(cloud[b], float)
    dx = A[:, None, 0] - B[None, :, 0]
    dy = A[:, None, 1] - B[None, :, 1]
    dz = A[:, None, 2] - B[None, :, 2]
    d = np.sqrt(dx * dx + dy * dy + dz * dz).astype(dtype)
    return (d / dtype(v)).astype(dtype) if dtype is np.float32 else d / v


def legs_of(cloud, lit, dtype=np.float64):
    ids = [lit[0]] + [i for _, i in lit[1]]
    return [leg_formula(cloud, ids[k], lit[1][k][0], ids[k + 1], dtype) for k in range(len(lit[1]))]


def brute_times(legs):
    """min over all interior tuples of the LEFT-nested sum ((w0 + w1) + w2) + ..."""
    c = legs[0]                                    # (n, m1)
    for w in legs[1:]:
        c = c[..., None] + w.reshape((1,) * (c.ndim - 1) + w.shape)
    n, p = c.shape[0], c.shape[-1]
    if c.ndim == 2:
        return c
    mid = c.shape[1:-1]
    if 0 in mid:
        return None
    return np.moveaxis(c, -1, 1).reshape(n, p, -1).min(axis=2)


def realised_times(legs, indices):
    """cost of the reported tuples, left-nested; indices (d+2, n, p)."""
    t = legs[0][indices[0], indices[1]]
    for k in range(1, len(legs)):
        t = t + legs[k][indices[k], indices[k + 1]]
    return t


def eq_arrays(a, b, rtol):
    a, b = np.asarray(a, float), np.asarray(b, float)
    if a.shape != b.shape:
        return False
    if rtol == 0:
        return bool(np.array_equal(a, b))
    return bool(np.all(np.abs(a - b) <= rtol * np.maximum(np.abs(a), np.abs(b))))


def spec_check(cloud, lit, times, indices, rtol, dtype=np.float64):
    """Evaluate the property on one answer of the implementation. Returns list of failed predicate names."""
    bad = []
    ids = [lit[0]] + [i for _, i in lit[1]]
    sizes = [len(cloud[i]) for i in ids]
    n, p = sizes[0], sizes[-1]
    if times.shape != (n, p) or indices.shape != (len(ids), n, p):
        return ["shape"]
    if n * p == 0:
        return bad
    legs = legs_of(cloud, lit, dtype)
    for k in range(len(ids)):
        if indices[k].min() < 0 or indices[k].max() >= sizes[k]:
            bad.append(f"index-range[{k}]")
    if bad:
        return bad
    if not np.array_equal(indices[0], np.repeat(np.arange(n), p).reshape(n, p)):
        bad.append("indices[0]!=i")
    if not np.array_equal(indices[-1], np.tile(np.arange(p), n).reshape(n, p)):
        bad.append("indices[-1]!=j")
    if not eq_arrays(realised_times(legs, indices), times, rtol):
        bad.append("realised")
    bt = brute_times(legs)
    if bt is not None and not eq_arrays(bt, times, rtol):
        bad.append("optimal(brute-force)")
    return bad


# --------------------------------------------------------------------------
# Coq literals
# --------------------------------------------------------------------------
def c_sets(cloud):
    return clist([cpair(cZ(i), clist([cpair(cfloat(x), cfloat(y), cfloat(z)) for x, y, z in np.asarray(c).reshape(-1, 3)]))
                  for i, c in sorted(cloud.items())])


def c_lit(lit):
    return cpair(cZ(lit[0]), clist([cpair(cfloat(v), cZ(i)) for v, i in lit[1]]))


def c_case(cloud, group, answers, rtol):
    pcs = []
    for lit, (times, indices) in zip(group, answers):
        ct = clist([clist([cfloat(x) for x in row]) for row in np.asarray(times, float)])
        ci = clist([clist([clist([cZ(x) for x in row]) for row in lay]) for lay in np.asarray(indices)])
        pcs.append(cpair(c_lit(lit), ct, ci))
    return cpair(c_sets(cloud), cfloat(rtol), clist(pcs))


IMPORTS = ("From Coq Require Import List ZArith Floats.\n"
           "From Arim Require Import Base.Num Base.NumF Model.MinPlus Model.Fermat.")
CASE_T = "fsets * float * list path_case"

# --------------------------------------------------------------------------
# main loop
# --------------------------------------------------------------------------
coq_small, coq_big = [], []       # (literal, replay info)
n_groups = 150 if Q else 1200
n_big = 12 if Q else 60
sig_seen = set()


def replay_of(cloud, group, extra=None):
    d = {"point_sets": {str(i): [[float(x).hex() for x in pt] for pt in np.asarray(c).reshape(-1, 3)] for i, c in cloud.items()},
         "paths": [[lit[0], [[float(v).hex(), i] for v, i in lit[1]]] for lit in group]}
    if extra:
        d.update(extra)
    return d


def run_group(cloud, group, dyadic, info, big=False):
    """All inputs generated here are valid (finite positive velocities, non-empty sets): an exception
    raised by the implementation is a failure of the property on that input."""
    try:
        run_group_(cloud, group, dyadic, info, big)
    except Exception as ex:  # noqa: BLE001
        import traceback
        chk.violation(f"group:{info['kind']}:exception", f"the implementation raised {type(ex).__name__} on a valid group of paths",
                      replay_of(cloud, group, {"exception": repr(ex), "traceback": traceback.format_exc()[-1500:]}),
                      failing_input_found=True)


def run_group_(cloud, group, dyadic, info, big=False):
    global evaluations
    rtol = 0.0 if dyadic else 1e-12
    chk.count(cloud_kind=info["kind"], dim=info["dim"], npaths=len(group))
    for lit in group:
        chk.count(nlegs=len(lit[1]))
        for i in [lit[0]] + [j for _, j in lit[1]]:
            chk.count(set_size=min(len(cloud[i]), 41))
    for v in info["variants"]:
        chk.count(path_variant=v)
    rays64 = impl_solve(cloud, group)
    answers = [(r.times, r.indices) for r in rays64]
    key = f"group:{info['kind']}"
    # ---- spec predicates on the implementation's answers --------------------
    for lit, r in zip(group, rays64):
        evaluations += 1
        bad = spec_check(cloud, lit, np.asarray(r.times), np.asarray(r.indices), rtol)
        sizes = tuple([len(cloud[lit[0]])] + [len(cloud[i]) for _, i in lit[1]])
        if len(sizes) >= 3 and min(sizes) >= 1 and max(sizes[1:-1]) >= 2:
            nontrivial.add((sizes, info["kind"], info["dim"], hash(np.asarray(r.times).tobytes())))
        if bad:
            chk.violation(key + ":spec", f"FermatSolver answer violates {bad} ({info['kind']} cloud, sizes {sizes})",
                          replay_of(cloud, [lit], {"failed_predicates": bad, "impl_times": np.asarray(r.times),
                                                   "impl_indices": np.asarray(r.indices)}), failing_input_found=True)
    # ---- grouped == alone (bitwise), any order, set or tuple ------------------
    for k, lit in enumerate(group):
        alone = impl_solve(cloud, [lit])[0]
        evaluations += 1
        if not np.array_equal(alone.times, rays64[k].times):
            chk.violation(key + ":grouping", "solving a path together with others differs from solving it alone",
                          replay_of(cloud, group, {"path_number": k, "alone_times": np.asarray(alone.times),
                                                   "grouped_times": np.asarray(rays64[k].times)}), failing_input_found=True)
        bad = spec_check(cloud, lit, np.asarray(alone.times), np.asarray(alone.indices), rtol)
        if bad:
            chk.violation(key + ":spec-alone", f"FermatSolver answer (path solved alone) violates {bad}",
                          replay_of(cloud, [lit], {"failed_predicates": bad, "impl_times": np.asarray(alone.times),
                                                   "impl_indices": np.asarray(alone.indices)}), failing_input_found=True)
    if len(group) > 1:
        perm = list(rng.permutation(len(group)))
        shuf = impl_solve(cloud, [group[i] for i in perm], as_set=bool(rng.integers(0, 2)))
        evaluations += 1
        for a, i in zip(shuf, perm):
            if not np.array_equal(a.times, rays64[i].times):
                chk.violation(key + ":order", "result depends on the order in which paths are handed to the solver",
                              replay_of(cloud, group, {"order": perm}), failing_input_found=True)
    # ---- reversed path == transposed times ----------------------------------
    for k, lit in enumerate(group):
        rl = lit_reverse(lit)
        rr = impl_solve(cloud, [rl])[0]
        evaluations += 1
        ok = eq_arrays(np.asarray(rr.times), np.asarray(rays64[k].times).T, rtol)
        # Rays.reverse(): transposed times, and its indices realise them on the reversed path
        rv = rays64[k].reverse()
        ok2 = np.array_equal(rv.times, np.asarray(rays64[k].times).T) and \
            [b for b in spec_check(cloud, rl, np.asarray(rv.times), np.asarray(rv.indices), max(rtol, 0.0 if dyadic else 1e-12))] == []
        rv2 = rv.reverse()
        ok3 = np.array_equal(rv2.times, rays64[k].times) and np.array_equal(rv2.indices, rays64[k].indices)
        if not (ok and ok2 and ok3):
            chk.violation(key + ":reverse", f"reversed path: transposed-times={ok} Rays.reverse-valid={ok2} involutive={ok3}",
                          replay_of(cloud, [lit], {"reversed_times": np.asarray(rr.times), "times": np.asarray(rays64[k].times)}),
                          failing_input_found=True)
    # ---- float32 working precision -------------------------------------------
    rays32 = impl_solve(cloud, group, dtype=np.float32)
    for lit, r in zip(group, rays32):
        evaluations += 1
        bad = [] if r.times.dtype == np.float32 else ["dtype"]
        # optimal + realised are exact statements whatever the precision: evaluate them in float32 arithmetic
        bad += spec_check(cloud, lit, np.asarray(r.times), np.asarray(r.indices), 0.0 if dyadic else 2e-6, dtype=np.float32)
        if bad:
            chk.violation(key + ":float32", f"float32 solver answer violates {bad}",
                          replay_of(cloud, [lit], {"impl_times32": np.asarray(r.times, float)}), failing_input_found=True)
    # ---- float32 working precision with the velocities given as NumPy scalars (elements of a velocity array): the
    #      answer is still optimal and realised (its dtype is not constrained: NumPy promotes) -------------
    if rng.random() < 0.5:
        chk.count(float32_numpy_scalar_velocities=1)
        for lit, r in zip(group, impl_solve(cloud, group, dtype=np.float32, np_scalar_velocities=True)):
            evaluations += 1
            bad = spec_check(cloud, lit, np.asarray(r.times), np.asarray(r.indices), 0.0 if dyadic else 2e-6, dtype=np.float32)
            if bad:
                chk.violation(key + ":float32-npvel", f"float32 solver answer with np.float64-typed velocities violates {bad}",
                              replay_of(cloud, [lit], {"impl_times32": np.asarray(r.times, float)}), failing_input_found=True)
    # ---- float32 solver, the whole geometry far from the origin -----------------
    # (coordinates large compared with the leg lengths: the distances must still be those of the points,
    #  to float32 rounding of the DISTANCE, not of the absolute coordinates)
    if not dyadic and not big and rng.random() < 0.4:
        off = np.array([rng.uniform(5.0, 40.0), 0.0 if info["dim"] == 2 else rng.uniform(-20.0, 20.0), rng.uniform(5.0, 40.0)])
        far = {i: np.asarray(c, float) + off for i, c in cloud.items()}
        chk.count(float32_far_from_origin=1)
        for lit, r in zip(group, impl_solve(far, group, dtype=np.float32)):
            evaluations += 1
            bad = spec_check(far, lit, np.asarray(r.times), np.asarray(r.indices), 2e-6, dtype=np.float32)
            if bad:
                chk.violation(key + ":float32-far", f"float32 solver answer violates {bad} on a geometry translated by {off.tolist()}",
                              replay_of(far, [lit], {"impl_times32": np.asarray(r.times, float), "offset": off}), failing_input_found=True)
    # ---- ray_tracing_for_paths, C and Fortran order --------------------------
    if rng.random() < (0.5 if not big else 0.2):
        for forder in (False, True):
            apaths = make_arim_paths(cloud, group)
            # the paths may be handed over as any iterable: a list, a tuple, a one-shot generator / iterator / dict view
            how_ = int(rng.integers(0, 5))
            arg_ = [apaths, tuple(apaths), (p_ for p_ in apaths), iter(apaths), {k_: p_ for k_, p_ in enumerate(apaths)}.values()][how_]
            chk.count(paths_argument=["list", "tuple", "generator", "iterator", "dict values"][how_])
            ray.ray_tracing_for_paths(arg_, convert_to_fortran_order=forder)
            evaluations += 1
            if any(ap.rays is None for ap in apaths):
                chk.violation(key + ":ray_tracing_for_paths:no-rays", "ray_tracing_for_paths left Path.rays unset (paths given as "
                              + ["list", "tuple", "generator", "iterator", "dict values"][how_] + ")",
                              replay_of(cloud, group, {"fortran": forder, "paths_argument": ["list", "tuple", "generator", "iterator", "dict values"][how_]}),
                              failing_input_found=True)
                continue
            for k, ap in enumerate(apaths):
                t, ind = ap.rays.times, ap.rays.indices
                flags_ok = (t.flags.f_contiguous and ind.flags.f_contiguous) if forder else t.flags.c_contiguous
                if not (np.array_equal(t, rays64[k].times) and flags_ok and t.shape == rays64[k].times.shape
                        and spec_check(cloud, group[k], np.asarray(t), np.asarray(ind), rtol) == []):
                    chk.violation(key + ":ray_tracing_for_paths", f"Path.rays (fortran={forder}) differs from FermatSolver / violates the spec",
                                  replay_of(cloud, group, {"path_number": k, "fortran": forder}), failing_input_found=True)
    # ---- Coq model -----------------------------------------------------------
    lit = c_case(cloud, group, answers, rtol)
    (coq_big if big else coq_small).append((lit, cloud, group, info, answers))
    if rng.random() < 0.25:
        ans32 = [(np.asarray(r.times, float), r.indices) for r in rays32]
        (coq_big if big else coq_small).append((c_case(cloud, group, ans32, 0.0 if dyadic else 1e-5), cloud, group,
                                                dict(info, dtype="float32"), ans32))
    if len(samples) < 3 and len(group[0][1]) >= 2:
        samples.append({"cloud": info, "paths": [[l[0], l[1]] for l in group][:2],
                        "times[0]": np.asarray(rays64[0].times)[:2, :3]})


def all_legs_exact(cloud, group):
    pairs = set()
    for lit in group:
        ids = [lit[0]] + [i for _, i in lit[1]]
        pairs |= {(min(a, b), max(a, b)) for a, b in zip(ids, ids[1:])}
    return all(exact_dist(x, y) for a, b in pairs for x in cloud[a] for y in cloud[b])


# corpus first: hand-made boundary cases (each one is the smallest input that distinguishes a
# realistic defect: wrong velocity index, transposed cached distance, cache-key collision, ...)
import glob  # noqa: E402
import json  # noqa: E402
import os  # noqa: E402
for f in sorted(glob.glob("/verif/corpus/C01/*.json")):
    c = json.load(open(f))
    c = c.get("replay", c)
    cloud = {int(i): np.array([[float.fromhex(x) for x in pt] for pt in ps], dtype=float).reshape(-1, 3)
             for i, ps in c["point_sets"].items()}
    group = [(int(p[0]), [(float.fromhex(v), int(i)) for v, i in p[1]]) for p in c["paths"]]
    chk.count(corpus=os.path.basename(f))
    run_group(cloud, group, all_legs_exact(cloud, group),
              {"kind": "corpus", "dim": 3, "nlegs": max(len(p[1]) for p in group), "variants": ["corpus"] * len(group)})
for gi in range(n_groups):
    dyadic = gi % 2 == 0
    maxsize = 7 if Q else int(rng.choice([4, 7, 12]))
    cloud, group, dy, info = gen_group(dyadic, maxsize)
    run_group(cloud, group, dy, info)
for gi in range(n_big):
    # large INTERIOR sets (25..40 points) with small end sets: the search space of the kernel's k loop
    nl = 2 if gi % 3 else 3
    lo = 31 if gi % 4 < 2 else 20
    sizes = [int(rng.integers(1, 9))] + [int(rng.integers(lo, 41)) for _ in range(nl - 1)] + [int(rng.integers(1, 9))]
    if nl == 3 and rng.random() < 0.5:
        sizes[2] = int(rng.integers(1, 4))
    cloud, group, dy, info = gen_group(gi % 2 == 0, 40, maxlegs=3, sizes=sizes)
    run_group(cloud, group[:3], dy, dict(info, variants=info["variants"][:3]), big=True)

# the same with the library's tuning knob for the block size of the minimisation lowered (arim.settings.
# BLOCK_SIZE_FIND_MIN_TIMES, default 50000): interior sets then span several blocks of the k loop
import arim.settings as _settings  # noqa: E402
_blk0 = _settings.BLOCK_SIZE_FIND_MIN_TIMES
try:
    for gi in range(6 if Q else 40):
        _settings.BLOCK_SIZE_FIND_MIN_TIMES = int(rng.choice([1, 2, 3, 5, 8, 16]))
        sizes = [int(rng.integers(1, 6)), int(rng.integers(9, 41)), int(rng.integers(1, 6))]
        cloud, group, dy, info = gen_group(gi % 2 == 0, 40, maxlegs=2, sizes=sizes)
        chk.count(block_size_setting=f"lowered to {_settings.BLOCK_SIZE_FIND_MIN_TIMES}")
        run_group(cloud, group[:3], dy, dict(info, variants=info["variants"][:3], block_size_find_min_times=_settings.BLOCK_SIZE_FIND_MIN_TIMES), big=True)
finally:
    _settings.BLOCK_SIZE_FIND_MIN_TIMES = _blk0

# ---- boundary families -------------------------------------------------------
# empty first / last set: empty result; empty interior set: ZeroDivisionError (model: None)
e_cloud = {0: np.array([[0.0, 0, 0], [3, 0, 0]]), 1: np.zeros((0, 3)), 2: np.array([[0.0, 0, 4], [3, 0, 4], [3, 0, 8]])}
for lit in [(1, [(1.0, 0)]), (0, [(2.0, 1)]), (1, [(1.0, 0), (2.0, 2)]), (0, [(1.0, 2), (2.0, 1)])]:
    r = impl_solve(e_cloud, [lit])[0]
    evaluations += 1
    chk.count(boundary="empty-end-set")
    coq_small.append((c_case(e_cloud, [lit], [(r.times, r.indices)], 0.0), e_cloud, [lit], {"kind": "empty-end"}, None))
err_cases = []
for lit in [(0, [(1.0, 1), (2.0, 2)]), (2, [(1.0, 1), (2.0, 0)]), (0, [(1.0, 2), (1.0, 1), (2.0, 0)])]:
    evaluations += 1
    chk.count(boundary="empty-interior-set")
    try:
        impl_solve(e_cloud, [lit])
        got = "no error"
    except ZeroDivisionError:
        got = "ZeroDivisionError"
    except Exception as ex:  # noqa: BLE001
        got = type(ex).__name__
    err_cases.append((lit, got))
try:
    ray.FermatPath((g.Points(np.zeros((1, 3))),))
    got = "no error"
except ValueError:
    got = "ValueError"
err_cases.append(((0, []), got))
fails = chk.coq_failing("cases_err", IMPORTS, "fsets * path_lit",
                        [cpair(c_sets(e_cloud), c_lit(lit)) for lit, _ in err_cases], "check_error")
for k, (lit, got) in enumerate(err_cases):
    if (k in fails) != (got == "no error"):
        chk.violation("error-branch", f"error behaviour differs from the model: impl={got}, model error={k not in fails}",
                      {"correspondence": "Model.Fermat.solve_pure = None", "path": [lit[0], lit[1]]}, failing_input_found=False)

# ---- very large interior set: the optimal crossing point has an index above 2^15 ----------
# (spec predicates only: the reported indices must realise the reported, brute-force-minimal times)
for nbig in ((40000, 60001) if Q else (40000, 60001, 66000, 131075)):     # (above 50000: more than one block of the k loop)
    xs = np.linspace(-1.0, 1.0, nbig)
    big_cloud = {0: np.array([[0.9, 0.0, -1.0], [0.95, 0.0, -1.5]]),
                 1: np.stack([xs, np.zeros(nbig), np.zeros(nbig)], axis=1),
                 2: np.array([[0.97, 0.0, 2.0], [0.8, 0.0, 1.0], [0.99, 0.0, 0.5]])}
    lit = (0, [(1.0, 1), (2.0, 2)])
    r = impl_solve(big_cloud, [lit])[0]
    evaluations += 1
    chk.count(boundary=f"interior-set-of-{nbig}-points")
    nontrivial.add(("bigset", nbig))
    bad = spec_check(big_cloud, lit, np.asarray(r.times), np.asarray(r.indices), 1e-12)
    if bad:
        chk.violation("large-set", f"ray tracing through a set of {nbig} points violates {bad}",
                      {"set_sizes": [2, nbig, 3], "violations": bad, "indices": np.asarray(r.indices),
                       "times": np.asarray(r.times), "note": "interior set = linspace(-1,1,n) on the x axis"})

# ---- large interior sets whose samples are NOT stored in order along the surface, or lie on a corrugated
#      surface: the travel time is not unimodal along the storage index (spec predicates: brute force) -----
for trial in range(4 if Q else 24):
    nint = int(rng.choice([512, 513, 700, 1100, 3000]))
    xs = np.linspace(-40e-3, 40e-3, nint)
    kind_ = ["shuffled flat wall", "corrugated surface", "two interior sets", "shuffled corrugated"][trial % 4]
    zs = np.zeros(nint) if kind_ == "shuffled flat wall" else 2e-3 * np.sin(xs * float(rng.uniform(300.0, 900.0)))
    wall = np.stack([xs, np.zeros(nint), zs], axis=1)
    if "shuffled" in kind_:
        wall = wall[rng.permutation(nint)]
    src = np.stack([rng.uniform(-20e-3, 20e-3, 3), np.zeros(3), rng.uniform(-30e-3, -10e-3, 3)], axis=1)
    dst = np.stack([rng.uniform(-20e-3, 20e-3, 4), np.zeros(4), rng.uniform(10e-3, 30e-3, 4)], axis=1)
    if kind_ == "two interior sets":
        n2 = 600
        x2 = np.linspace(-40e-3, 40e-3, n2)
        wall2 = np.stack([x2, np.zeros(n2), 40e-3 + 1e-3 * np.cos(x2 * 500.0)], axis=1)[rng.permutation(n2)]
        wall = wall[:600]
        big_cloud = {0: src, 1: wall, 2: wall2, 3: dst - np.array([0.0, 0.0, 20e-3])}
        lit = (0, [(1480.0, 1), (6300.0, 2), (3100.0, 3)])
    else:
        big_cloud = {0: src, 1: wall, 2: dst}
        lit = (0, [(1480.0, 1), (float(rng.choice([6300.0, 3100.0])), 2)])
    r = impl_solve(big_cloud, [lit])[0]
    rr = impl_solve(big_cloud, [lit_reverse(lit)])[0]
    evaluations += 2
    chk.count(boundary=f"unordered-or-corrugated-interior-set")
    nontrivial.add(("unordered", trial))
    bad = spec_check(big_cloud, lit, np.asarray(r.times), np.asarray(r.indices), 1e-12)
    if not np.allclose(np.asarray(rr.times).T, np.asarray(r.times), rtol=1e-12, atol=0):
        bad.append("reverse!=transpose")
    if bad:
        chk.violation("unordered-set", f"ray tracing through a {kind_} of {len(wall)} points violates {bad}",
                      {"kind": kind_, "set_sizes": [len(big_cloud[k]) for k in sorted(big_cloud)], "violations": bad,
                       "points": {k: v for k, v in big_cloud.items()} if len(wall) <= 700 else "regenerated from seed/tier (too large to inline)",
                       "path": [lit[0], lit[1]], "times": np.asarray(r.times)})

# ---- coordinates stored as INTEGERS (positions in whole grid units): the same points, the same answer ---------
for trial in range(6 if Q else 60):
    nsets = int(rng.integers(2, 5))
    idt = [np.int64, np.int32, np.int16][trial % 3]
    icloud = {}
    for k in range(nsets):
        c = rng.integers(-30, 31, size=(int(rng.integers(1, 7)), 3))
        c[:, 2] += 25 * k
        if trial % 2 == 0:
            c[:, 1] = 0
        icloud[k] = c.astype(idt)
    lit = (0, [(float(rng.choice([1.0, 2.0, 1480.0, 6300.0])), k) for k in range(1, nsets)])
    fcloud = {k: v.astype(float) for k, v in icloud.items()}
    r = impl_solve(icloud, [lit])[0]
    evaluations += 1
    chk.count(boundary=f"integer-coordinates-{np.dtype(idt).name}")
    nontrivial.add(("intcoords", trial))
    bad = spec_check(fcloud, lit, np.asarray(r.times, float), np.asarray(r.indices), 1e-12)
    if bad:
        chk.violation("integer-coordinates", f"ray tracing of point sets whose coordinates are stored as {np.dtype(idt).name} violates {bad}",
                      {"points": {k: v.tolist() for k, v in icloud.items()}, "dtype": np.dtype(idt).name, "path": [lit[0], lit[1]],
                       "violations": bad, "times": np.asarray(r.times, float)})

# ---- history: a Path traced, then modified (velocity / mode), then traced again -------------
# must give what a freshly built path gives
for trial in range(4 if Q else 30):
    cloud, group, dy, info = gen_group(False, 6, maxlegs=3)
    paths = make_arim_paths(cloud, group[:1])
    p0 = paths[0]
    ray.ray_tracing_for_paths(paths)
    first = np.array(p0.rays.times)
    # change the velocity of the first leg's material in place
    m0 = p0.materials[0]
    old = m0.longitudinal_vel
    m0.longitudinal_vel = old * 1.37
    m0.transverse_vel = m0.transverse_vel * 1.37 if m0.transverse_vel is not None else None
    ray.ray_tracing_for_paths(paths)
    second = np.array(p0.rays.times)
    fresh = arim.Path(p0.interfaces, p0.materials, p0.modes, name="fresh")
    ray.ray_tracing_for_paths([fresh])
    evaluations += 1
    chk.count(boundary="retrace-after-velocity-change")
    nontrivial.add(("retrace", trial))
    if not np.array_equal(second, np.asarray(fresh.rays.times)):
        chk.violation("retrace", "tracing a path again after its material velocity changed does not give the result of a fresh path",
                      {"points": {k: v.tolist() for k, v in cloud.items()}, "path": [group[0][0], group[0][1]],
                       "times_first": first, "times_second": second, "times_fresh_path": np.asarray(fresh.rays.times)})
    m0.longitudinal_vel = old

# ---- two DIFFERENT interior point sets with the same name and shape whose coordinates differ by a few nanometres (a
#      surface re-measured, a set shifted by a rounding step), traced in ONE solver: each path gets the answer it gets alone
for trial in range(6 if Q else 40):
    cloud, group, dy, info = gen_group(False, 7, maxlegs=3)
    lit = next((l for l in group if len(l[1]) >= 2), None)
    if lit is None:
        continue
    mid = lit[1][0][1]
    pts1 = make_points(cloud)
    if pts1[mid].coords.dtype.kind != "f":
        continue
    shift = rng.uniform(-8e-9, 8e-9, size=pts1[mid].coords.shape)
    pts2 = dict(pts1)
    pts2[mid] = g.Points(np.array(pts1[mid].coords) + shift, pts1[mid].name)
    fpa, fpb = make_fpath(pts1, lit), make_fpath(pts2, lit)
    order = [fpa, fpb] if trial % 2 == 0 else [fpb, fpa]
    both = ray.FermatSolver(tuple(order)).solve()
    alone = {id(fp): ray.FermatSolver((make_fpath(pp, lit),)).solve() for fp, pp in ((fpa, pts1), (fpb, pts2))}
    evaluations += 2
    chk.count(boundary="near-equal-point-sets")
    nontrivial.add(("near-equal", trial))
    for fp, nm in ((fpa, "original"), (fpb, "shifted")):
        ra = list(alone[id(fp)].values())[0]
        rb = both[fp]
        if not (np.array_equal(np.asarray(rb.times), np.asarray(ra.times)) and np.array_equal(np.asarray(rb.indices), np.asarray(ra.indices))):
            chk.violation("near-equal-point-sets", f"the path through the {nm} point set gets, next to a path through a point set that differs "
                          "by a few nanometres, another answer than when traced alone",
                          {"points": {k: np.asarray(v.coords).tolist() for k, v in pts1.items()}, "path": [lit[0], lit[1]],
                           "shift_of_set": int(mid), "shift": shift.tolist(), "solver_order": ["original", "shifted"] if trial % 2 == 0 else ["shifted", "original"],
                           "times_together": np.asarray(rb.times, float), "times_alone": np.asarray(ra.times, float)})
            break

# ---- ray_tracing(views) on views whose paths are distinct Path objects describing the same path (a copy kept per view)
import copy as _copy
for trial in range(4 if Q else 30):
    cloud, group, dy, info = gen_group(False, 6, maxlegs=3)
    paths = make_arim_paths(cloud, group[:2] if len(group) >= 2 else group[:1])
    twins = [_copy.copy(pp) if trial % 2 == 0 else arim.Path(pp.interfaces, pp.materials, pp.modes, name=pp.name + "'") for pp in paths]
    for tw in twins:
        tw.rays = None
    views = [arim.View(paths[0], paths[-1], "v0"), arim.View(twins[0], twins[-1], "v1")]
    ray.ray_tracing(views)
    fresh = [arim.Path(pp.interfaces, pp.materials, pp.modes, name="fresh") for pp in paths]
    ray.ray_tracing_for_paths(fresh)
    evaluations += 1
    chk.count(boundary="views-with-equal-paths")
    nontrivial.add(("equal-paths", trial))
    for pp, fr, who in [(a, f, "original") for a, f in zip(paths, fresh)] + [(a, f, "copy") for a, f in zip(twins, fresh)]:
        if pp.rays is None or not (np.array_equal(np.asarray(pp.rays.times), np.asarray(fr.rays.times))
                                   and np.array_equal(np.asarray(pp.rays.indices), np.asarray(fr.rays.indices))):
            chk.violation("views-with-equal-paths", f"ray_tracing(views): the {who} Path object of two equal paths "
                          + ("has no rays" if pp.rays is None else "has other rays than a freshly traced path"),
                          {"points": {k: v.tolist() for k, v in cloud.items()}, "paths": [[l[0], l[1]] for l in group[:2]],
                           "views": "View(p0, p1), View(copy of p0, copy of p1)", "who": who,
                           "times": None if pp.rays is None else np.asarray(pp.rays.times, float),
                           "times_fresh_path": np.asarray(fr.rays.times, float)})
            break

# ---- run the model inside coqc -------------------------------------------------
for name, cases, shard in (("cases_small", coq_small, 60), ("cases_big", coq_big, 3)):
    if not cases:
        continue
    fails = chk.coq_failing(name, IMPORTS, CASE_T, [c[0] for c in cases], "check_group", shard=shard, jobs=12)
    for k in fails[:5]:
        _, cloud, group, info, answers = cases[k]
        chk.violation("model:" + str(info.get("kind")),
                      "implementation differs from the Coq model (times outside the relation, or reported indices "
                      "do not realise the times according to Model.Fermat.cost); the numpy spec predicates held",
                      replay_of(cloud, group, {"correspondence": "Model.Fermat.check_group", "info": info}),
                      failing_input_found=False)

# ---- the glue model of the public functions (Model files added later, see manifest text) tied to the library on every run:
#      inputs generated here, the library run on them, the model evaluated on the same inputs by vm_compute inside coqc
import ties.tie_C01 as _tie_glue  # noqa: E402
_tie_n = _tie_glue.run(chk, arim, rng, Q)
chk.cov["glue_model_tie_comparisons"] = int(_tie_n or 0)

chk.finish(
    evaluations=evaluations, distinct_nontrivial=len(nontrivial),
    rule="distinct (set sizes, cloud kind, dimension, hash of the times array) among solved paths with >= 2 legs, "
         "all sets non-empty and some interior set of size >= 2",
    samples=samples,
    extra={"groups": n_groups + n_big, "coq_cases": len(coq_small) + len(coq_big)})
