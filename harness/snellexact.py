"""Snell-exact single-ray geometries in the plane (Oxz), shared by C06/C07/C03/C05.

A central ray is traced analytically (vector form of Snell's law) through planar,
possibly tilted interfaces; every hit point becomes a ONE-POINT arim Interface whose
orientation basis has its local (Oz+) axis along the wall normal, so the ray handed to
arim obeys Snell's law to rounding and arim's own ray tracing is not involved.  Leg
lengths and incidence angles are ALSO returned as computed here from the analytic
geometry, independently of arim's RayGeometry.

`tube_distance` measures the virtual-source distance by finite differences (two
neighbouring rays): an independent test oracle used only to look for failing inputs.
"""
import math

import numpy as np


def unit(a):
    return np.array([math.sin(a), math.cos(a)])        # (x, z); angle from +z


def trace(src, phi, walls, vels, last_len=None, stop=None, sin_limit=0.999):
    """walls: [(point_on_wall (x,z), normal_angle, 'T'|'R'), ...]; vels[k]: velocity of leg k.
    Returns (points, unit directions per leg) or None if the ray misses / is totally reflected."""
    p = np.asarray(src, float)
    d = unit(phi)
    pts, dirs = [p], []
    for k, (p0, alpha, kind) in enumerate(walls):
        n = unit(alpha)
        t = np.array([n[1], -n[0]])
        dn = float(np.dot(d, n))
        if abs(dn) < 1e-9:
            return None
        s = float(np.dot(np.asarray(p0) - p, n)) / dn
        if s <= 1e-9:
            return None
        p = p + s * d
        pts.append(p)
        dirs.append(d)
        sin_out = float(np.dot(d, t)) * vels[k + 1] / vels[k]
        if abs(sin_out) >= sin_limit:
            return None
        cos_out = math.sqrt(1 - sin_out ** 2)
        side = 1.0 if dn > 0 else -1.0
        if kind == "R":
            side = -side
        d = sin_out * t + side * cos_out * n
    if stop is None:
        p = p + last_len * d
    else:
        q, dq = stop
        p = p + float(np.dot(q - p, dq)) / float(np.dot(d, dq)) * d
    pts.append(p)
    dirs.append(d)
    return pts, dirs


def incidence_angles(dirs, walls):
    """conventional (acute) incidence angle at each wall: angle between the incoming leg and the wall normal."""
    out = []
    for k, (_, alpha, _) in enumerate(walls):
        c = abs(float(np.dot(dirs[k], unit(alpha))))
        out.append(math.acos(min(1.0, c)))
    return out


def out_angles(dirs, walls):
    out = []
    for k, (_, alpha, _) in enumerate(walls):
        c = abs(float(np.dot(dirs[k + 1], unit(alpha))))
        out.append(math.acos(min(1.0, c)))
    return out


def tube_distance(src, phi, walls, vels, last_len, delta=1e-5):
    r = trace(src, phi, walls, vels, last_len=last_len)
    if r is None:
        return None
    pts, dirs = r
    stop = (pts[-1], dirs[-1])
    ra = trace(src, phi + delta, walls, vels, stop=stop)
    rb = trace(src, phi - delta, walls, vels, stop=stop)
    if ra is None or rb is None:
        return None
    perp = np.array([dirs[-1][1], -dirs[-1][0]])
    dist = abs(float(np.dot(ra[0][-1] - rb[0][-1], perp))) / (2 * delta)
    # remove the jumps of the normal cross-section at the interfaces (they belong to the
    # transmission/reflection coefficients): factor cos(inc)/cos(out) per interface
    for k, (_, alpha, _) in enumerate(walls):
        n = unit(alpha)
        dist *= abs(float(np.dot(dirs[k], n))) / abs(float(np.dot(dirs[k + 1], n)))
    return dist


def _att_law(arim, attenuation, k):
    """attenuation = (a_couplant, a_L, a_T) in Np/m: constant laws; (a_couplant, a_L, a_T, "polynomial", f_MHz): laws that are
    first-degree polynomials of the frequency in MHz whose value at f_MHz is the given coefficient."""
    v = attenuation[k]
    if len(attenuation) > 3 and attenuation[3] == "polynomial":
        fm = float(attenuation[4])
        return arim.material_attenuation_factory("polynomial", [0.25 * v, 0.75 * v / fm])
    return arim.material_attenuation_factory("constant", v)


def _couplant(geom, arim, attenuation):
    key = "_couplant"
    _cache = geom
    if key not in _cache:
        kw = {}
        if attenuation:
            kw["longitudinal_att"] = _att_law(arim, attenuation, 0)
        _cache[key] = arim.Material(longitudinal_vel=geom["c_f"], density=geom["rho_f"], state_of_matter="liquid", **kw)
    return _cache[key]


def _block(geom, arim, attenuation):
    key = "_block"
    _cache = geom
    if key not in _cache:
        kw = {}
        if attenuation:
            kw["longitudinal_att"] = _att_law(arim, attenuation, 1)
            kw["transverse_att"] = _att_law(arim, attenuation, 2)
        _cache[key] = arim.Material(longitudinal_vel=geom["c_l"], transverse_vel=geom["c_t"], density=geom["rho_s"],
                                    state_of_matter="solid", **kw)
    return _cache[key]


def random_geometry(rng, nlegs=None, max_tilt_deg=20.0, max_inc_deg=75.0, integer_velocities=False):
    """Random source, walls (front wall z~0 transmission, then alternating back/front
    reflections), velocities (changes at every interface allowed = mode conversion)."""
    nlegs = int(nlegs or rng.integers(1, 5))
    c_f = float(rng.uniform(900, 2000))
    c_l = float(rng.uniform(3000, 7000))
    c_t = float(c_l * rng.uniform(0.40, 0.68))
    if integer_velocities:                      # whole numbers of m/s (the geometry is traced with these values)
        c_f, c_l, c_t = float(round(c_f)), float(round(c_l)), float(round(c_t))
    modes = ["L"] + [str(rng.choice(["L", "T"])) for _ in range(nlegs - 1)]
    vels = [c_f] + [c_l if m == "L" else c_t for m in modes[1:]]
    immersion = True
    if rng.random() < 0.2:                      # all legs inside the block (contact-like)
        modes[0] = str(rng.choice(["L", "T"]))
        vels[0] = c_l if modes[0] == "L" else c_t
        immersion = False
    depth = float(rng.uniform(10e-3, 50e-3))
    walls = []
    for k in range(nlegs - 1):
        tilt = math.radians(float(rng.uniform(-max_tilt_deg, max_tilt_deg))) if rng.random() < 0.7 else 0.0
        if k == 0:
            walls.append(((0.0, 0.0), tilt, "T"))
        elif k % 2 == 1:
            walls.append(((0.0, depth), tilt, "R"))
        else:
            walls.append(((0.0, 0.0), tilt, "R"))
    src = (float(rng.uniform(-5e-3, 5e-3)), -float(rng.uniform(5e-3, 40e-3)))
    phi = math.radians(float(rng.uniform(-25, 25)))
    last_len = float(rng.uniform(5e-3, 30e-3))
    r = trace(src, phi, walls, vels, last_len=last_len)
    if r is None:
        return None
    pts, dirs = r
    inc = incidence_angles(dirs, walls)
    if any(a > math.radians(max_inc_deg) for a in inc) or any(a > math.radians(85) for a in out_angles(dirs, walls)):
        return None
    legs = [float(np.linalg.norm(pts[k + 1] - pts[k])) for k in range(nlegs)]
    return dict(src=src, phi=phi, walls=walls, vels=vels, last_len=last_len, pts=pts, dirs=dirs,
                legs=legs, inc=inc, out=out_angles(dirs, walls), nlegs=nlegs, modes=modes, immersion=immersion,
                c_f=c_f, c_l=c_l, c_t=c_t, rho_f=float(rng.uniform(800, 1300)), rho_s=float(rng.uniform(2000, 9000)))


def normal_incidence_geometry(rng, integer_source=False):
    """A ray that meets every wall EXACTLY along its normal: the walls are tilted by a whole number of degrees and the ray leaves
    the source in that direction (transmission without deviation, reflection back along the same line).  With
    integer_source the source sits on whole-number coordinates (lengths in units where that is natural; the beamspread is
    scale-free) so that its Points may be stored in an integer array."""
    nlegs = int(rng.integers(2, 4))
    c_f = float(rng.uniform(900, 2000))
    c_l = float(rng.uniform(3000, 7000))
    c_t = float(c_l * rng.uniform(0.40, 0.68))
    modes = ["L"] + [str(rng.choice(["L", "T"])) for _ in range(nlegs - 1)]
    vels = [c_f] + [c_l if m == "L" else c_t for m in modes[1:]]
    deg = int(rng.integers(-30, 31))
    alpha = math.radians(deg)
    scale = 1.0 if integer_source else 1e-3
    depth = float(rng.uniform(10, 50)) * scale
    walls = [((0.0, 0.0), alpha, "T")] + ([((0.0, depth), alpha, "R")] if nlegs == 3 else [])
    if integer_source:
        src = (float(int(rng.integers(-3, 4))), -float(int(rng.integers(0, 40))) - (1.0 if deg else 1.0))
        if rng.random() < 0.3:
            src = (0.0, -float(int(rng.integers(1, 40))))
    else:
        src = (float(rng.uniform(-5, 5)) * scale, -float(rng.uniform(5, 40)) * scale)
    last_len = float(rng.uniform(5, 30)) * scale
    r = trace(src, alpha, walls, vels, last_len=last_len)
    if r is None:
        return None
    pts, dirs = r
    legs = [float(np.linalg.norm(pts[k + 1] - pts[k])) for k in range(nlegs)]
    return dict(src=src, phi=alpha, walls=walls, vels=vels, last_len=last_len, pts=pts, dirs=dirs,
                legs=legs, inc=[0.0] * (nlegs - 1), out=[0.0] * (nlegs - 1), nlegs=nlegs, modes=modes, immersion=True,
                c_f=c_f, c_l=c_l, c_t=c_t, rho_f=float(rng.uniform(800, 1300)), rho_s=float(rng.uniform(2000, 9000)),
                tilt_degrees=deg)


def grazing_geometry(rng):
    """immersion ray whose first leg in the block is within 2 degrees of grazing (88.0 .. 89.6 degrees from the normal of
    a flat front wall), optionally reflected once at a flat back wall (with or without mode conversion)."""
    nlegs = int(rng.integers(2, 4))
    c_f = float(rng.uniform(900, 2000))
    c_l = float(rng.uniform(3000, 7000))
    c_t = float(c_l * rng.uniform(0.40, 0.68))
    modes = ["L"] + [str(rng.choice(["L", "T"])) for _ in range(nlegs - 1)]
    vels = [c_f] + [c_l if m == "L" else c_t for m in modes[1:]]
    depth = float(rng.uniform(1e-3, 4e-3))
    walls = [((0.0, 0.0), 0.0, "T")] + ([((0.0, depth), 0.0, "R")] if nlegs == 3 else [])
    th_out = math.radians(float(rng.uniform(88.0, 89.6)))
    if vels[0] >= 0.98 * vels[1]:
        return None
    phi = math.asin(vels[0] / vels[1] * math.sin(th_out)) * float(rng.choice([-1.0, 1.0]))
    src = (float(rng.uniform(-5e-3, 5e-3)), -float(rng.uniform(5e-3, 40e-3)))
    last_len = float(rng.uniform(5e-3, 30e-3))
    r = trace(src, phi, walls, vels, last_len=last_len, sin_limit=0.9999999)
    if r is None:
        return None
    pts, dirs = r
    legs = [float(np.linalg.norm(pts[k + 1] - pts[k])) for k in range(nlegs)]
    return dict(src=src, phi=phi, walls=walls, vels=vels, last_len=last_len, pts=pts, dirs=dirs,
                legs=legs, inc=incidence_angles(dirs, walls), out=out_angles(dirs, walls), nlegs=nlegs, modes=modes, immersion=True,
                c_f=c_f, c_l=c_l, c_t=c_t, rho_f=float(rng.uniform(800, 1300)), rho_s=float(rng.uniform(2000, 9000)))


def arim_path(geom, arim, physical=False, attenuation=None, decoy=None, rigid=None, spin=None, crowd=None, int_source=False,
              from_end=False, broadcast_frames=False):
    """One-point Interfaces, Path and Rays for the traced ray (real arim objects).
    physical=True (immersion geometries only): couplant/block Materials, L/T modes and
    interface kinds / transmission-reflection flags as block_in_immersion builds them, so that
    the transmission-reflection functions can be evaluated on the path."""
    g = arim.geometry
    pts, dirs, walls, vels = geom["pts"], geom["dirs"], geom["walls"], geom["vels"]
    npts = len(pts)
    interfaces = []
    for i, p in enumerate(pts):
        if decoy is not None and 0 < i < npts - 1:
            # a second, WRONG sample of the wall (shifted along the wall by `decoy`) stored before the exact crossing
            # point: `path.decoy_rays` go through it (a first, coarse ray tracing), `path.rays` through the exact point
            alpha_ = walls[i - 1][1]
            tang = np.array([math.cos(alpha_), -math.sin(alpha_)])
            q = np.asarray(p) + decoy * tang
            points = g.Points(np.array([[q[0], 0.0, q[1]], [p[0], 0.0, p[1]]]))
        elif crowd is not None and 0 < i < npts - 1:
            # a finely sampled wall that is flat (untilted frames) everywhere EXCEPT at the crossing point, whose frame has
            # the true local normal (a narrow dent / weld toe): `crowd` samples, the crossing point at index crowd // 2
            alpha_ = walls[i - 1][1]
            tang = np.array([math.cos(alpha_), -math.sin(alpha_)])
            offs = (np.arange(crowd) - crowd // 2) * 0.2e-3
            pp = np.asarray(p)[None, :] + offs[:, None] * tang[None, :]
            points = g.Points(np.stack([pp[:, 0], np.zeros(crowd), pp[:, 1]], axis=1))
        elif int_source and i == 0:
            # the source typed as whole numbers (np.array([[0, 0, -20]])): the same point
            assert float(p[0]).is_integer() and float(p[1]).is_integer()
            points = g.Points(np.array([[int(p[0]), 0, int(p[1])]], dtype=np.int64))
        else:
            points = g.Points(np.array([[p[0], 0.0, p[1]]]))
        basis = g.default_orientations(points)
        if spin is not None:
            # the local frame spun about its own normal by spin[i]: the tangent vectors are arbitrary, so the legs are no longer
            # in the local plane Oxz (polar angles and lengths are unchanged)
            basis = basis.rotate(g.rotation_matrix_z(float(spin[i])))
        kwargs = {}
        if 0 < i < npts - 1:
            alpha = walls[i - 1][1]
            if crowd is not None and decoy is None:
                bc_ = np.array(basis.coords, copy=True)
                bc_[crowd // 2] = g.rotate(bc_[crowd // 2], g.rotation_matrix_y(alpha))
                basis = g.Points(bc_, basis.name)
            else:
                basis = basis.rotate(g.rotation_matrix_y(alpha))
            n = unit(alpha)
            kwargs["are_normals_on_inc_rays_side"] = bool(np.dot(-dirs[i - 1], n) > 0)
            kwargs["are_normals_on_out_rays_side"] = bool(np.dot(dirs[i], n) > 0)
        elif i == 0:
            kwargs["are_normals_on_out_rays_side"] = True
        else:
            kwargs["are_normals_on_inc_rays_side"] = True
        if rigid is not None:
            # the whole set-up (points and local frames) moved by one rigid rotation about O: every leg length and every
            # angle to a local normal is unchanged, but the rays leave the plane y = 0
            points = points.rotate(np.asarray(rigid, float))
            basis = basis.rotate(np.asarray(rigid, float))
        if physical and 0 < i < npts - 1:
            assert geom["immersion"]
            if walls[i - 1][2] == "T":
                kwargs.update(kind="fluid_solid", transmission_reflection="transmission")
            else:
                kwargs.update(kind="solid_fluid", transmission_reflection="reflection",
                              reflection_against=_couplant(geom, arim, attenuation))
        if broadcast_frames and (crowd is None or not (0 < i < npts - 1)):
            # one frame shared by all the points of the interface, stored as a stride-0 broadcast view (np.broadcast_to): same values
            bc0_ = np.array(np.asarray(basis.coords).reshape(-1, 3, 3)[0])
            basis = g.Points(np.broadcast_to(bc0_, np.asarray(basis.coords).shape), basis.name)
        interfaces.append(arim.Interface(points, basis, **kwargs))
    if physical:
        couplant, block = _couplant(geom, arim, attenuation), _block(geom, arim, attenuation)
        materials = [couplant] + [block] * (len(vels) - 1)
        path = arim.Path(interfaces, materials, [arim.Mode[m] for m in geom["modes"]])
    else:
        materials = [arim.Material(longitudinal_vel=v) for v in vels]
        path = arim.Path(interfaces, materials, ["L"] * len(vels))
    idx = 0 if decoy is None else 1
    if crowd is not None and decoy is None:
        # from_end: the same wall sample designated by its position counted from the END of the wall (k - numpoints)
        idx = crowd // 2 - (crowd if from_end else 0)
    rays = arim.ray.Rays(np.zeros((1, 1)), np.full((npts - 2, 1, 1), idx, arim.settings.INT), path.to_fermat_path())
    path.rays = rays
    if decoy is not None:
        path.decoy_rays = arim.ray.Rays(np.zeros((1, 1)), np.zeros((npts - 2, 1, 1), arim.settings.INT), path.to_fermat_path())
    return path


def library_path(geom, arim, attenuation=None):
    """The same Snell-exact ray on interfaces, normal-side flags, kinds and paths built by the LIBRARY
    (block_in_immersion.make_interfaces / make_paths): flat walls only (every tilt 0), the front wall holds the
    transmission point and, for a double skip, the second front-wall point; the rays are set by hand."""
    import arim.models.block_in_immersion as bim
    g = arim.geometry
    assert geom["immersion"] and all(w[1] == 0.0 for w in geom["walls"])
    pts, nlegs = geom["pts"], geom["nlegs"]
    P3 = lambda q: [float(q[0]), 0.0, float(q[1])]
    op = lambda arr, name: g.OrientedPoints(g.Points(np.array(arr, float), name), g.default_orientations(g.Points(np.array(arr, float), name)))
    probe_op = op([P3(pts[0])], "Probe")
    grid_op = op([P3(pts[-1])], "Grid")
    front = [P3(pts[1])] + ([P3(pts[3])] if nlegs == 4 else [])
    front_op = op(front, "Frontwall")
    back_op = op([P3(pts[2])], "Backwall") if nlegs >= 3 else None
    couplant, block = _couplant(geom, arim, attenuation), _block(geom, arim, attenuation)
    interfaces = bim.make_interfaces(couplant, probe_op, front_op, back_op, grid_op)
    paths = bim.make_paths(block, couplant, interfaces, max_number_of_reflection=nlegs - 2)
    path = paths["".join(geom["modes"][1:])]
    interior = np.zeros((nlegs - 1, 1, 1), arim.settings.INT)
    if nlegs == 4:
        interior[2, 0, 0] = 1
    path.rays = arim.ray.Rays(np.zeros((1, 1)), interior, path.to_fermat_path())
    return path
