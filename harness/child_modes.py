"""Small programs run in CHILD interpreters started in another mode than the check itself (python -O, another numba
threading layer): global interpreter / runtime modes under which the properties still have to hold.  Each prints one line
'OK' or 'FAIL: <what>' ('SKIP: <why>' when the mode is not available here)."""
import os
import subprocess
import sys

PRELUDE = r'''
import sys, os, warnings
warnings.filterwarnings("ignore")
import numpy as np
np.complex_ = np.complex128; np.float_ = np.float64
import arim, arim.ray, arim.geometry as g
'''

C14_OPTIMIZED = PRELUDE + r'''
# (python -O: assert statements are compiled away) the answers of a cached RayGeometry are read-only all the same, and a write
# attempt by a caller cannot alter a later answer
def oriented(coords):
    p = g.Points(np.array(coords, float))
    return p, g.default_orientations(p)
a = arim.Interface(*oriented([[0., 0., -10e-3], [1e-3, 0., -10e-3]]), are_normals_on_out_rays_side=True)
w = arim.Interface(*oriented([[x, 0., 0.] for x in np.linspace(-5e-3, 5e-3, 11)]), "fluid_solid", "transmission",
                   are_normals_on_inc_rays_side=False, are_normals_on_out_rays_side=True)
b = arim.Interface(*oriented([[2e-3, 0., 12e-3], [-1e-3, 0., 9e-3], [0., 0., 20e-3]]), are_normals_on_inc_rays_side=True)
path = arim.Path([a, w, b], [arim.Material(1480.), arim.Material(6300., 3100.)], ["L", "L"])
arim.ray.ray_tracing_for_paths([path])
rg = arim.ray.RayGeometry.from_path(path)
fresh = arim.ray.RayGeometry.from_path(path, use_cache=False)
bad = []
for name in ("inc_leg_size", "conventional_inc_angle", "inc_leg_polar", "signed_inc_angle"):
    ans = getattr(rg, name)(1)
    if ans.flags.writeable:
        bad.append(name + ": answer is writeable")
    try:
        ans *= 1e3
    except ValueError:
        pass
    if not np.array_equal(getattr(rg, name)(1), getattr(fresh, name)(1)):
        bad.append(name + ": a caller's in-place operation altered the next answer")
print("FAIL: " + "; ".join(bad) if bad else "OK")
'''

C13_WORKQUEUE = PRELUDE + r'''
# (numba threading layer 'workqueue') the minimisation gives the same answer, and completes, for every number of worker threads
import numba
rng = np.random.default_rng(5)
t1, t2 = rng.random((40, 300)), rng.random((300, 50))
ref = arim.ray.find_minimum_times(t1, t2, block_size=2000, numthreads=1)
bad = []
for nt in (2, 4):
    got = arim.ray.find_minimum_times(t1, t2, block_size=2000, numthreads=nt)
    if not (np.array_equal(got[0], ref[0]) and np.array_equal(got[1], ref[1])):
        bad.append("numthreads=%d differs from numthreads=1" % nt)
print("FAIL: " + "; ".join(bad) if bad else "OK")
'''


def run_child(program, src, interpreter_args=(), env_extra=None, timeout=600):
    env = dict(os.environ)
    env["PYTHONPATH"] = src
    env.pop("PYTHONOPTIMIZE", None)
    env.update(env_extra or {})
    p = subprocess.run([sys.executable, *interpreter_args, "-c", program], capture_output=True, text=True, env=env, timeout=timeout)
    lines = [l for l in p.stdout.splitlines() if l.startswith(("OK", "FAIL", "SKIP"))]
    if p.returncode != 0 or not lines:
        return "FAIL: the child interpreter ended with exit status %d: %s" % (p.returncode, (p.stderr or p.stdout)[-400:].replace("\n", " | "))
    return lines[-1]
