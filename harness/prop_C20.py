"""C20 — Configuration merging and file loading are deterministic and lossless.

Proof side : Props/C20.v (merge_lookup, merge_idempotent, load_order_independent, ...).
Tie        : (A) Config.merge / recursive_dict_merge on random nested dicts vs the Coq
             model `merge_map` (vm_compute inside coqc), compared as maps (key order
             ignored), leaf-vs-mapping conflicts included;
             (B) real `.arim` directories with 0-6 fragment files whose names are
             adversarial for sorting; the directory listing order is permuted by
             substituting pathlib.Path.glob inside this process (all k! orders for
             k <= 4); every order must give the same Config (spec) and that Config
             must equal the model's `load_conf` (fold of merge_map over the sorted
             names, extra keys, _resolve_filenames);
             (C) probe / material / grid / examination-object builders compared field
             by field with the configured values;
             (D) exp_data MAT files written with scipy.io.savemat (and the HDF5 reader
             emulated) and loaded with arim.io.brain.load_expdata;
             (E) the chain .arim directory -> load_conf -> frame_from_conf (resolved datafile,
             instrument_delay, probe / examination object from the configuration or from the file).
"""
import contextlib
import copy
import itertools
import os
import pathlib
import shutil

import numpy as np
import yaml

from common import Check, cZ, clist, cpair, cbool, copt, cstr

chk = Check("C20", design_ref="DESIGN.md §5 C20")
chk.proofs(extra_trusted=[
    "harness/prop_C20.py: pathlib.Path.glob substituted inside the harness process to permute the directory "
    "listing (no source hook); HDF5 reader of arim.io.brain substituted by an in-memory emulation (h5py absent)",
    "oracles (Section variables of the model): YAML parsing (yaml.safe_load), the set of names a directory listing "
    "returns, pathlib path joining/resolution, scipy.io MAT reading",
    "leaf values are compared through an interning table (type name, repr) -> integer built by the harness",
])
arim = chk.import_arim()
import arim.config, arim.io, arim.io.native as native, arim.io.brain as brain  # noqa: E402

rng = chk.rng
Q = chk.tier == "quick"
evaluations = 0
nontrivial = set()
samples = []

WORK = os.path.join(chk.work, "dirs")
shutil.rmtree(WORK, ignore_errors=True)
os.makedirs(WORK, exist_ok=True)

# ---------------------------------------------------------------------------
# leaves, interning, encoding as Coq terms
# ---------------------------------------------------------------------------
_intern = {}


def leaf_key(v):
    if isinstance(v, float) and v != v:
        return ("float", "nan")
    return (type(v).__name__, repr(v))


def intern(v):
    return _intern.setdefault(leaf_key(v), len(_intern))


def canon(c):
    """order-insensitive, type-aware canonical form (1, 1.0 and True stay different)."""
    if isinstance(c, dict):
        return ("map", tuple(sorted((k, canon(v)) for k, v in c.items())))
    return ("leaf", leaf_key(c))


def ccfg(c):
    if isinstance(c, dict):
        return "(Map " + citems(c) + ")"
    return f"(Leaf {cZ(intern(c))})"


def citems(d):
    return clist([cpair(cstr(k), ccfg(v)) for k, v in d.items()])


KEYS = ["a", "b", "c", "probe", "grid", "k9"]
FILEKEYS = ["filename", "datafile"]


def rand_leaf():
    r = rng.random()
    if r < 0.30:
        return int(rng.integers(-3, 12))
    if r < 0.50:
        return float(rng.integers(-40, 40)) / 8.0
    if r < 0.70:
        return str(rng.choice(["s", "on", "1", "a b", "x/y", "null", "~", "1e3", ""]))
    if r < 0.78:
        return None
    if r < 0.86:
        return bool(rng.integers(0, 2))
    return [int(x) for x in rng.integers(0, 5, size=int(rng.integers(0, 4)))]


def rand_cfg(depth, pmap=0.5, filekeys=0.0, maxkeys=5, badfile=True):
    d = {}
    n = int(rng.integers(1 if rng.random() < 0.9 else 0, maxkeys + 1))
    for k in rng.permutation(KEYS)[:n]:
        k = str(k)
        if depth > 0 and rng.random() < pmap:
            d[k] = rand_cfg(depth - 1, pmap, filekeys, maxkeys, badfile)
        else:
            d[k] = rand_leaf()
    if rng.random() < filekeys:
        k = str(rng.choice(FILEKEYS))
        r = rng.random() if badfile else 0.0
        if r < 0.91:
            d[k] = str(rng.choice(["data.mat", "sub/data.mat", "/abs/data.mat", "../up.mat", "."]))
        elif r < 0.94:
            d[k] = int(rng.integers(0, 5))          # TypeError in root_dir / v
        elif r < 0.97:
            d[k] = {"a": 1}                         # mapping under a target key: TypeError
        else:
            d[k] = None
    return d


def ref_merge(base, top):
    """the SPEC: base updated by top; a key of top wins, two mappings are merged
    recursively, untouched keys survive.  Pure (no aliasing)."""
    out = dict(base)
    for k, v in top.items():
        if k in out and isinstance(out[k], dict) and isinstance(v, dict):
            out[k] = ref_merge(out[k], v)
        else:
            out[k] = copy.deepcopy(v)
    return out


def spec_merge_lookup(base, top, got):
    """merge_lookup evaluated on the implementation's output, key by key (recursively)."""
    if not isinstance(got, dict) or set(got) != set(base) | set(top):
        return False
    for k in got:
        if k in top:
            v = top[k]
            if k in base and isinstance(base[k], dict) and isinstance(v, dict):
                if not spec_merge_lookup(base[k], v, got[k]):
                    return False
            elif canon(got[k]) != canon(v):
                return False
        elif canon(got[k]) != canon(base[k]):
            return False
    return True


COQ_IMPORTS = """From Coq Require Import List String Bool ZArith.
From Arim Require Import Model.Config.
Open Scope string_scope.
Definition zlookup (k : Z) (t : list (Z * Z)) : option Z :=
  match find (fun p => Z.eqb (fst p) k) t with Some p => Some (snd p) | None => None end.
Definition readf (frags : list (string * option (items (cfg Z)))) (n : string) : option (items (cfg Z)) :=
  match lookup n frags with Some r => r | None => None end.
Definition ceq := cfg_eqb Z.eqb.
Definition oceq (a b : option (cfg Z)) : bool :=
  match a, b with Some x, Some y => wfb x && ceq x y | None, None => true | _, _ => false end.
"""

# ---------------------------------------------------------------------------
# (A) Config.merge vs merge_map
# ---------------------------------------------------------------------------
merge_cases = []


def run_merge(base, top):
    global evaluations
    b0, t0 = copy.deepcopy(base), copy.deepcopy(top)
    conf = arim.config.Config(copy.deepcopy(base))
    ret = conf.merge(copy.deepcopy(top))
    got = dict(conf)
    repl = {"fn": "Config.merge", "base": b0, "top": t0, "got": got}
    if not spec_merge_lookup(b0, t0, got):
        chk.violation("merge:lookup", "Config.merge violates merge_lookup (later wins / nested merged / untouched survive)",
                      dict(repl, want=ref_merge(b0, t0)))
    # idempotence on the implementation
    again = arim.config.Config(copy.deepcopy(got))
    again.merge(copy.deepcopy(top))
    if canon(dict(again)) != canon(got):
        chk.violation("merge:idempotent", "merging the same mapping twice changes the result",
                      dict(repl, got_twice=dict(again)))
    # the plain function on plain dicts
    plain = copy.deepcopy(base)
    arim.config.recursive_dict_merge(plain, copy.deepcopy(top))
    if canon(plain) != canon(got):
        chk.violation("merge:function", "recursive_dict_merge and Config.merge disagree", dict(repl, plain=plain))
    # merge(None) is a no-op
    c2 = arim.config.Config(copy.deepcopy(got))
    c2.merge(None)
    if canon(dict(c2)) != canon(got):
        chk.violation("merge:none", "Config.merge(None) changed the configuration", repl)
    merge_cases.append((b0, t0, got, repl))
    evaluations += 1
    conflict = any(k in b0 and isinstance(b0[k], dict) != isinstance(t0[k], dict) for k in t0)
    nested = any(k in b0 and isinstance(b0[k], dict) and isinstance(t0[k], dict) for k in t0)
    chk.count(merge_kind="leaf-vs-mapping" if conflict else "nested-merge" if nested else
              "disjoint" if not (set(b0) & set(t0)) else "leaf-override")
    if b0 and t0:
        nontrivial.add(("merge", repr(canon(b0)), repr(canon(t0))))


# boundary families
run_merge({}, {})
run_merge({"a": 1}, {})
run_merge({}, {"a": {"b": {}}})
run_merge({"a": {"x": 1}}, {"a": 5})               # leaf replaces mapping
run_merge({"a": 5}, {"a": {"x": 1}})               # mapping replaces leaf
run_merge({"a": {"x": 1, "y": {"p": 1}}}, {"a": {"y": {"q": 2}, "z": 3}})
run_merge({"a": {}}, {"a": {}})
run_merge({"a": {"x": 1}}, {"a": {}})              # empty mapping merged: nothing lost
run_merge({"a": [1, 2]}, {"a": [3]})               # lists are leaves
run_merge({"a": 1, "b": 2, "c": 3}, {"c": 30, "a": 10})
for _ in range(150 if Q else 1500):
    run_merge(rand_cfg(3), rand_cfg(3))

def no_map_over_leaf(b, c):
    if not isinstance(b, dict):
        return not isinstance(c, dict)
    if not isinstance(c, dict):
        return True
    return all(no_map_over_leaf(b[k], c[k]) for k in b if k in c)


def shuffled(c):
    if not isinstance(c, dict):
        return copy.deepcopy(c)
    ks = [str(k) for k in rng.permutation(list(c))] if c else []
    return {k: shuffled(c[k]) for k in ks}


def merged(*ds):
    conf = arim.config.Config(copy.deepcopy(ds[0]))
    for d in ds[1:]:
        conf.merge(copy.deepcopy(d))
    return dict(conf)


n_assoc_ok = n_assoc_conflict = 0
for _ in range(100 if Q else 1000):
    a_, b_, c_ = rand_cfg(2), rand_cfg(2), rand_cfg(2)
    l_ = merged(a_, b_, c_)
    r_ = merged(a_, merged(b_, c_))
    if no_map_over_leaf(b_, c_):
        n_assoc_ok += 1
        if canon(l_) != canon(r_):
            chk.violation("merge:assoc-compatible", "merge is not associative on operands without a mapping over a leaf "
                          "(theorem merge_assoc_compatible)", {"a": a_, "b": b_, "c": c_, "(a.b).c": l_, "a.(b.c)": r_})
    else:
        n_assoc_conflict += 1
    # key order of the inputs is irrelevant for the result as a map (theorem merge_respects_key_order)
    if canon(merged(shuffled(a_), shuffled(b_))) != canon(merged(a_, b_)):
        chk.violation("merge:key-order", "the merged configuration depends on the key order of the operands",
                      {"a": a_, "b": b_})
    evaluations += 1
chk.cov["assoc_triples"] = {"compatible_checked": n_assoc_ok, "with_map_over_leaf_skipped": n_assoc_conflict}

# associativity is NOT a property of the code (Props/C20.v merge_assoc_refuted): replay the witness
wa, wb, wc = {"k": {"x": 1}}, {"k": 5}, {"k": {"y": 2}}
left = arim.config.Config(copy.deepcopy(wa)); left.merge(copy.deepcopy(wb)); left.merge(copy.deepcopy(wc))
bc = arim.config.Config(copy.deepcopy(wb)); bc.merge(copy.deepcopy(wc))
right = arim.config.Config(copy.deepcopy(wa)); right.merge(copy.deepcopy(dict(bc)))
assoc_witness = {"(a.b).c": dict(left), "a.(b.c)": dict(right)}
if not (dict(left) == {"k": {"y": 2}} and dict(right) == {"k": {"x": 1, "y": 2}}):
    chk.violation("merge:assoc-witness", "the non-associativity witness of the model is not reproduced by the code",
                  {"correspondence": "merge_assoc_refuted", **assoc_witness}, failing_input_found=False)
evaluations += 1

# ---------------------------------------------------------------------------
# (B) load_conf on real directories, listing order permuted
# ---------------------------------------------------------------------------
_orig_glob = pathlib.Path.glob
_glob_state = {"perm": None, "seen": None}


def _patched_glob(self, pattern, *a, **kw):
    res = list(_orig_glob(self, pattern, *a, **kw))
    if pattern == "conf.d/*.yaml":
        res.sort()
        _glob_state["seen"] = [p.name for p in res]
        perm = _glob_state["perm"]
        if perm is not None and len(perm) == len(res):
            res = [res[i] for i in perm]
    return res


@contextlib.contextmanager
def listing_order(perm):
    _glob_state["perm"] = perm
    _glob_state["seen"] = None
    pathlib.Path.glob = _patched_glob
    try:
        yield
    finally:
        pathlib.Path.glob = _orig_glob
        _glob_state["perm"] = None


NAME_FAMILIES = [
    ["a.yaml", "a_b.yaml", "aa.yaml", "a-b.yaml", "a.b.yaml", "ab.yaml", "a+.yaml", "a b.yaml"],
    ["A.yaml", "a.yaml", "B.yaml", "b.yaml", "Z.yaml", "_.yaml", "aB.yaml", "Ab.yaml"],
    ["10_x.yaml", "9_x.yaml", "2.yaml", "10.yaml", "1.yaml", "01.yaml", "001.yaml", "100.yaml"],
    ["00_base.yaml", "05_probe.yaml", "10_grid.yaml", "20_frame.yaml", "30_local.yaml", "99_last.yaml"],
    ["x.yaml", "x.yaml.yaml", "x..yaml", "xyaml.yaml", "x~.yaml", "X.yaml", "x0.yaml", "x,.yaml"],
]
ALPHA = "aAbB_-.019 z~+"


def rand_names(k):
    r = rng.random()
    if r < 0.7:
        fam = NAME_FAMILIES[int(rng.integers(0, len(NAME_FAMILIES)))]
        pool = list(fam)
        if rng.random() < 0.3:
            pool += NAME_FAMILIES[int(rng.integers(0, len(NAME_FAMILIES)))]
    else:
        pool = []
    names = []
    while len(names) < k:
        if pool and rng.random() < 0.85:
            n = str(pool[int(rng.integers(0, len(pool)))])
        else:
            n = "".join(ALPHA[int(i)] for i in rng.integers(0, len(ALPHA), size=int(rng.integers(1, 5)))) + ".yaml"
            if n.startswith(" ") or n.startswith("-"):
                n = "q" + n
        if n not in names:
            names.append(n)
    return names


def dump_yaml(obj):
    return yaml.safe_dump(obj, default_flow_style=bool(rng.integers(0, 2)) if isinstance(obj, dict) and obj else None)


ERR = "ERROR"


def ref_load(root, dsname, base, frags, listed, filepath_keys):
    """SPEC of load_conf written independently: base, updated by the fragments in
    alphabetical order of their file names, + extra keys + file name resolution."""
    conf = {} if base is None else base
    if not isinstance(conf, dict):
        return ERR
    conf = copy.deepcopy(conf)
    for n in sorted(listed):                 # str order = code-point order of the file names
        f = frags[n]
        if not isinstance(f, dict):
            return ERR
        conf = ref_merge(conf, f)
    conf["dataset_name"] = dsname
    conf["root_dir"] = root
    rd = conf.get("result_dir")
    if rd is None:
        conf["result_dir"] = root
    else:
        if not isinstance(rd, str):
            return ERR
        p = root / rd
        if not p.exists():
            return ERR
        conf["result_dir"] = p.resolve()
    if filepath_keys:
        def res(d):
            if not isinstance(d, dict):
                return d
            out = {}
            for k, v in d.items():
                if k in filepath_keys:
                    if not isinstance(v, str):
                        raise TypeError
                    out[k] = str(root / v)
                else:
                    out[k] = res(v)
            return out
        try:
            conf = res(conf)
        except TypeError:
            return ERR
    return conf


load_cases = []
n_loads = 0
dir_counter = [0]


def check_merge_mixed_keys():
    """mappings whose keys are not all strings (element numbers next to a 'default' entry, a null key): YAML allows them and the
    merge is defined key by key; compared with the pure reference merge (not with the Coq model, whose keys are strings)"""
    global evaluations
    def inject(d, depth):
        tgt = d
        for _ in range(depth):
            subs = [k for k, v in tgt.items() if isinstance(v, dict)]
            if not subs:
                break
            tgt = tgt[subs[int(rng.integers(0, len(subs)))]]
        tgt["weights"] = {"default": rand_leaf(), int(rng.integers(0, 9)): rand_leaf(), int(rng.integers(10, 99)): rand_leaf()}
        if rng.random() < 0.4:
            tgt["weights"][None] = rand_leaf()
        if rng.random() < 0.4:
            tgt["weights"][2.5] = rand_leaf()
    base, top = rand_cfg(2), rand_cfg(2)
    inject(base, int(rng.integers(0, 3)))
    inject(top, int(rng.integers(0, 3)))
    b0, t0 = copy.deepcopy(base), copy.deepcopy(top)
    want = ref_merge(b0, t0)
    outcomes = {}
    for nm, fn in (("Config.merge", lambda: (lambda c_: (c_.merge(copy.deepcopy(top)), dict(c_))[1])(arim.config.Config(copy.deepcopy(base)))),
                   ("recursive_dict_merge", lambda: (lambda d_: (arim.config.recursive_dict_merge(d_, copy.deepcopy(top)), d_)[1])(copy.deepcopy(base)))):
        try:
            outcomes[nm] = ("ok", fn())
        except Exception as e_:      # noqa: BLE001
            outcomes[nm] = ("raised " + type(e_).__name__, None)
    evaluations += 2
    chk.count(merge_mixed_keys="int / None / float keys next to string keys")
    def plain(x):
        return {k: plain(v) for k, v in x.items()} if isinstance(x, dict) or hasattr(x, "items") else x
    for nm, (st, got) in outcomes.items():
        if st != "ok" or plain(got) != want:
            chk.violation("merge:mixed-keys", f"{nm} on mappings with keys of several types (element numbers next to 'default') "
                          + (st if st != "ok" else "differs from base updated by top key by key"),
                          {"fn": nm, "base": repr(b0), "top": repr(t0), "got": repr(got), "want": repr(want)})
            return


def all_leaves(c, acc):
    if isinstance(c, dict):
        for v in c.values():
            all_leaves(v, acc)
    else:
        acc.append(c)


def run_load(k, base_mode="map", bad_fragment=False, result_dir_mode=None, filekeys=0.25, dirname=None,
             fixed=None):
    """one directory.  fixed = (base, {name: fragment}) to replay a given input."""
    global evaluations, n_loads
    dir_counter[0] += 1
    # (directory names may contain characters that are special in glob patterns: brackets, stars, question marks)
    dname = dirname or str(rng.choice(["case.arim", "plain", "x.arim.arim", "UPPER.ARIM", "d.arim", "block[2].arim", "scan [2024] a.arim", "q?x*.arim"]))
    top = pathlib.Path(WORK) / f"c{dir_counter[0]}"
    root = top / dname
    (root / "conf.d").mkdir(parents=True) if (k > 0 or rng.random() < 0.7) else root.mkdir(parents=True)
    root = root.resolve()
    if fixed is not None:
        base, frags = copy.deepcopy(fixed[0]), copy.deepcopy(fixed[1])
        names = list(frags)
    else:
        names = rand_names(k)
        shared_depth = int(rng.integers(1, 4))
        allow_bad = bool(rng.random() < 0.12)      # malformed values under file keys only in some directories
        base = rand_cfg(shared_depth, filekeys=filekeys, badfile=allow_bad) if base_mode == "map" else None
        if base_mode == "nonmap":
            base = 7
        frags = {n: rand_cfg(shared_depth, filekeys=filekeys * 0.6, badfile=allow_bad) for n in names}
        # every file also owns one key nobody else touches: it must survive whatever the rest does
        if isinstance(base, dict):
            base["zz_base_only"] = rand_leaf()
        for i_, n_ in enumerate(names):
            frags[n_][f"zz_only_{i_}"] = {"v": rand_leaf()} if rng.random() < 0.3 else rand_leaf()
        if bad_fragment and names:
            frags[names[int(rng.integers(0, len(names)))]] = None if rng.random() < 0.6 else 3
        if result_dir_mode is not None:
            val = {"sub": "res", "dot": ".", "missing": "nowhere", "null": None, "int": 4,
                   "map": {"a": 1}}[result_dir_mode]
            tgt = base if (isinstance(base, dict) and (not names or rng.random() < 0.5)) else (
                frags[names[-1]] if names and isinstance(frags[names[-1]], dict) else base)
            if isinstance(tgt, dict):
                tgt["result_dir"] = val
            (root / "res").mkdir(exist_ok=True)
    if base_mode != "absent":
        (root / "conf.yaml").write_text(dump_yaml(base) if base is not None or base_mode == "map" else "")
    for n in names:
        (root / "conf.d" / n).write_text("" if frags[n] is None else dump_yaml(frags[n]))
    # decoys that must not be loaded
    if (root / "conf.d").exists() and rng.random() < 0.4:
        for dn in ("decoy.yml", "decoy.yaml.bak", "README", "yaml"):
            (root / "conf.d" / dn).write_text("a: decoy\nzz_decoy: 1\n")
    expected_listing = sorted(n for n in names)
    dsname = dname[:-5] if dname.endswith(".arim") else dname
    fpk_mode = rng.random()
    filepath_keys = {"filename", "datafile"} if (fpk_mode < 0.6 or fixed is not None) else (
        False if fpk_mode < 0.8 else {"filename"} if (fpk_mode < 0.92 or not allow_bad) else {"a", "filename"})
    base_for_ref = None if base_mode == "absent" else (base if base_mode != "empty" else None)
    if base_mode == "empty":
        base_for_ref = 0  # an empty conf.yaml is not a mapping -> error
    want = ref_load(root, dsname, base_for_ref, frags, names, filepath_keys)

    k_ = len(names)
    if k_ <= 4:
        perms = list(itertools.permutations(range(k_)))
    else:
        perms = [tuple(range(k_)), tuple(reversed(range(k_)))] + [
            tuple(int(x) for x in rng.permutation(k_)) for _ in range(10 if Q else 30)]
    results = []
    errkinds = set()
    for perm in perms:
        with listing_order(list(perm)):
            try:
                kw = {} if filepath_keys == {"filename", "datafile"} and rng.random() < 0.5 else {
                    "filepath_keys": filepath_keys}
                got = native.load_conf(str(root) if rng.random() < 0.5 else root, **kw)
                if not isinstance(got, arim.config.Config):
                    chk.violation("load:type", "load_conf did not return a Config", {"dir": str(root)})
                got = dict(got)
            except Exception as e:  # noqa: BLE001
                got = ERR
                errkinds.add(f"{type(e).__name__}: {e}"[:200])
        n_loads += 1
        seen = _glob_state["seen"]
        results.append((perm, got))
    if seen is not None and seen != expected_listing:
        chk.violation("load:listing", "conf.d/*.yaml did not list exactly the .yaml files",
                      {"dir": str(root), "listed": seen, "yaml_files": expected_listing}, failing_input_found=False)
    repl = {"fn": "load_conf", "dir": str(root), "base": base, "base_mode": base_mode, "fragments": frags,
            "filepath_keys": filepath_keys, "alphabetical": sorted(names), "errors": sorted(errkinds)}
    c0 = canon(results[0][1])
    for perm, got in results[1:]:
        if canon(got) != c0:
            chk.violation("load:order", "load_conf result depends on the directory listing order",
                          dict(repl, listing_1=[names_sorted for names_sorted in [sorted(names)[i] for i in results[0][0]]],
                               result_1=results[0][1], listing_2=[sorted(names)[i] for i in perm], result_2=got))
            break
    # spec: base + fragments in alphabetical order (checked for every listing order)
    for perm, got in results:
        if canon(got) != canon(want):
            chk.violation("load:alphabetical", "load_conf differs from base updated by the fragments in alphabetical order",
                          dict(repl, listing=[sorted(names)[i] for i in perm], got=got, want=want))
            break
    # model case (last listing order tried)
    perm, got = results[-1]
    load_cases.append(dict(root=root, dsname=dsname, base=base_for_ref, base_mode=base_mode, frags=frags,
                           listing=[sorted(names)[i] for i in perm], filepath_keys=filepath_keys, got=got, repl=repl))
    evaluations += 1
    chk.count(fragments=k_, base=base_mode, load_result="error" if want == ERR else "ok")
    if k_ >= 2 and want != ERR:
        # non-trivial: at least two fragments, and the order matters for the outcome
        alt = ref_load(root, dsname, base_for_ref, frags, names, filepath_keys) if False else None
        rev = {} if base_for_ref is None else copy.deepcopy(base_for_ref)
        for n in sorted(names, reverse=True):
            rev = ref_merge(rev, frags[n])
        fwd = {} if base_for_ref is None else copy.deepcopy(base_for_ref)
        for n in sorted(names):
            fwd = ref_merge(fwd, frags[n])
        if canon(rev) != canon(fwd):
            nontrivial.add(("load", tuple(sorted(names)), repr(canon(fwd))))
            chk.count(order_sensitive="yes")
        else:
            chk.count(order_sensitive="no")
    return results


# corpus first: fixed directories (finding F3 of the design, adversarial names, leaf-vs-mapping conflicts)
import glob as _glob  # noqa: E402
import json as _json  # noqa: E402
corpus_files = sorted(_glob.glob(os.path.join("/verif", "corpus", "C20", "*.json")))
for cf in corpus_files:
    cc = _json.load(open(cf))
    if cc.get("kind") == "load":
        run_load(len(cc["fragments"]), fixed=(cc["base"], cc["fragments"]), dirname=cc["dirname"])
chk.cov["corpus_cases_replayed"] = len(corpus_files)

# aliasing (YAML anchors): the model is a tree.  With `b: *x` sharing the mapping of `a: &x {...}`, the in-place
# merge of a fragment into `a` also changes the untouched key `b`.  Recorded as an observation (stated
# assumption of the theorems); reported as a finding only when known_findings.txt lists the key.
for _ in range(12 if Q else 100):
    check_merge_mixed_keys()

_ad = pathlib.Path(WORK) / "alias.arim"
(_ad / "conf.d").mkdir(parents=True)
(_ad / "conf.yaml").write_text("a: &x {p: 1}\nb: *x\n")
(_ad / "conf.d" / "f.yaml").write_text("a: {p: 2}\n")
_ac = native.load_conf(_ad)
alias_changes_untouched = (_ac["b"] != {"p": 1})
_t = {"m": {"y": 1}}
_c = arim.config.Config({"a": 1}); _c.merge(_t); _c.merge({"m": {"y": 2}})
merge_keeps_reference_to_argument = (_t != {"m": {"y": 1}})
chk.cov["aliasing_observation"] = {
    "yaml_alias_untouched_key_changed": bool(alias_changes_untouched),
    "merge_argument_mutated_by_later_merge": bool(merge_keeps_reference_to_argument),
    "input": {"conf.yaml": "a: &x {p: 1}\nb: *x", "conf.d/f.yaml": "a: {p: 2}", "loaded": {"a": _ac["a"], "b": _ac["b"]}}}
if alias_changes_untouched and "load:yaml-alias" in chk.known:
    chk.violation("load:yaml-alias", "a YAML alias shares a sub-mapping: merging into one key changes the other", {})
evaluations += 1

for bm in ("map", "absent", "empty", "nonmap"):
    run_load(0, base_mode=bm)
    run_load(2, base_mode=bm)
for rdm in ("sub", "dot", "missing", "null", "int", "map"):
    run_load(int(rng.integers(0, 4)), result_dir_mode=rdm)
for _ in range(4 if Q else 30):
    run_load(int(rng.integers(1, 5)), bad_fragment=True)
for k in ([1, 2, 2, 3, 3, 3, 4, 4, 5, 6] * (4 if Q else 60)):
    run_load(k, base_mode="map" if rng.random() < 0.85 else "absent")

# ---------------------------------------------------------------------------
# model side of (A) and (B)
# ---------------------------------------------------------------------------
fails = chk.coq_failing(
    "cases_merge", COQ_IMPORTS, "items (cfg Z) * items (cfg Z) * cfg Z",
    [cpair(citems(b), citems(t), ccfg(g)) for (b, t, g, _) in merge_cases],
    "fun c => let '(b, t, got) := c in let r := Map (merge_map b t) in wfb r && ceq r got")
for i in fails[:5]:
    b, t, g, repl = merge_cases[i]
    chk.violation("merge:model", "Config.merge differs from the model merge_map",
                  dict(repl, correspondence="Model.Config.merge_map", want=ref_merge(b, t)),
                  failing_input_found=not spec_merge_lookup(b, t, g))


def load_case_literal(c):
    root = c["root"]
    leaves = []
    if isinstance(c["base"], dict):
        all_leaves(c["base"], leaves)
    for f in c["frags"].values():
        if isinstance(f, dict):
            all_leaves(f, leaves)
    nones = [intern(v) for v in leaves if v is None]
    rdt, jt = [], []
    for v in leaves:
        if isinstance(v, str):
            jt.append((intern(v), intern(str(root / v))))
            p = root / v
            if p.exists():
                rdt.append((intern(v), intern(p.resolve())))
    fpk = c["filepath_keys"]
    base = c["base"]
    if c["base_mode"] == "absent":
        basef = "None"
    elif isinstance(base, dict):
        basef = f"(Some (Some {citems(base)}))"
    else:
        basef = "(Some None)"
    frags = clist([cpair(cstr(n), ("(Some " + citems(f) + ")") if isinstance(f, dict) else "None")
                   for n, f in c["frags"].items()])
    got = "None" if c["got"] == ERR else f"(Some {ccfg(c['got'])})"
    zp = lambda ab: cpair(cZ(ab[0]), cZ(ab[1]))
    return cpair(cZ(intern(c["dsname"])), cZ(intern(root)), clist(sorted(set(nones)), cZ), clist(rdt, zp), clist(jt, zp),
                 clist(sorted(fpk) if fpk else [], cstr), cbool(bool(fpk)), basef, frags,
                 clist(c["listing"], cstr), got)


fails = chk.coq_failing(
    "cases_load", COQ_IMPORTS,
    "Z * Z * list Z * list (Z * Z) * list (Z * Z) * list string * bool * option (option (items (cfg Z))) "
    "* list (string * option (items (cfg Z))) * list string * option (cfg Z)",
    [load_case_literal(c) for c in load_cases],
    "fun c => let '(ds, root, nones, rdt, jt, tgs, rf, basef, frags, listing, got) := c in "
    "oceq (load_conf Z (readf frags) ds root (fun v => existsb (Z.eqb v) nones) (fun v => zlookup v rdt) "
    "(fun v => zlookup v jt) (fun k => existsb (String.eqb k) tgs) rf basef listing) got",
    shard=100)
for i in fails[:5]:
    c = load_cases[i]
    chk.violation("load:model", "load_conf differs from the model (Model.Config.load_conf)",
                  dict(c["repl"], correspondence="Model.Config.load_conf", listing=c["listing"], got=c["got"]),
                  failing_input_found=False)

# ---------------------------------------------------------------------------
# (C) builders: configured values reach the objects unchanged
# ---------------------------------------------------------------------------
import inspect  # noqa: E402
import arim.geometry as geometry  # noqa: E402
import arim.core as core  # noqa: E402


def dy(lo, hi, m=3):
    return float(rng.integers(lo, hi)) / 2 ** m


def via_yaml(conf):
    """through the public YAML entry point (floats are dumped with repr: exact)"""
    return arim.io.load_conf_from_str(yaml.safe_dump(conf))


_GRID_NAMES = ["xmin", "xmax", "ymin", "ymax", "zmin", "zmax", "pixel_size"]
_grid_calls = []
_OrigGrid = geometry.Grid


def _recording_grid(*a, **k):
    rec = dict(zip(_GRID_NAMES, a))
    rec.update(k)
    _grid_calls.append(rec)
    return _OrigGrid(*a, **k)


grid_cases = []


def expected_num(lo, hi, d):
    return 1 if lo == hi else round((abs(hi - lo) + d) / d)


def check_grid(malformed=None):
    global evaluations
    g = {}
    # extents are whole multiples of the pixel size (all dyadic): then both end points are grid
    # points and every configured number is observable exactly on the Grid object
    ps = [2.0 ** -int(rng.integers(0, 4)) for _ in range(3)]
    if rng.random() < 0.7:
        ps = [ps[0]] * 3
    for ax, d in (("x", ps[0]), ("z", ps[2])):
        lo = dy(-80, 80)
        r = rng.random()
        hi = lo if r < 0.12 else lo + d * int(rng.integers(1, 40)) if r < 0.94 else lo - d * int(rng.integers(1, 9))
        if 0.12 <= r < 0.35:
            # an extent of a whole number of pixels PLUS HALF a pixel: the documented count round((L + d) / d) is a tie
            # (Python rounds half to even); both ends are still grid points
            hi = lo + d * (int(rng.integers(0, 40)) + 0.5)
        g[ax + "min"], g[ax + "max"] = lo, hi
    ymode = rng.random()
    if ymode < 0.25:
        g["ymin"] = dy(-8, 8)
        g["ymax"] = g["ymin"] + ps[1] * int(rng.integers(0, 9))
    elif ymode < 0.35:
        g["ymin"] = -ps[1] * int(rng.integers(1, 9))            # only one of the two given
    elif ymode < 0.45:
        g["ymax"] = ps[1] * int(rng.integers(1, 9))
    g["pixel_size"] = ps if ps[0] != ps[1] or ps[1] != ps[2] or rng.random() < 0.2 else ps[0]
    conf = {"grid": g, "other": {"xmin": 99.0}}
    if malformed == "nogrid":
        conf = {"other": 1}
    elif malformed == "leaf":
        conf = {"grid": 5}
    elif malformed == "missing":
        del g["zmax"]
    conf = via_yaml(conf)
    conf0 = copy.deepcopy(dict(conf))
    _grid_calls.clear()
    geometry.Grid = _recording_grid
    try:
        grid = native.grid_from_conf(conf)
        err = None
    except Exception as e:  # noqa: BLE001
        grid, err = None, type(e).__name__
    finally:
        geometry.Grid = _OrigGrid
    repl = {"fn": "grid_from_conf", "conf": conf0, "error": err}
    if canon(dict(conf)) != canon(conf0):
        chk.violation("grid:mutates", "grid_from_conf modified the configuration", repl)
    kw = _grid_calls[0] if _grid_calls else None
    grid_cases.append((conf0, kw, repl))
    if malformed is None:
        if grid is None:
            chk.violation("grid:error", "grid_from_conf rejected a valid grid configuration", repl)
        else:
            ps3 = g["pixel_size"] if isinstance(g["pixel_size"], list) else [g["pixel_size"]] * 3
            want = {"xmin": g["xmin"], "xmax": g["xmax"], "ymin": g.get("ymin", 0.0), "ymax": g.get("ymax", 0.0),
                    "zmin": g["zmin"], "zmax": g["zmax"]}
            got = {"xmin": float(grid.xvect[0]), "xmax": float(grid.xvect[-1]), "ymin": float(grid.yvect[0]),
                   "ymax": float(grid.yvect[-1]), "zmin": float(grid.zvect[0]), "zmax": float(grid.zvect[-1])}
            nums = {"numx": expected_num(want["xmin"], want["xmax"], ps3[0]),
                    "numy": expected_num(want["ymin"], want["ymax"], ps3[1]),
                    "numz": expected_num(want["zmin"], want["zmax"], ps3[2])}
            gotn = {"numx": len(grid.xvect), "numy": len(grid.yvect), "numz": len(grid.zvect)}
            if got != want or nums != gotn:
                chk.violation("grid:values", "Grid built from the configuration does not carry the configured values",
                              dict(repl, want=want, got=got, want_num=nums, got_num=gotn))
            nontrivial.add(("grid", repr(sorted(g.items(), key=lambda kv: kv[0]))))
    elif grid is not None:
        chk.violation("grid:accepts", "grid_from_conf accepted a malformed configuration", repl)
    evaluations += 1
    chk.count(grid_case=malformed or ("y-given" if ymode < 0.25 else "y-half" if ymode < 0.45 else "y-default"))


for _ in range(40 if Q else 400):
    check_grid()
for mf in ("nogrid", "leaf", "missing"):
    check_grid(mf)


def rand_att():
    r = rng.random()
    if r < 0.4:
        v = dy(0, 64)
        return v, (lambda f, v=v: v)
    if r < 0.7:
        v = dy(0, 64)
        return {"kind": "constant", "value": v}, (lambda f, v=v: v)
    co = [dy(0, 16) for _ in range(int(rng.integers(1, 4)))]
    return {"kind": "polynomial", "coeffs": co}, (lambda f, co=co: sum(c * (f / 1e6) ** i for i, c in enumerate(co)))


def rand_material(solid):
    m = {"longitudinal_vel": dy(8000, 56000)}
    want = {"longitudinal_vel": m["longitudinal_vel"], "transverse_vel": None, "density": None,
            "state_of_matter": None, "metadata": {}}
    atts = {}
    if solid or rng.random() < 0.2:
        m["transverse_vel"] = want["transverse_vel"] = dy(4000, 28000)
    if rng.random() < 0.8:
        m["density"] = want["density"] = dy(4000, 80000) if rng.random() < 0.7 else int(rng.integers(500, 9000))
    if rng.random() < 0.8:
        m["state_of_matter"] = want["state_of_matter"] = "solid" if solid else "liquid"
    if rng.random() < 0.6:
        m["metadata"] = want["metadata"] = {"long_name": str(rng.choice(["Water", "Aluminium", "X"])), "n": int(rng.integers(0, 9))}
    for which in ("longitudinal_att", "transverse_att"):
        if rng.random() < 0.5:
            m[which], atts[which] = rand_att()
    return m, want, atts


def material_diffs(mat, want, atts):
    out = []
    if mat is None:
        return ["material is None"]
    for k in ("longitudinal_vel", "transverse_vel", "density"):
        g_ = getattr(mat, k)
        if (g_ is None) != (want[k] is None) or (g_ is not None and (float(g_) != float(want[k]) or not isinstance(g_, float))):
            out.append((k, g_, want[k]))
    som = mat.state_of_matter
    if (som.name if som is not None else None) != want["state_of_matter"]:
        out.append(("state_of_matter", som, want["state_of_matter"]))
    if dict(mat.metadata) != want["metadata"]:
        out.append(("metadata", mat.metadata, want["metadata"]))
    for which in ("longitudinal_att", "transverse_att"):
        f_ = getattr(mat, which)
        if (f_ is None) != (which not in atts):
            out.append((which, "present" if f_ is not None else None, which in atts))
        elif f_ is not None:
            for fr in (1e6, 4e6, np.array([2e6, 8e6])):
                gotv = np.asarray(f_(fr), dtype=float)
                wantv = np.asarray(atts[which](fr), dtype=float) + np.zeros_like(gotv)
                if gotv.shape != np.shape(fr) or not np.array_equal(gotv, wantv):
                    out.append((which, gotv, wantv))
    return out


def rand_wall():
    lo = dy(-400, 0)
    w = {"numpoints": int(rng.integers(2, 12)), "xmin": lo, "xmax": lo + dy(1, 800), "z": dy(-40, 400)}
    if rng.random() < 0.4:
        w["y"] = dy(-40, 40)          # the optional entry of a wall: its own y (default 0), independent of the other wall
    return w


def wall_diffs(w, conf, name):
    if w is None:
        return ["wall missing"]
    x, y, z = w.points.x, w.points.y, w.points.z
    out = []
    if len(x) != conf["numpoints"] or x[0] != conf["xmin"] or x[-1] != conf["xmax"]:
        out.append(("x", [len(x), float(x[0]), float(x[-1])], conf))
    if not (np.all(z == conf["z"]) and np.all(y == conf.get("y", 0.0))):
        out.append(("yz", [float(y[0]), float(z[0])], [conf.get("y", 0.0), conf["z"]]))
    if w.points.name != name:
        out.append(("name", w.points.name, name))
    if not np.array_equal(x, np.linspace(conf["xmin"], conf["xmax"], conf["numpoints"])):
        out.append(("linspace",))
    return out


exam_cases = []
EXAM_CODE = {"BlockInImmersion": 0, "BlockInContact": 1, "NotImplementedError": 2}


def check_exam(present):
    global evaluations
    conf, wants = {}, {}
    for k in present:
        if k.endswith("material"):
            conf[k], w, a = rand_material(solid=(k != "couplant_material"))
            wants[k] = (w, a)
        else:
            conf[k] = rand_wall()
    conf["unrelated"] = {"block_material": 1}
    conf = via_yaml(conf)
    conf0 = copy.deepcopy(dict(conf))
    try:
        obj = arim.io.examination_object_from_conf(conf)
        kind = type(obj).__name__
    except NotImplementedError:
        obj, kind = None, "NotImplementedError"
    except Exception as e:  # noqa: BLE001
        obj, kind = None, "error:" + type(e).__name__
    repl = {"fn": "examination_object_from_conf", "conf": conf0, "kind": kind}
    exam_cases.append((conf0, EXAM_CODE.get(kind, 9), repl))
    if canon(dict(conf)) != canon(conf0):
        chk.violation("exam:mutates", "examination_object_from_conf modified the configuration", repl)
    want_kind = ("BlockInImmersion" if all(k in present for k in ("frontwall", "backwall", "couplant_material", "block_material"))
                 else "BlockInContact" if "block_material" in present else "NotImplementedError")
    diffs = []
    if kind != want_kind:
        diffs.append(("kind", kind, want_kind))
    elif obj is not None:
        diffs += [("block",) + tuple(d) for d in material_diffs(obj.block_material, *wants["block_material"])]
        if obj.material is not obj.block_material:
            diffs.append(("material alias",))
        if kind == "BlockInImmersion":
            diffs += [("couplant",) + tuple(d) for d in material_diffs(obj.couplant_material, *wants["couplant_material"])]
        else:
            if "under_material" in present:
                diffs += [("under",) + tuple(d) for d in material_diffs(obj.under_material, *wants["under_material"])]
            elif obj.under_material is not None:
                diffs.append(("under_material not None",))
        for wn, nm in (("frontwall", "Frontwall"), ("backwall", "Backwall")):
            if wn in present:
                diffs += [(wn,) + tuple(d) for d in wall_diffs(getattr(obj, wn), conf0[wn], nm)]
            elif getattr(obj, wn) is not None:
                diffs.append((wn + " not None",))
    if diffs:
        chk.violation("exam:values", "examination object built from the configuration does not carry the configured values",
                      dict(repl, differences=diffs, want_kind=want_kind))
    evaluations += 1
    chk.count(exam_kind=want_kind)
    nontrivial.add(("exam", tuple(sorted(present)), repr(canon(conf0))))


ALLK = ["frontwall", "backwall", "couplant_material", "block_material", "under_material"]
for mask in range(32):
    for _ in range(1 if Q else 6):
        check_exam([k for i, k in enumerate(ALLK) if mask >> i & 1])
for _ in range(10 if Q else 100):
    check_exam(ALLK[:4])


# material_attenuation_from_conf on its own (float and mapping forms)
for _ in range(10 if Q else 100):
    c, f = rand_att()
    att = arim.io.material_attenuation_from_conf(c)
    for fr in (1e6, 5e6):
        if float(att(fr)) != float(f(fr)):
            chk.violation("att:values", "material_attenuation_from_conf does not carry the configured values",
                          {"conf": c, "frequency": fr, "got": float(att(fr)), "want": float(f(fr))})
    evaluations += 1


def roty(deg):
    a = np.deg2rad(deg)
    return np.array([[np.cos(a), 0.0, np.sin(a)], [0.0, 1.0, 0.0], [-np.sin(a), 0.0, np.cos(a)]])


probe_cases = []
PROBE_CODE = {"error": 0, "library": 1, "matrix": 2}


def check_probe(mode):
    global evaluations
    numx, numy = int(rng.integers(1, 9)), (1 if rng.random() < 0.6 else int(rng.integers(2, 4)))
    px, py = dy(1, 32, 5), dy(1, 32, 5)
    freq = dy(8, 800) * 1e6
    dims = [dy(1, 16, 5), dy(1, 64, 5), dy(0, 4, 5)]
    pc = {"frequency": freq, "numx": numx, "pitch_x": px, "numy": numy, "pitch_y": py}
    if rng.random() < 0.7:
        pc["dimensions"] = dims
    if rng.random() < 0.6:
        pc["metadata"] = {"long_name": "Modelled", "probe_type": "linear", "short_name": None}
    loc = {}
    if rng.random() < 0.7:
        loc["ref_element"] = str(rng.choice(["first", "last", "mean"])) if rng.random() < 0.7 else int(rng.integers(0, numx * numy))
    if rng.random() < 0.7:
        loc["standoff"] = -dy(1, 400, 4)
    if rng.random() < 0.7:
        loc["angle_deg"] = float(rng.choice([0.0, 12.5, -7.25, 90.0, 30.0]))
    conf = {"probe_location": loc, "other": 3}
    if mode in ("matrix", "both"):
        conf["probe"] = pc
    if mode in ("library", "both"):
        conf["probe_key"] = "ima_50_MHz_128_1d"
    conf = via_yaml(conf)
    conf0 = copy.deepcopy(dict(conf))
    apply_loc = bool(rng.random() < 0.8)
    try:
        probe = arim.io.probe_from_conf(conf, apply_probe_location=apply_loc)
        err = None
    except Exception as e:  # noqa: BLE001
        probe, err = None, type(e).__name__
    repl = {"fn": "probe_from_conf", "conf": conf0, "apply_probe_location": apply_loc, "error": err}
    code = 0 if probe is None else (1 if probe.numelements == 128 and mode != "matrix" else 2)
    probe_cases.append((conf0, code, repl))
    after = copy.deepcopy(dict(conf))
    if isinstance(after.get("probe"), dict) and isinstance(after["probe"].get("metadata"), dict):
        # Probe keeps the configured metadata dict itself and make_matrix_probe fills in numx/numy/pitch_x/
        # pitch_y/probe_type when absent: tolerated only if the added values ARE the configured ones
        md, md0 = after["probe"]["metadata"], conf0["probe"]["metadata"]
        for k_ in ("numx", "numy", "pitch_x", "pitch_y"):
            if k_ in md and k_ not in md0 and (md[k_] == conf0["probe"][k_] or (md[k_] != md[k_] and conf0["probe"][k_.replace("pitch_", "num")] == 1)):
                del md[k_]
                chk.count(probe_metadata_filled_in_conf=k_)
    if canon(after) != canon(conf0):
        chk.violation("probe:mutates", "probe_from_conf modified the configuration", dict(repl, after=after))
    diffs = []
    if mode == "both":
        if probe is not None:
            diffs.append(("accepted both 'probe' and 'probe_key'",))
    elif probe is None:
        diffs.append(("rejected a valid configuration", err))
    else:
        if mode == "matrix":
            n = numx * numy
            x = np.arange(numx) * px
            x = x - x.mean()
            y = np.arange(numy) * py
            y = y - y.mean()
            want_pcs = np.stack([np.tile(x, numy), np.repeat(y, numx), np.zeros(n)], axis=1)
            if probe.numelements != n or float(probe.frequency) != freq:
                diffs.append(("numelements/frequency", probe.numelements, float(probe.frequency)))
            if "dimensions" in pc:
                if probe.dimensions is None or not np.array_equal(probe.dimensions.coords, np.tile(dims, (n, 1))):
                    diffs.append(("dimensions", None if probe.dimensions is None else probe.dimensions.coords[0], dims))
            elif probe.dimensions is not None:
                diffs.append(("dimensions not None",))
            md = probe.metadata
            if md.get("numx") != numx or md.get("numy") != numy:
                diffs.append(("metadata numx/numy", md.get("numx"), md.get("numy")))
            if "metadata" in pc and (md.get("long_name") != "Modelled" or md.get("probe_type") != "linear"):
                diffs.append(("metadata", dict(md)))
        else:
            want_pcs = arim.probes["ima_50_MHz_128_1d"].locations_pcs.coords
            n = 128
            if float(probe.frequency) != 5e6:
                diffs.append(("library frequency", float(probe.frequency)))
        if probe.numelements == n:
            want = want_pcs.copy()
            if apply_loc:
                if "ref_element" in loc:
                    r = loc["ref_element"]
                    ref = want[0] if r == "first" else want[-1] if r == "last" else want.mean(axis=0) if r == "mean" else want[r]
                    want = want - ref
            # the PCS has its origin on the reference element; rotation/translation do not change PCS coordinates
            pcs_tol = 0.0 if (not apply_loc or loc.get("angle_deg", 0.0) == 0.0) else 1e-12 * max(1.0, np.abs(want).max())
            if np.abs(probe.locations_pcs.coords - want).max() > pcs_tol:
                diffs.append(("locations_pcs", probe.locations_pcs.coords[:2], want[:2]))
            if apply_loc:
                if "angle_deg" in loc:
                    want = want @ roty(loc["angle_deg"]).T
                if "standoff" in loc:
                    want = want + np.array([0.0, 0.0, loc["standoff"]])
            tol = 0.0 if (not apply_loc or loc.get("angle_deg", 0.0) == 0.0) else 1e-12 * max(1.0, np.abs(want).max())
            if np.abs(probe.locations.coords - want).max() > tol:
                diffs.append(("locations", probe.locations.coords[:2], want[:2]))
    if diffs:
        chk.violation("probe:values", "probe built from the configuration does not carry the configured values",
                      dict(repl, differences=diffs))
    evaluations += 1
    chk.count(probe_mode=mode)
    nontrivial.add(("probe", mode, repr(canon(conf0))))


for _ in range(30 if Q else 300):
    check_probe("matrix")
for _ in range(6 if Q else 40):
    check_probe("library")
for _ in range(3 if Q else 10):
    check_probe("both")

# model side of (C)
okw = lambda kw: "None" if kw is None else f"(Some {citems(kw)})"
fails = chk.coq_failing(
    "cases_grid", COQ_IMPORTS, "items (cfg Z) * option (items (cfg Z))",
    [cpair(citems(c), okw(kw)) for (c, kw, _) in grid_cases],
    f"fun c => let '(conf, got) := c in oceq (option_map Map (grid_kwargs {cZ(intern(0.0))} conf)) (option_map Map got)")
for i in fails[:5]:
    c, kw, repl = grid_cases[i]
    chk.violation("grid:model", "arguments reaching Grid(...) differ from the model grid_kwargs",
                  dict(repl, correspondence="Model.Config.grid_kwargs", got_kwargs=kw), failing_input_found=False)
fails = chk.coq_failing(
    "cases_exam", COQ_IMPORTS, "items (cfg Z) * Z",
    [cpair(citems(c), cZ(code)) for (c, code, _) in exam_cases],
    "fun c => let '(conf, got) := c in Z.eqb got (match exam_dispatch conf with ExImmersion => 0 | ExContact => 1 "
    "| ExNotImplemented => 2 end)")
for i in fails[:5]:
    c, code, repl = exam_cases[i]
    chk.violation("exam:model", "examination_object_from_conf dispatch differs from the model exam_dispatch",
                  dict(repl, correspondence="Model.Config.exam_dispatch"), failing_input_found=False)
fails = chk.coq_failing(
    "cases_probe", COQ_IMPORTS, "items (cfg Z) * Z",
    [cpair(citems(c), cZ(code)) for (c, code, _) in probe_cases],
    "fun c => let '(conf, got) := c in Z.eqb got (match probe_dispatch conf with PsError => 0 | PsLibrary => 1 "
    "| PsMatrix => 2 end)")
for i in fails[:5]:
    c, code, repl = probe_cases[i]
    chk.violation("probe:model", "probe_from_conf source selection differs from the model probe_dispatch",
                  dict(repl, correspondence="Model.Config.probe_dispatch"), failing_input_found=False)

# ---------------------------------------------------------------------------
# (D) BRAIN exp_data files
# ---------------------------------------------------------------------------
import scipy.io as sio  # noqa: E402

brain_cases = []
time_cases = []
MATDIR = os.path.join(chk.work, "mat")
shutil.rmtree(MATDIR, ignore_errors=True)
os.makedirs(MATDIR, exist_ok=True)


def capture(numel, kind):
    if kind == "fmc":
        tx = np.repeat(np.arange(numel), numel)
        rx = np.tile(np.arange(numel), numel)
    elif kind == "fmc-rx-major":
        rx = np.repeat(np.arange(numel), numel)
        tx = np.tile(np.arange(numel), numel)
    elif kind == "hmc":
        tx, rx = np.array([(i, j) for i in range(numel) for j in range(i, numel)]).T
    elif kind == "hmc-lower":
        tx, rx = np.array([(i, j) for i in range(numel) for j in range(0, i + 1)]).T
    else:
        # a random subset of the pairs in random order (Frame rejects duplicated pairs)
        n = int(rng.integers(2, numel * numel + 1))
        pairs = rng.permutation(numel * numel)[:n]
        tx, rx = pairs // numel, pairs % numel
    if kind == "sub-aperture-fmc":
        # only the elements lo .. numel-1 fire and receive (a sub-aperture of the array): element 1 never appears
        lo = int(rng.integers(1, numel)) if numel > 1 else 0
        act = np.arange(lo, numel)
        tx = np.repeat(act, len(act))
        rx = np.tile(act, len(act))
    if kind == "few-transmitters":
        # only elements 1 and 2 fire, every element receives (receiver indices exceed the largest transmitter index)
        nt_ = min(2, numel)
        tx = np.repeat(np.arange(nt_), numel)
        rx = np.tile(np.arange(numel), nt_)
    if kind == "shuffled-fmc":
        tx = np.repeat(np.arange(numel), numel)
        rx = np.tile(np.arange(numel), numel)
        p = rng.permutation(len(tx))
        tx, rx = tx[p], rx[p]
    return tx + 1, rx + 1          # stored 1-based


class _FakeH5:
    pass


def check_brain(numel, kind, S, reader, layout="SN", idx_dtype=np.float64, timemode="linear", material="new"):
    """reader: 'scipy' (real MAT v7 file through scipy.io) or 'hdf5' (the h5py reader emulated in
    memory: reversed dimensions, C order).  layout 'NS' = a file that stores one timetrace per
    MATLAB row (violates the layout the loader documents): must be rejected, not mis-read."""
    global evaluations
    tx1, rx1 = capture(numel, kind)
    N = len(tx1)
    td = rng.integers(-99, 100, size=(N, S)).astype(float)          # td[i, j] = sample j of timetrace i
    if rng.random() < 0.3:
        td = td / 8.0
    t0, dt = dy(0, 64), 2.0 ** -int(rng.integers(1, 6))
    tv = t0 + dt * np.arange(S)
    if timemode == "jitter-ok":
        tv = tv + dt * 0.004 * rng.choice([-1.0, 1.0], size=S)      # steps within 1 % of the mean
    elif timemode == "nonlinear":
        tv = tv.copy()
        tv[S // 2:] += dt * 0.5                                       # one step 50 % too long
    xc = (np.arange(numel) - (numel - 1) / 2) * dy(1, 16, 4)
    yc, zc = np.full(numel, dy(-4, 4)), np.zeros(numel)
    hx, hy = dy(1, 8, 5), dy(1, 64, 4)
    freq = dy(8, 80) * 1e6
    vel = dy(8000, 56000)
    # the element half-width is the LARGER of |x1 - xc|, |x2 - xc| (either side may be the larger one)
    fx1, fx2 = (1.0, 0.5) if rng.random() < 0.5 else (0.25, 1.0)
    fy1, fy2 = (1.0, 0.5) if rng.random() < 0.5 else (0.5, 1.0)
    arr = {"el_xc": xc, "el_yc": yc, "el_zc": zc, "el_x1": xc - hx * fx1, "el_x2": xc + hx * fx2,
           "el_y1": yc - hy * fy1, "el_y2": yc + hy * fy2,
           "el_z1": zc, "el_z2": zc}
    fname = os.path.join(MATDIR, f"exp_{len(brain_cases)}.mat")
    stored = td.T.copy() if layout == "SN" else td.copy()            # MATLAB matrix as saved
    if reader == "scipy":
        exp = {"time_data": stored, "tx": tx1.astype(idx_dtype)[None, :], "rx": rx1.astype(idx_dtype)[None, :],
               "time": tv[:, None], "array": dict({k: v[None, :] for k, v in arr.items()}, centre_freq=np.array([[freq]]))}
        if material == "new":
            exp["material"] = {"vel_spherical_harmonic_coeffs": np.array([[vel]])}
        else:
            exp["ph_velocity"] = np.array([[vel]])
        sio.savemat(fname, {"exp_data": exp})
        ctx = contextlib.nullcontext()
    else:
        # what h5py returns for a MATLAB 7.3 file: dimensions reversed, C-contiguous
        exp = {"time_data": np.ascontiguousarray(stored.T), "tx": tx1.astype(idx_dtype)[:, None],
               "rx": rx1.astype(idx_dtype)[:, None], "time": tv[None, :],
               "material": {"vel_spherical_harmonic_coeffs": np.array([[vel]])}}
        arrd = dict({k: v[:, None] for k, v in arr.items()}, centre_freq=np.array([[freq]]))

        @contextlib.contextmanager
        def fake_reader():
            o1, o2, o3 = brain._load_from_scipy, brain._import_h5py, brain._load_from_hdf5

            def _raise(file):
                raise brain.NotHandledByScipy("emulated MAT 7.3 file")
            brain._load_from_scipy = _raise
            brain._import_h5py = lambda: _FakeH5()
            brain._load_from_hdf5 = lambda file: (exp, arrd, str(file))
            try:
                yield
            finally:
                brain._load_from_scipy, brain._import_h5py, brain._load_from_hdf5 = o1, o2, o3
        ctx = fake_reader()
    with ctx:
        try:
            frame = brain.load_expdata(fname)
            err = None
        except brain.InvalidExpData as e:
            frame, err = None, f"InvalidExpData: {e}"[:200]
        except Exception as e:  # noqa: BLE001
            frame, err = None, f"{type(e).__name__}: {e}"[:200]
    repl = {"fn": "load_expdata", "reader": reader, "layout": layout, "numelements": numel, "capture": kind, "N": N, "S": S,
            "index_dtype": np.dtype(idx_dtype).name, "timemode": timemode, "stored_tx": tx1, "stored_rx": rx1,
            "time_data": td, "time": tv, "error": err}
    must_reject = timemode == "nonlinear" or (layout == "NS" and N != S)
    degenerate = numel < 2 or N < 2 or S < 2
    diffs = []
    if frame is None:
        if not (must_reject or degenerate):
            diffs.append(("a valid file was rejected", err))
    else:
        if must_reject and timemode == "nonlinear":
            diffs.append(("a non linearly spaced time vector was accepted",))
        tt = np.asarray(frame.timetraces)
        if tt.shape != (N, S) or not np.array_equal(tt, td):
            if not (layout == "NS" and N == S):      # square + wrong layout: undecidable for any loader
                diffs.append(("timetraces", tt.shape, (N, S)))
        if not (np.array_equal(np.asarray(frame.tx, dtype=np.int64), tx1 - 1) and
                np.array_equal(np.asarray(frame.rx, dtype=np.int64), rx1 - 1)):
            diffs.append(("tx/rx", np.asarray(frame.tx), np.asarray(frame.rx)))
        if np.asarray(frame.tx).dtype.kind not in "ui" or np.asarray(frame.rx).dtype.kind not in "ui":
            diffs.append(("index dtype", str(np.asarray(frame.tx).dtype)))
        if timemode == "linear":
            if not np.array_equal(frame.time.samples, tv) or frame.time.start != tv[0] or frame.time.step != dt:
                diffs.append(("time axis", frame.time.samples[:3], tv[:3]))
        elif len(frame.time) != S or frame.time.start != tv[0] or abs(frame.time.step - (tv[-1] - tv[0]) / (S - 1)) > 1e-12 * dt:
            diffs.append(("time axis (jitter)", frame.time.start, frame.time.step))
        loc = frame.probe.locations.coords
        if not np.array_equal(loc, np.stack([xc, yc, zc], axis=1)):
            diffs.append(("element positions", loc[:2]))
        dim = frame.probe.dimensions.coords
        if not np.array_equal(dim, np.stack([np.full(numel, 2 * hx), np.full(numel, 2 * hy), np.zeros(numel)], axis=1)):
            diffs.append(("element dimensions", dim[:2], [2 * hx, 2 * hy, 0.0]))
        if float(frame.probe.frequency) != freq:
            diffs.append(("frequency", float(frame.probe.frequency), freq))
        v = np.asarray(frame.examination_object.material.longitudinal_vel, dtype=float)
        if v.size != 1 or float(v.reshape(-1)[0]) != vel:
            diffs.append(("velocity", v, vel))
        if frame.metadata.get("from_brain") != fname:
            diffs.append(("metadata", frame.metadata.get("from_brain")))
    if diffs:
        chk.violation("brain:" + diffs[0][0].split()[0], "load_expdata does not return the stored acquisition unchanged "
                      "(samples / time axis / element positions / 0-based indices / one row per timetrace)",
                      dict(repl, differences=diffs))
    if frame is not None and not (layout == "NS"):
        brain_cases.append((N, S, reader == "scipy", td, np.asarray(frame.timetraces), tx1, rx1, np.asarray(frame.tx),
                            np.asarray(frame.rx), repl))
    if timemode != "jitter-ok" and (frame is not None or timemode == "nonlinear"):
        time_cases.append((tv, None if frame is None else (frame.time.start, frame.time.step, len(frame.time)), must_reject or frame is not None, repl))
    evaluations += 1
    chk.count(brain_reader=reader, brain_capture=kind, brain_outcome="loaded" if frame is not None else "rejected",
              brain_index_dtype=np.dtype(idx_dtype).name)
    if frame is not None:
        nontrivial.add(("brain", reader, kind, N, S, np.dtype(idx_dtype).name))


KINDS = ["fmc", "fmc-rx-major", "hmc", "hmc-lower", "random", "shuffled-fmc", "sub-aperture-fmc", "few-transmitters"]
DTYPES = [np.float64, np.uint8, np.uint16, np.int32, np.float32]
for reader in ("scipy", "hdf5"):
    for kind in KINDS:
        for numel in ((2, 3, 5) if Q else (2, 3, 4, 5, 6, 8)):
            S = int(rng.integers(2, 14))
            check_brain(numel, kind, S, reader, idx_dtype=DTYPES[int(rng.integers(0, len(DTYPES)))])
    # square data (N == S): the shape cannot reveal a wrong transposition
    check_brain(3, "fmc", 9, reader)
    check_brain(2, "fmc", 4, reader)
    check_brain(4, "hmc", 10, reader)
    check_brain(3, "fmc", 7, reader, timemode="nonlinear")
    check_brain(3, "hmc", 9, reader, timemode="jitter-ok")
    check_brain(1, "fmc", 6, reader)                     # one element: squeeze() makes everything 0-d
    check_brain(3, "fmc", 1, reader)                     # one sample
check_brain(3, "fmc", 5, "scipy", material="old")        # old files: ph_velocity
check_brain(3, "hmc", 5, "scipy", layout="NS")           # wrong layout, N != S: must be rejected
check_brain(3, "fmc", 9, "scipy", layout="NS")           # wrong layout, square: undecidable, indices still checked
for _ in range(0 if Q else 120):
    check_brain(int(rng.integers(2, 9)), str(rng.choice(KINDS)), int(rng.integers(2, 20)),
                str(rng.choice(["scipy", "hdf5"])), idx_dtype=DTYPES[int(rng.integers(0, len(DTYPES)))])

# (E) the whole chain: .arim directory -> load_conf (datafile resolved) -> frame_from_conf
def check_frame_from_conf():
    global evaluations
    numel = int(rng.integers(2, 5))
    S = int(rng.integers(3, 9))
    tx1, rx1 = capture(numel, "fmc")
    N = len(tx1)
    td = rng.integers(-50, 50, size=(N, S)).astype(float)
    t0, dt = dy(0, 64), 2.0 ** -int(rng.integers(1, 5))
    tv = t0 + dt * np.arange(S)
    xc = (np.arange(numel) - (numel - 1) / 2) * 0.5
    z = np.zeros(numel)
    arr = {"el_xc": xc, "el_yc": z, "el_zc": z, "el_x1": xc - 0.125, "el_x2": xc + 0.125, "el_y1": z - 1, "el_y2": z + 1,
           "el_z1": z, "el_z2": z}
    root = pathlib.Path(MATDIR) / f"chain{len(brain_cases)}_{evaluations}.arim"
    sub = str(rng.choice(["", "data"]))
    (root / sub).mkdir(parents=True, exist_ok=True)
    (root / "conf.d").mkdir(exist_ok=True)
    exp = {"time_data": td.T.copy(), "tx": tx1.astype(float)[None, :], "rx": rx1.astype(float)[None, :], "time": tv[:, None],
           "array": dict({k: v[None, :] for k, v in arr.items()}, centre_freq=np.array([[5e6]])),
           "material": {"vel_spherical_harmonic_coeffs": np.array([[6300.0]])}}
    sio.savemat(str(root / sub / "exp.mat"), {"exp_data": exp})
    delay = None if rng.random() < 0.25 else dy(-16, 16)
    conf_numx = numel + 1
    base = {"frame": {"datafile": "wrong.mat"}, "probe": {"frequency": 2e6, "numx": conf_numx, "pitch_x": 0.25, "numy": 1, "pitch_y": 1.0},
            "probe_location": {"ref_element": "first"},
            "block_material": {"longitudinal_vel": 6000.0, "transverse_vel": 3000.0, "density": 2700.0, "state_of_matter": "solid"}}
    frag1 = {"frame": {"datafile": os.path.join(sub, "exp.mat")}}
    if delay is not None:
        frag1["frame"]["instrument_delay"] = delay
    (root / "conf.yaml").write_text(yaml.safe_dump(base))
    (root / "conf.d" / "10_frame.yaml").write_text(yaml.safe_dump(frag1))
    (root / "conf.d" / "05_early.yaml").write_text(yaml.safe_dump({"frame": {"datafile": "also_wrong.mat"}, "probe": {"frequency": 1e6}}))
    use_p, use_e = bool(rng.integers(0, 2)), bool(rng.integers(0, 2))
    results = []
    for perm in ([0, 1], [1, 0]):
        with listing_order(perm):
            conf = arim.io.load_conf(root)
        frame = arim.io.frame_from_conf(conf, use_probe_from_conf=use_p, use_examination_object_from_conf=use_e)
        diffs = []
        if conf["frame"]["datafile"] != str(root.resolve() / sub / "exp.mat"):
            diffs.append(("datafile", conf["frame"]["datafile"]))
        if conf["probe"]["frequency"] != 1e6:
            diffs.append(("probe.frequency", conf["probe"]["frequency"]))
        want_start = tv[0] - (delay if delay is not None else 0.0)
        if frame.time.start != want_start or frame.time.step != dt or len(frame.time) != S:
            diffs.append(("time", frame.time.start, want_start, frame.time.step, dt))
        if not np.array_equal(frame.timetraces, td) or not np.array_equal(np.asarray(frame.tx, dtype=int), tx1 - 1) \
                or not np.array_equal(np.asarray(frame.rx, dtype=int), rx1 - 1):
            diffs.append(("data",))
        if frame.probe.numelements != (conf_numx if use_p else numel) or float(frame.probe.frequency) != (1e6 if use_p else 5e6):
            diffs.append(("probe", frame.probe.numelements, float(frame.probe.frequency)))
        v = float(np.asarray(frame.examination_object.material.longitudinal_vel).reshape(-1)[0])
        if v != (6000.0 if use_e else 6300.0) or (type(frame.examination_object).__name__ == "BlockInContact") != use_e:
            diffs.append(("examination object", v, type(frame.examination_object).__name__))
        if diffs:
            chk.violation("chain:values", "load_conf + frame_from_conf do not deliver the configured / stored values",
                          {"dir": str(root), "base": base, "fragment_10": frag1, "listing": perm, "instrument_delay": delay,
                           "use_probe_from_conf": use_p, "use_examination_object_from_conf": use_e, "differences": diffs})
            break
    evaluations += 1
    chk.count(chain="delay" if delay is not None else "no-delay")
    nontrivial.add(("chain", numel, S, delay, use_p, use_e))


for _ in range(6 if Q else 40):
    check_frame_from_conf()

zl = lambda a: clist([cZ(int(x)) for x in a])
# samples are k/8: scale by 8 to integers
fails = chk.coq_failing(
    "cases_brain", COQ_IMPORTS + "From Arim Require Import Base.ListX.\n",
    "Z * Z * bool * list Z * list (list Z) * list Z * list Z * list Z * list Z",
    [cpair(cZ(N), cZ(S), cbool(sc), zl((td * 8).reshape(-1)), clist([zl(r * 8) for r in got]), zl(tx1), zl(rx1), zl(gtx), zl(grx))
     for (N, S, sc, td, got, tx1, rx1, gtx, grx, _) in brain_cases],
    "fun c => let '(n, s, sc, mem, got, tx1, rx1, gtx, grx) := c in "
    "let nn := Z.to_nat n in let ss := Z.to_nat s in "
    "let T := load_timetraces Z (if (sc : bool) then view_scipy Z nn ss mem else view_hdf5 Z nn ss mem) in "
    "Nat.eqb (a_rows T) (List.length got) && "
    "list_eqb (list_eqb Z.eqb) (map (fun i => map (fun j => aget Z 0%Z T i j) (seq 0 (a_cols T))) (seq 0 (a_rows T))) got "
    "&& list_eqb Z.eqb (load_indices tx1) gtx && list_eqb Z.eqb (load_indices rx1) grx")
for i in fails[:5]:
    repl = brain_cases[i][-1]
    chk.violation("brain:model", "load_expdata differs from the model (load_timetraces / load_indices)",
                  dict(repl, correspondence="Model.Config.load_timetraces, load_indices"), failing_input_found=False)
from common import cQ  # noqa: E402
tcase = lambda t: "None" if t is None else f"(Some ({cQ(t[0])}, {cQ(t[1])}, {cZ(t[2])}))"
fails = chk.coq_failing(
    "cases_time", COQ_IMPORTS + "From Coq Require Import QArith.\n",
    "list Q * option (Q * Q * Z)",
    [cpair(clist([cQ(float(x)) for x in tv]), tcase(got)) for (tv, got, _, _) in time_cases],
    "fun c => let '(tv, got) := c in match time_from_vect tv, got with "
    "| Some (a, b, n), Some (a', b', n') => Qeq_bool a a' && Qeq_bool b b' && Z.eqb (Z.of_nat n) n' "
    "| None, None => true | _, _ => false end")
for i in fails[:5]:
    tv, got, _, repl = time_cases[i]
    if len(tv) < 2:
        continue      # 0-d time vector: rejected by both, for different reasons
    chk.violation("time:model", "Time.from_vect (through load_expdata) differs from the model time_from_vect",
                  dict(repl, correspondence="Model.Config.time_from_vect", got=got), failing_input_found=False)
shutil.rmtree(MATDIR, ignore_errors=True)
samples.append({"load_expdata": {k: brain_cases[0][-1][k] for k in ("reader", "numelements", "capture", "N", "S")},
                "stored_tx": brain_cases[0][5][:6], "loaded_tx": brain_cases[0][7][:6]})

samples.append({"load_conf": {"fragments_alphabetical": load_cases[0]["repl"]["alphabetical"],
                              "result": {k: v for k, v in load_cases[0]["got"].items() if k == "a"}
                              if isinstance(load_cases[0]["got"], dict) else load_cases[0]["got"]}})
samples.append({"non_associativity_witness_on_code": assoc_witness})

shutil.rmtree(WORK, ignore_errors=True)
# ---- the glue model of the public functions (Model files added later, see manifest text) tied to the library on every run:
#      inputs generated here, the library run on them, the model evaluated on the same inputs by vm_compute inside coqc
import ties.tie_C20 as _tie_glue  # noqa: E402
_tie_n = _tie_glue.run(chk, arim, rng, Q)
chk.cov["glue_model_tie_comparisons"] = int(_tie_n or 0)

chk.finish(
    evaluations=evaluations,
    distinct_nontrivial=len(nontrivial),
    rule=("merge cases: distinct (base, top) pairs, both non-empty; load cases: distinct (sorted fragment names, merged "
          "result) with >= 2 fragments whose merge order changes the outcome (forward vs reverse alphabetical fold differ)"),
    samples=samples,
    extra={"load_conf_calls": n_loads, "exhaustive": False},
    assumptions=["no aliasing between sub-mappings of one document (YAML anchors) — the model is a tree"],
)
