"""C13 — Results do not depend on threads, block sizes or task completion order.

Proof side : Props/C13.v (chunks/tiles partition the output for every size and
             block size; any permutation of tasks with disjoint write sets gives
             the same array, equal to the unchunked kernel).
Tie        : (a) chunk_array / the task lists really built by find_minimum_times
             and distance_pairwise are compared with the Coq model (evaluated by
             vm_compute inside coqc) — slices, tiles, order of submission;
             (b) the premises of the theorem are checked on the REAL tasks: write
             regions (byte ranges of the output views) pairwise disjoint and
             covering, inputs not written;
             (c) the conclusion is exercised: the captured tasks are executed in
             every order (k! for k<=5, random orders otherwise), and through real
             thread pools / numba thread counts; results must be bit-identical to
             each other and to the unchunked kernel.
"""
import concurrent.futures
import hashlib
import itertools
import math
import os
import sys
import threading

import numpy as np

from common import Check, cZ, clist, cpair

chk = Check("C13", design_ref="DESIGN.md §5 C13")
chk.proofs(extra_trusted=[
    "harness/prop_C13.py: recording executor substituted for arim.ray.ThreadPoolExecutor and "
    "concurrent.futures.ThreadPoolExecutor inside the harness process (no source hook)",
    "modelled, not verified: atomicity of a task, numba's threading layer, OS scheduling (sampled with real pools)",
])
arim = chk.import_arim()
import numba
import arim.ray, arim.geometry, arim.helpers, arim.im.das, arim.model  # noqa: E402
from arim import geometry as g

rng = chk.rng
Q = chk.tier == "quick"
evaluations = 0
nontrivial = set()
samples = []


def bits(a):
    return np.ascontiguousarray(a).reshape(-1).view(np.uint8)


def h(a):
    return hashlib.sha1(np.ascontiguousarray(a).view(np.uint8)).hexdigest()


# ---------------------------------------------------------------------------
# (a) chunk_array vs model `chunks`
# ---------------------------------------------------------------------------
chunk_cases = []
lens = list(range(0, 14)) + [int(x) for x in rng.integers(14, 400, size=30 if Q else 200)]
for length in lens:
    bs = {1, 2, 3, max(1, length - 1), max(1, length), length + 1, 2 * length + 3}
    bs |= {int(x) for x in rng.integers(1, max(2, length + 5), size=4 if Q else 12)}
    for b in sorted(bs):
        for (shape, axis) in (((length,), 0), ((length, 3), 0), ((2, length), 1), ((2, length), -1),
                              ((2, length, 3), 1), ((2, length, 3), -2), ((length, 2, 3), -3), ((2, 3, length), -1),
                              ((2, 1, length, 3), -2), ((2, length, 1, 3), -3), ((length,), -1)):
            sels = list(arim.helpers.chunk_array(shape, b, axis=axis))
            ax = list(range(len(shape)))[axis]
            got = []
            probe = np.arange(int(np.prod(shape))).reshape(shape)
            for sel in sels:
                sub = probe[sel]
                # recover the slice actually applied on the split axis
                if len(sel) == 2 and sel[0] is Ellipsis:
                    sl = sel[1]
                elif sel[-1] is Ellipsis and len(sel) == 2:
                    sl = sel[0]
                else:
                    sl = sel[ax]
                s0, s1, st = sl.indices(length)
                assert st == 1
                got.append((s0, max(s0, s1)))
                # and the selector must not restrict any other axis
                want_shape = list(shape)
                want_shape[ax] = max(s0, s1) - s0
                if list(sub.shape) != want_shape:
                    chk.violation("chunk_array:other-axis", "chunk_array selector restricts another axis",
                                  {"shape": shape, "block": b, "axis": axis, "sub_shape": sub.shape})
            chunk_cases.append((length, b, got, {"shape": shape, "axis": axis}))
            evaluations += 1
            chk.count(chunk_len_class="0" if length == 0 else "1" if length == 1 else
                      "divisible" if length % b == 0 else "b>len" if b > length else "ragged")
            nontrivial.add(("chunk", length, b))

# ---------------------------------------------------------------------------
# recording executor
# ---------------------------------------------------------------------------
class _Fut:
    def result(self):
        return None


class RecordingExecutor:
    """Collects submitted tasks; at exit runs them in the order chosen by
    RecordingExecutor.order (a function: ntasks -> permutation) and keeps them."""
    order = None
    last = None

    def __init__(self, max_workers=None):
        self.tasks = []
        self.max_workers = max_workers

    def __enter__(self):
        return self

    def submit(self, fn, *args):
        self.tasks.append((fn, args))
        return _Fut()

    def __exit__(self, *exc):
        RecordingExecutor.last = self
        n = len(self.tasks)
        perm = list(range(n)) if RecordingExecutor.order is None else RecordingExecutor.order(n)
        assert sorted(perm) == list(range(n))
        for k in perm:
            fn, args = self.tasks[k]
            fn(*args)
        return False


def region(view, base):
    """(r0, r1, c0, c1) of a basic-slice view of the 2-D C-contiguous array base."""
    off = view.__array_interface__["data"][0] - base.__array_interface__["data"][0]
    s0, s1 = base.strides
    if view.size == 0:
        return None
    r0, c0 = off // s0, (off % s0) // s1
    return (int(r0), int(r0 + view.shape[0]), int(c0), int(c0 + view.shape[1]))


def with_recording(mod_attr_owner, attr, fn):
    orig = getattr(mod_attr_owner, attr)
    setattr(mod_attr_owner, attr, RecordingExecutor)
    try:
        return fn()
    finally:
        setattr(mod_attr_owner, attr, orig)


def orders_for(n):
    if n <= (4 if Q else 6):
        for p in itertools.permutations(range(n)):
            yield list(p)
    else:
        yield list(range(n))[::-1]
        for _ in range(12 if Q else 120):
            yield [int(x) for x in rng.permutation(n)]


# ---------------------------------------------------------------------------
# (b)+(c) find_minimum_times
import time as _t; _T=[_t.time()]
def lap(name):
    chk.cov.setdefault('section_wall_s',{})[name]=round(_t.time()-_T[0],1); _T[0]=_t.time()
lap('chunk_array')
# ---------------------------------------------------------------------------
fmt_cases = []
n_orders = 0


def check_fmt(n, m, p, bs, dtype):
    global evaluations, n_orders
    t1 = rng.integers(0, 6, size=(n, m)).astype(dtype) if rng.random() < 0.5 else rng.random((n, m)).astype(dtype)
    t2 = rng.integers(0, 6, size=(m, p)).astype(dtype) if rng.random() < 0.5 else rng.random((m, p)).astype(dtype)
    if rng.random() < 0.3:
        t1 = np.asfortranarray(t1)
    if rng.random() < 0.3:
        t2 = np.asfortranarray(t2)
    h1, h2 = h(t1), h(t2)
    # reference = the same public function with one tile and one thread, cross-checked with
    # a numpy brute force (min over k of time_1[i,k] + time_2[k,j]; first minimiser)
    ref_t, ref_i = arim.ray.find_minimum_times(t1, t2, block_size=n * m * p * 4 + 64, numthreads=1)
    sums = np.asarray(t1)[:, :, None] + np.asarray(t2)[None, :, :]
    if not (np.array_equal(ref_t, sums.min(axis=1)) and
            np.array_equal(np.take_along_axis(sums, ref_i[:, None, :].astype(np.int64), axis=1)[:, 0, :], ref_t)):
        chk.violation("fmt:definition", "find_minimum_times (one tile, one thread) is not min_k time_1[i,k]+time_2[k,j]",
                      {"n": n, "m": m, "p": p, "time_1": t1, "time_2": t2, "times": ref_t, "indices": ref_i})
    repl = {"fn": "find_minimum_times", "n": n, "m": m, "p": p, "block_size": bs, "dtype": str(dtype),
            "time_1": t1, "time_2": t2}

    def call():
        return arim.ray.find_minimum_times(t1, t2, block_size=bs, numthreads=3)

    RecordingExecutor.order = None
    out_t, out_i = with_recording(arim.ray, "ThreadPoolExecutor", call)
    rec = RecordingExecutor.last
    tl = []
    for fn, args in rec.tasks:
        arrs = [a for a in args if isinstance(a, np.ndarray)]
        w_t = [a for a in arrs if np.shares_memory(a, out_t)]
        w_i = [a for a in arrs if np.shares_memory(a, out_i)]
        if len(w_t) != 1 or len(w_i) != 1:
            chk.violation("fmt:views", "a task does not receive exactly one view of each output", dict(repl))
            continue
        r, r2 = region(w_t[0], out_t), region(w_i[0], out_i)
        if r != r2:
            chk.violation("fmt:views", "times and indices tiles of one task differ", dict(repl, tiles=[r, r2]))
        if r is not None:
            tl.append(r)
    fmt_cases.append((n, m, p, bs, tl, repl))
    # premises on the real write regions
    cover = np.zeros((n, p), dtype=np.int64)
    for (r0, r1, c0, c1) in tl:
        cover[r0:r1, c0:c1] += 1
    if not np.all(cover == 1):
        chk.violation("fmt:partition", "find_minimum_times tasks do not write disjoint regions covering the output",
                      dict(repl, tiles=tl, cover=cover))
    if not (np.array_equal(out_t, ref_t) and np.array_equal(out_i, ref_i)):
        chk.violation("fmt:unchunked", "tiled find_minimum_times differs from the unchunked kernel",
                      dict(repl, tiles=tl, got_times=out_t, want_times=ref_t, got_idx=out_i, want_idx=ref_i))
    # every / many execution orders
    for perm in orders_for(len(rec.tasks)):
        RecordingExecutor.order = lambda k, perm=perm: perm
        o_t, o_i = with_recording(arim.ray, "ThreadPoolExecutor", call)
        n_orders += 1
        if not (np.array_equal(o_t, ref_t) and np.array_equal(o_i, ref_i)):
            chk.violation("fmt:order", "find_minimum_times result depends on the task execution order",
                          dict(repl, order=perm, got_times=o_t, want_times=ref_t))
            break
    RecordingExecutor.order = None
    # real pools
    for nt in ((1, 2, 16) if Q else (1, 2, 3, 8, 16)):
        o_t, o_i = arim.ray.find_minimum_times(t1, t2, block_size=bs, numthreads=nt)
        if not (np.array_equal(o_t, ref_t) and np.array_equal(o_i, ref_i)):
            chk.violation("fmt:threads", f"find_minimum_times differs with numthreads={nt}", dict(repl, numthreads=nt))
    if h(t1) != h1 or h(t2) != h2:
        chk.violation("fmt:inputs", "find_minimum_times modified its inputs", repl)
    evaluations += 1
    chk.count(fmt_tasks=min(len(tl), 10))
    nontrivial.add(("fmt", n, m, p, bs))


sizes = [(1, 1, 1), (1, 3, 1), (2, 1, 5), (5, 7, 3), (4, 4, 4), (7, 2, 9), (3, 5, 8)]
for _ in range(12 if Q else 120):
    sizes.append(tuple(int(x) for x in rng.integers(1, 14 if Q else 40, size=3)))
for (n, m, p) in sizes:
    cand = {1, m, m + 1, 2 * m, 2 * m + 1, n * m, n * m * p + 7, 50000}
    cand |= {int(x) for x in rng.integers(1, 4 * m * max(n, p) + 2, size=2 if Q else 5)}
    for bs in sorted(cand)[: (6 if Q else 20)]:
        check_fmt(n, m, p, bs, np.float64 if rng.random() < 0.8 else np.float32)

lap('find_minimum_times')
# ---------------------------------------------------------------------------
# distance_pairwise
# ---------------------------------------------------------------------------
dist_cases = []


def check_dist(n1, n2, bs, dtype):
    global evaluations, n_orders
    p1 = g.Points(rng.integers(-8, 8, size=(n1, 3)).astype(dtype))
    p2 = g.Points(rng.integers(-8, 8, size=(n2, 3)).astype(dtype))
    h1, h2 = h(p1.coords), h(p2.coords)
    ref = g.distance_pairwise(p1, p2, block_size=6 * (n1 + n2) + 600, numthreads=1)
    d = p1.coords[:, None, :].astype(np.float64) - p2.coords[None, :, :].astype(np.float64)
    if not np.allclose(ref, np.sqrt((d * d).sum(axis=2)), rtol=1e-6 if dtype == np.float32 else 1e-14, atol=0):
        chk.violation("dist:definition", "distance_pairwise (one tile) is not the Euclidean distance table",
                      {"points1": p1.coords, "points2": p2.coords, "got": ref})
    repl = {"fn": "distance_pairwise", "num1": n1, "num2": n2, "block_size": bs, "points1": p1.coords,
            "points2": p2.coords}

    def call():
        return g.distance_pairwise(p1, p2, block_size=bs, numthreads=3)

    RecordingExecutor.order = None
    out = with_recording(concurrent.futures, "ThreadPoolExecutor", call)
    rec = RecordingExecutor.last
    tl = [region(a, out) for fn, args in rec.tasks for a in args if isinstance(a, np.ndarray) and np.shares_memory(a, out)]
    tl = [t for t in tl if t is not None]
    dist_cases.append((n1, n2, bs, tl, repl))
    cover = np.zeros((n1, n2), dtype=np.int64)
    for (r0, r1, c0, c1) in tl:
        cover[r0:r1, c0:c1] += 1
    if not np.all(cover == 1):
        chk.violation("dist:partition", "distance_pairwise tasks do not write disjoint regions covering the output",
                      dict(repl, tiles=tl))
    if not np.array_equal(out, ref):
        chk.violation("dist:unchunked", "tiled distance_pairwise differs from the unchunked kernel",
                      dict(repl, got=out, want=ref))
    for perm in orders_for(len(rec.tasks)):
        RecordingExecutor.order = lambda k, perm=perm: perm
        o = with_recording(concurrent.futures, "ThreadPoolExecutor", call)
        n_orders += 1
        if not np.array_equal(o, ref):
            chk.violation("dist:order", "distance_pairwise result depends on the task execution order",
                          dict(repl, order=perm))
            break
    RecordingExecutor.order = None
    for nt in ((1, 16) if Q else (1, 2, 3, 8, 16)):
        o = g.distance_pairwise(p1, p2, block_size=bs, numthreads=nt)
        if not np.array_equal(o, ref):
            chk.violation("dist:threads", f"distance_pairwise differs with numthreads={nt}", dict(repl, numthreads=nt))
    # preallocated output
    pre = np.full((n1, n2), -5.0, dtype=dtype)
    o = g.distance_pairwise(p1, p2, out=pre, block_size=bs, numthreads=2)
    if not np.array_equal(pre, ref):
        chk.violation("dist:out", "distance_pairwise with preallocated out differs", repl)
    if h(p1.coords) != h1 or h(p2.coords) != h2:
        chk.violation("dist:inputs", "distance_pairwise modified its inputs", repl)
    evaluations += 1
    chk.count(dist_tasks=min(len(tl), 10))
    nontrivial.add(("dist", n1, n2, bs))


dsizes = [(1, 1), (1, 5), (6, 1), (7, 13), (12, 12)] + [tuple(int(x) for x in rng.integers(1, 30 if Q else 80, size=2))
                                                        for _ in range(8 if Q else 80)]
for (n1, n2) in dsizes:
    cand = {1, 6, 7, 12, 6 * n1, 6 * n2 + 1, 6 * max(n1, n2) + 60, 500}
    cand |= {int(x) for x in rng.integers(1, 6 * max(n1, n2) + 12, size=2 if Q else 5)}
    for bs in sorted(cand)[: (6 if Q else 20)]:
        check_dist(n1, n2, bs, np.float64 if rng.random() < 0.8 else np.float32)

lap('distance_pairwise')
# ---------------------------------------------------------------------------
# model side of (a),(b): one coqc run evaluates the model on the same cases
# ---------------------------------------------------------------------------
def cZp(a, b):
    return cpair(cZ(a), cZ(b))


def ctile(t):
    r0, r1, c0, c1 = t
    return cpair(cZp(r0, r1), cZp(c0, c1))


IMPORTS = "From Coq Require Import Arith List ZArith Bool.\nFrom Arim Require Import Model.Chunk."
# one model case per distinct (len, block, slices): the five shape/axis forms share it
uniq = {}
for k, (l, b, got, info) in enumerate(chunk_cases):
    uniq.setdefault((l, b, tuple(got)), k)
ukeys = list(uniq)
fails = chk.coq_failing(
    "cases_chunk", IMPORTS, "Z * Z * list (Z * Z)",
    [cpair(cZ(l), cZ(b), clist([cZp(s, e) for (s, e) in got])) for (l, b, got) in ukeys],
    "fun c => let '(l, b, got) := c in list_eqb zpair_eqb (nonempty_z (chunks_z l b)) (nonempty_z got) "
    "&& (Z.of_nat (length got) =? Z.of_nat (numchunks (Z.to_nat l) (Z.to_nat b)))%Z")
for k in fails[:5]:
    l, b, got, info = chunk_cases[uniq[ukeys[k]]]
    # does the implementation's slicing still partition [0, len)?  (spec predicate)
    flat = [i for (s, e) in got for i in range(s, e)]
    chk.violation("chunk:model", f"chunk_array({info['shape']}, {b}, axis={info['axis']}) differs from the model",
                  {"correspondence": "Model.Chunk.chunks", "len": l, "block": b, "impl_slices": got, **info},
                  failing_input_found=(flat != list(range(l))))
fails = chk.coq_failing(
    "cases_fmt", IMPORTS, "Z * Z * Z * Z * list ((Z * Z) * (Z * Z))",
    [cpair(cZ(n), cZ(m), cZ(p), cZ(bs), clist([ctile(t) for t in tl])) for (n, m, p, bs, tl, _) in fmt_cases],
    "fun c => let '(n, m, p, bs, tl) := c in list_eqb tilez_eqb (fmt_tiles_z n m p bs) tl")
for k in fails[:5]:
    n, m, p, bs, tl, repl = fmt_cases[k]
    chk.violation("fmt:model", "task tiles of find_minimum_times differ from the model (Model.Chunk.fmt_tiles)",
                  dict(repl, correspondence="Model.Chunk.fmt_tiles", impl_tiles=tl), failing_input_found=False)
fails = chk.coq_failing(
    "cases_dist", IMPORTS, "Z * Z * Z * list ((Z * Z) * (Z * Z))",
    [cpair(cZ(n1), cZ(n2), cZ(bs), clist([ctile(t) for t in tl])) for (n1, n2, bs, tl, _) in dist_cases],
    "fun c => let '(n1, n2, bs, tl) := c in list_eqb tilez_eqb (dist_tiles_z n1 n2 bs) tl")
for k in fails[:5]:
    n1, n2, bs, tl, repl = dist_cases[k]
    chk.violation("dist:model", "task tiles of distance_pairwise differ from the model (Model.Chunk.dist_tiles)",
                  dict(repl, correspondence="Model.Chunk.dist_tiles", impl_tiles=tl), failing_input_found=False)
samples.append({"chunk_array": {"len": chunk_cases[7][0], "block": chunk_cases[7][1], "slices": chunk_cases[7][2]}})
samples.append({"find_minimum_times": {k: fmt_cases[3][5][k] for k in ("n", "m", "p", "block_size")},
                "tiles": fmt_cases[3][4]})

lap('coq_model_eval')
# ---------------------------------------------------------------------------
# (c) numba-parallel kernels under different JIT thread counts, with background load
# ---------------------------------------------------------------------------
import subprocess
burners = [subprocess.Popen([sys.executable, "-c", "while True: pass"]) for _ in range(4 if Q else 16)]
try:
    maxthreads = numba.config.NUMBA_NUM_THREADS
    tcounts = [t for t in ((1, 2, 5, 16) if Q else range(1, 17)) if t <= maxthreads]
    from arim.im import das, tfm
    import arim.model as amodel
    import arim.scat as ascat

    _das_count = [0]

    def das_case(numpoints, numel, numsamples, cplx):
        tx, rx = arim.ut.fmc(numel)
        # captures other than the full matrix: one transmitter for every timetrace, a single timetrace, a list whose first
        # and last timetraces share the transmitter
        _das_count[0] += 1
        kind_ = _das_count[0] % 4
        if kind_ == 1:
            tx, rx = np.zeros(numel, dtype=int), np.arange(numel)
        elif kind_ == 2:
            tx, rx = np.array([numel - 1]), np.array([0])
        elif kind_ == 3 and numel >= 3:
            tx, rx = np.array([0, 1, 2, 0]), np.array([1, 1, 0, 2])
        chk.count(das_capture=["fmc", "one transmitter", "single timetrace", "tx[0] == tx[-1]"][kind_])
        tt = rng.standard_normal((len(tx), numsamples))
        if cplx:
            tt = tt + 1j * rng.standard_normal((len(tx), numsamples))
        if _das_count[0] % 3 == 0:
            # a few samples marked invalid (NaN) by the acquisition: inputs all the same, never to be modified
            tt[rng.integers(0, len(tx), 2), rng.integers(0, numsamples, 2)] = np.nan
            chk.count(das_samples="with NaN samples")
        dt, t0 = 0.5, 0.25
        frame = arim.Frame(np.ascontiguousarray(tt), arim.Time(t0, dt, numsamples), tx, rx,
                           arim.Probe.make_matrix_probe(numel, 1e-3, 1, np.nan, 1e6), arim.ExaminationObject(None))
        # lookups mostly inside the window [0.25, 8.25); a few outside (fill value)
        lt = np.ascontiguousarray(rng.random((numpoints, numel)) * 4.0 + 0.2)
        lr = np.ascontiguousarray(rng.random((numpoints, numel)) * 4.0 + 0.2)
        atx = np.ascontiguousarray(rng.standard_normal((numpoints, numel)))
        arx = np.ascontiguousarray(rng.standard_normal((numpoints, numel)))
        return frame, lt, lr, atx, arx

    kernels = []
    for numpoints in (1, 7, 33, 600) if Q else (1, 2, 7, 33, 257, 1000, 5000):
        for cplx in (False, True):
            frame, lt, lr, atx, arx = das_case(numpoints, 4, 16, cplx)
            fl_noamp = tfm.FocalLaw(lt, lr)
            fl_amp = tfm.FocalLaw(lt, lr, tfm.TxRxAmplitudes(atx, arx))
            combos = [("noamp", fl_noamp, "nearest", "mean"), ("noamp", fl_noamp, "linear", "mean"),
                      ("noamp", fl_noamp, ("lanczos", 3), "mean"), ("amp", fl_amp, "nearest", "mean"),
                      ("amp", fl_amp, "linear", "mean")]
            if cplx:
                # robust aggregations: keep every lookup inside the window, because geomed/huber start
                # from the origin and do not converge when a delayed sample equals the fill value 0
                # exactly (a C02 matter, see DESIGN); thread-independence is what is tested here
                lt_in = np.ascontiguousarray(rng.random((numpoints, 4)) * 3.5 + 0.3)
                lr_in = np.ascontiguousarray(rng.random((numpoints, 4)) * 3.5 + 0.3)
                fl_noamp = tfm.FocalLaw(lt_in, lr_in)
                combos += [("noamp", fl_noamp, "nearest", "median"), ("noamp", fl_noamp, ("lanczos", 3), "median"),
                           ("noamp", fl_noamp, ("lanczos", 3), ("huber", 1.5))]
            for (amp, fl_, interp, agg) in combos:
                name = f"das[{amp},{interp},{agg},{'c' if cplx else 'r'}]"
                kernels.append((name, numpoints,
                                lambda fr=frame, fl_=fl_, interp=interp, agg=agg: das.delay_and_sum(fr, fl_, interpolation=interp, aggregation=agg),
                                (frame.timetraces, lt, lr, atx, arx)))
    for (name, numpoints, fn, inputs) in kernels:
        hashes = [h(a) for a in inputs]
        ref = None
        for t in tcounts:
            numba.set_num_threads(t)
            try:
                res = np.asarray(fn())
            except (Exception, SystemError) as e:      # e.g. geomed's "cannot find suitable alpha": an outcome too
                res = np.frombuffer(("raised " + type(e).__name__).encode().ljust(32), dtype=np.uint8).copy()
                chk.count(das_outcome="raises (geomed/huber did not converge on this data): case skipped")
                ref = None
                break
            if ref is None:
                ref = res
            elif ref.shape != res.shape or not np.array_equal(np.ascontiguousarray(ref).view(np.uint8), np.ascontiguousarray(res).view(np.uint8)):
                chk.violation(f"numba:{name}", f"{name} differs between numba thread counts", {
                    "kernel": name, "numpoints": numpoints, "threads": t, "ref": ref, "got": res,
                    "num_differing_pixels": int(np.sum(ref != res)) if ref.shape == res.shape else -1})
                break
        if [h(a) for a in inputs] != hashes:
            chk.violation(f"numba-inputs:{name}", f"{name} modified its inputs", {"kernel": name})
        evaluations += 1
        chk.count(numba_kernel=name.split(",")[1] + "/" + name.split(",")[2])
        nontrivial.add(("numba", name, numpoints))

    # model amplitudes (function and matrix variants) and sensitivities: same bits whatever
    # the block size, the grid slicing and the number of JIT threads
    class _View:
        tx_path, rx_path = "txp", "rxp"

        def scat_key(self):
            return "LL"

    # (1100 points x >= 15 timetraces x 16 bytes exceeds NumPy's 256 KiB threshold for eliding temporaries: the size
    #  at which the defect repaired by 855bea9 appeared)
    for (numpoints, numel) in ((1, 2), (9, 3), (41, 4), (1100, 5)) if Q else ((1, 2), (9, 3), (41, 4), (401, 5), (1100, 5), (4001, 4)):
        tx, rx = arim.ut.fmc(numel) if rng.random() < 0.5 else arim.ut.hmc(numel)
        def w():
            a_ = np.ascontiguousarray(rng.standard_normal((numel, numpoints)) + 1j * rng.standard_normal((numel, numpoints)))
            # some rays carry exactly nothing (masked by the user, a coefficient that is exactly zero at normal incidence)
            a_[rng.random((numel, numpoints)) < 0.15] = 0.0
            return a_
        ang = lambda: np.ascontiguousarray(rng.uniform(-np.pi, np.pi, (numel, numpoints)))
        rw = amodel.RayWeights({"txp": w()}, {"rxp": w()}, {}, {}, {"txp": ang(), "rxp": ang()})
        nmat = 12
        smat = rng.standard_normal((nmat, nmat)) + 1j * rng.standard_normal((nmat, nmat))
        # a polynomial: only correctly rounded + and * element by element, so that the test function itself cannot
        # depend on how the grid is cut into blocks
        sfunc = lambda a, b: (0.25 * a) * a + 2j * ((0.5 * b) - a * b) + 0.5
        weights = rng.uniform(0.5, 2.0, len(tx))
        # ... and the library's own side-drilled-hole functions (what a sensitivity image is computed with)
        sdh_funcs = ascat.SdhScat(float(rng.uniform(0.2e-3, 1.2e-3)), 6300.0, 3100.0).as_angles_funcs(float(rng.uniform(1e6, 6e6)))
        for kind, scattering in (("function", {"LL": sfunc}), ("matrix", {"LL": smat}), ("sdh-function", sdh_funcs)):
            hashes = [h(a) for a in (rw.tx_ray_weights_dict["txp"], rw.rx_ray_weights_dict["rxp"], smat, weights)]
            ref = None
            for t in (tcounts[:2] + tcounts[-1:]):
                numba.set_num_threads(t)
                ma = amodel.model_amplitudes_factory(tx, rx, _View(), rw, scattering, scat_angle=0.3)
                full = np.asarray(ma[...])
                parts = np.concatenate([np.asarray(ma[sl]) for sl in arim.helpers.chunk_array((numpoints, len(tx)), 3)], axis=0)
                outs_ = {"full": full, "chunked3": parts}
                for bs in sorted({1, 2, 3, max(1, numpoints - 1), numpoints, numpoints + 1, 4000}):
                    outs_[f"sens_uniform_bs{bs}"] = amodel.sensitivity_uniform_tfm(ma, weights, block_size=bs)
                    outs_[f"sens_assisted_bs{bs}"] = amodel.sensitivity_model_assisted_tfm(ma, weights, block_size=bs)
                # canonical form: every sensitivity must equal the one-block value bit for bit
                canon = {"amplitudes": full, "chunked": parts,
                         "sens_uniform": outs_[f"sens_uniform_bs{numpoints + 1}"],
                         "sens_assisted": outs_[f"sens_assisted_bs{numpoints + 1}"]}
                # an entry that uses a ray of weight exactly zero is exactly zero (finite scattering values), whatever the block
                dead_ = (rw.tx_ray_weights_dict["txp"][tx, :].T == 0) | (rw.rx_ray_weights_dict["rxp"][rx, :].T == 0)
                for nm_, arr_ in (("[...]", full), ("3-point slices", parts)):
                    if arr_.shape == dead_.shape and np.any(arr_[dead_] != 0):
                        chk.violation(f"model_amplitudes:{kind}:dead-rays", f"model amplitudes ({nm_}) are not zero where a tx or rx ray weight is exactly zero",
                                      {"kind": kind, "numpoints": numpoints, "numtimetraces": len(tx), "threads": t,
                                       "nonzero_values": arr_[dead_][arr_[dead_] != 0][:10]})
                        break
                if not np.array_equal(bits(full), bits(parts)):
                    chk.violation(f"model_amplitudes:{kind}:slices", "model amplitudes differ between [...] and 3-point slices",
                                  {"kind": kind, "numpoints": numpoints, "threads": t})
                for k_, v_ in outs_.items():
                    if k_.startswith("sens_"):
                        base = canon["sens_uniform" if "uniform" in k_ else "sens_assisted"]
                        if not np.array_equal(bits(v_), bits(base)):
                            chk.violation(f"sensitivity:{kind}", f"sensitivity depends on the block size ({k_})",
                                          {"kind": kind, "numpoints": numpoints, "numtimetraces": len(tx), "which": k_,
                                           "threads": t, "max_abs_diff": float(np.max(np.abs(np.asarray(v_) - np.asarray(base))))})
                            break
                # the amplitudes may also be given as a plain ndarray (documented): same bits, for every block
                # size, and the caller's array is left untouched ("no call modifies its input arrays")
                arr = np.array(full, copy=True)
                arr_h = h(arr)
                for bs in (1, 3, numpoints + 1):
                    for fn_, key_ in ((amodel.sensitivity_uniform_tfm, "sens_uniform"), (amodel.sensitivity_model_assisted_tfm, "sens_assisted")):
                        got_ = fn_(arr, weights, block_size=bs)
                        if h(arr) != arr_h:
                            chk.violation(f"sensitivity:{kind}:inputs", f"{fn_.__name__} modified the amplitude array it was given",
                                          {"kind": kind, "numpoints": numpoints, "numtimetraces": len(tx), "block_size": bs,
                                           "function": fn_.__name__, "weights": weights, "amplitudes_before": full, "amplitudes_after": arr})
                            arr = np.array(full, copy=True)
                        elif not np.array_equal(bits(got_), bits(canon[key_])):
                            chk.violation(f"sensitivity:{kind}:ndarray", f"{fn_.__name__} on a plain ndarray differs from the value "
                                          "on the ModelAmplitudes object", {"kind": kind, "numpoints": numpoints, "block_size": bs})
                if ref is None:
                    ref = canon
                else:
                    for k_ in canon:
                        if not np.array_equal(bits(ref[k_]), bits(canon[k_])):
                            chk.violation(f"model_amplitudes:{kind}:threads", f"{k_} differs between numba thread counts",
                                          {"kind": kind, "numpoints": numpoints, "threads": t})
            if [h(a) for a in (rw.tx_ray_weights_dict["txp"], rw.rx_ray_weights_dict["rxp"], smat, weights)] != hashes:
                chk.violation(f"model_amplitudes:{kind}:inputs", "model amplitudes modified their inputs", {"kind": kind})
            evaluations += 1
            chk.count(model_amplitudes=kind)
            nontrivial.add(("ma", kind, numpoints, numel))
    # _expand_rays (prange over first axis)
    for (d, n, m, p) in ((1, 3, 4, 5), (2, 9, 3, 7), (3, 1, 1, 1)) + (() if Q else ((2, 64, 17, 33),)):
        interior = rng.integers(0, 5, size=(d, n, m)).astype(np.int32)
        newi = rng.integers(0, m, size=(n, p)).astype(np.int32)
        ref = None
        for t in tcounts:
            numba.set_num_threads(t)
            out_ = np.full((d + 1, n, p), -9, dtype=np.int32)
            arim.ray._expand_rays(interior, newi, out_)
            want = np.concatenate([np.take_along_axis(interior, np.broadcast_to(newi, (d, n, p)), axis=2), newi[None]], axis=0)
            if not np.array_equal(out_, want):
                chk.violation("numba:_expand_rays", "_expand_rays differs from its definition / between thread counts",
                              {"d": d, "n": n, "m": m, "p": p, "threads": t})
                break
        evaluations += 1
        nontrivial.add(("expand", d, n, m, p))
    numba.set_num_threads(maxthreads)
finally:
    for b in burners:
        b.kill()

lap('numba_kernels')
# ---- the minimisation under numba's 'workqueue' threading layer (a child interpreter with NUMBA_THREADING_LAYER=workqueue):
#      it completes and gives the same answer for every number of worker threads
import child_modes as _cm  # noqa: E402
_src = os.environ.get("VERIF_ARIM_SRC") or "/repo/src"
_env = {"NUMBA_THREADING_LAYER": "workqueue"}
if os.environ.get("NUMBA_CACHE_DIR"):
    _env["NUMBA_CACHE_DIR"] = os.environ["NUMBA_CACHE_DIR"]
_res = _cm.run_child(_cm.C13_WORKQUEUE, _src, env_extra=_env)
evaluations += 1
chk.count(child_interpreter="numba workqueue layer: " + _res.split(":")[0])
if not _res.startswith("OK"):
    chk.violation("workqueue-layer", "find_minimum_times under numba's workqueue threading layer: " + _res,
                  {"program": "harness/child_modes.py C13_WORKQUEUE", "environment": "NUMBA_THREADING_LAYER=workqueue", "outcome": _res}, failing_input_found=True)

# ---- the glue model of the public functions (Model files added later, see manifest text) tied to the library on every run:
#      inputs generated here, the library run on them, the model evaluated on the same inputs by vm_compute inside coqc
import ties.tie_C13 as _tie_glue  # noqa: E402
_tie_n = _tie_glue.run(chk, arim, rng, Q)
chk.cov["glue_model_tie_comparisons"] = int(_tie_n or 0)

chk.finish(
    evaluations=evaluations,
    distinct_nontrivial=len(nontrivial),
    rule=("cases = (function, sizes, block size[, dtype]); every case has at least one task; distinct = distinct "
          "(function, sizes, block) tuples; chunk_array over lengths 0..400 x block sizes 1..2len+3 x 5 shape/axis "
          "forms; find_minimum_times and distance_pairwise: recorded task lists compared with the Coq model, write "
          "regions checked disjoint+covering on the real views, tasks re-executed in all k! orders (k<=5) or random "
          "orders, real pools with 1..16 threads; numba prange kernels under 1..16 JIT threads with busy background threads"),
    samples=samples,
    extra={"task_orders_executed": n_orders, "exhaustive": False},
    assumptions=["tasks are atomic and pure functions of read-only inputs (premise of schedule_independent); "
                 "checked on the real tasks by region disjointness, input hashing and order permutation"],
)
