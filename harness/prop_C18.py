"""C18 — Views and paths mean what their names say; unique views are reciprocity classes.

Proof side : Props/C18.v (axiom-free): all ordered pairs exactly once, sorted by the
             documented key, filter_unique_views keeps exactly the first member of every
             {v, recip v} class, paths of every immersion/contact configuration are wired as
             their names say (finite, by vm_compute), view X-Y = (paths[X], paths[rev Y],
             scat key last(X)+first(Y)), Path/Interface/Rays.reverse are involutions.
Tie        : the REAL arim.ut.make_viewnames / filter_unique_views / reciprocal_viewname,
             arim.models.block_in_immersion / block_in_contact make_interfaces, make_paths,
             make_views, arim.models.helpers.make_views_from_paths, Interface(...),
             Interface.reverse, Path.reverse (with Rays) are run on every configuration and on
             random name sets; every observable (names, order, modes, materials, interface
             identity / kind / transmission-reflection / reflection_against / both normal-side
             flags, scat_key, error kind, rays arrays) is compared EXACTLY with the Coq model
             evaluated by vm_compute inside coqc.
Spec       : independently, the spec predicates are evaluated directly on the implementation's
             outputs (n^2 pairs once each, sortedness by the documented criteria, one per
             reciprocity class and the first, wiring of tx/rx paths, scat key, documented
             interface sequences via Model.Views.spec_paths, double reversal = identity).
"""
import functools
import itertools
from collections import OrderedDict

import numpy as np

from common import Check, cZ, cbool, clist, cpair, copt

chk = Check("C18", design_ref="DESIGN.md §5 C18")
chk.proofs(extra_trusted=[
    "harness/prop_C18.py: encoding of arim objects as integers (identity of points / materials, enum members)",
    "modelled, not verified: Python object plumbing (OrderedDict, namedtuple View, numpy transposition in Rays.reverse) "
    "is only exercised by the correspondence",
])
arim = chk.import_arim()
import arim.core as c  # noqa: E402
import arim.geometry as g  # noqa: E402
import arim.ray  # noqa: E402
import arim.ut as ut  # noqa: E402
from arim.models import block_in_contact as bic  # noqa: E402
from arim.models import block_in_immersion as bim  # noqa: E402
from arim.models import helpers as mhelpers  # noqa: E402

rng = chk.rng
Q = chk.tier == "quick"
evaluations = 0
nontrivial = set()
samples = []

IMPORTS = "From Coq Require Import Arith List ZArith Bool.\nFrom Arim Require Import Model.Views."

# ---------------------------------------------------------------------------
# encodings
# ---------------------------------------------------------------------------
LT = "LT"


def zw(s):
    """word 'LTL' -> [0,1,0]"""
    return [LT.index(ch) for ch in s]


def cword(s):
    return clist([cZ(x) for x in zw(s)])


def cview(v):
    return cpair(cword(v[0]), cword(v[1]))


def cviews(vs):
    return clist([cview(v) for v in vs])


def exc_code(e):
    if isinstance(e, NotImplementedError):
        return 3
    if isinstance(e, KeyError):
        return 1      # one class with ValueError: "the request is rejected" (see Model.Views.z_of_err)
    if isinstance(e, ValueError):
        return 1
    if isinstance(e, AssertionError):
        return 4
    return 99


def call(fn, *a, **k):
    """(error code, value)"""
    try:
        return 0, fn(*a, **k)
    except (NotImplementedError, KeyError, ValueError, AssertionError) as e:
        return exc_code(e), None


ALL_NAMES = ["".join(p) for n in (1, 2, 3) for p in itertools.product(LT, repeat=n)]
assert len(ALL_NAMES) == 14


# -- independent Python spec predicates ------------------------------------
def doc_key_lt(a, b):
    """the documented criteria, compared one after the other (written out, not as a tuple)"""
    (tx1, rx1), (tx2, rx2) = a, b
    crit = [
        (len(tx1) + len(rx1), len(tx2) + len(rx2)),
        (max(len(tx1), len(rx1)), max(len(tx2), len(rx2))),
        (len(rx1), len(rx2)),
        (len(tx1), len(tx2)),
    ]
    for x, y in crit:
        if x != y:
            return x < y
    for s1, s2 in ((tx1, tx2), (rx1, rx2)):
        for ch1, ch2 in zip(s1, s2):
            if ch1 != ch2:
                return ch1 == "L"          # L before T
        if len(s1) != len(s2):
            return len(s1) < len(s2)
    return False


def recip(v):
    return (v[1][::-1], v[0][::-1])


def spec_viewnames(names, got, do_sort, uo):
    """list of failed predicates (empty = the property holds on this output)"""
    bad = []
    n = len(names)
    allp = [(a, b) for a in names for b in names]
    if not uo:
        if len(got) != n * n:
            bad.append(f"{len(got)} views for {n} paths (expected n^2)")
        for p in set(allp):
            if got.count(p) != allp.count(p):
                bad.append(f"pair {p} appears {got.count(p)} times")
                break
        if set(got) - set(allp):
            bad.append("a view that is not a pair of given paths")
    if do_sort and len(set(names)) == len(names):
        for a, b in zip(got, got[1:]):
            if not doc_key_lt(a, b):
                bad.append(f"{a} before {b} contradicts the documented order")
                break
    if uo and len(set(names)) == len(names):
        full = sorted(allp, key=functools.cmp_to_key(
            lambda a, b: -1 if doc_key_lt(a, b) else (1 if doc_key_lt(b, a) else 0))) if do_sort else allp
        pos = {v: i for i, v in enumerate(full)}
        for v in full:
            r = recip(v)
            members = {v, r} & set(full)
            kept = [m for m in members if m in got]
            first = min(members, key=lambda m: pos[m])
            if kept != [first]:
                bad.append(f"class of {v}: kept {kept}, expected exactly [{first}]")
                break
        if [v for v in full if v in set(got)] != got:
            bad.append("unique views are not in the order of the full list")
    return bad


# ---------------------------------------------------------------------------
# (1) make_viewnames, (2) filter_unique_views, reciprocal_viewname
# ---------------------------------------------------------------------------
def closed_subset(universe, p):
    s = set()
    for w in universe:
        if w <= w[::-1] and rng.random() < p:
            s |= {w, w[::-1]}
    out = [w for w in universe if w in s]
    rng.shuffle(out)
    return [str(w) for w in out]


name_sets = [[], ["L"], ["T"], ["L", "T"], ALL_NAMES[:6], ALL_NAMES, ["LT"], ["LT", "TL"], ["LLT"], ["TTL", "LTT"]]
name_sets += [list(reversed(ALL_NAMES[:6])), list(reversed(ALL_NAMES))]
for _ in range(10 if Q else 150):
    name_sets.append(closed_subset(ALL_NAMES, rng.choice([0.3, 0.6, 0.9])))
for _ in range(6 if Q else 100):          # arbitrary (not closed) subsets, random order
    k = int(rng.integers(1, 9))
    name_sets.append([str(x) for x in rng.choice(ALL_NAMES, size=k, replace=False)])
LONG = ["".join(p) for n in (1, 2, 3, 4, 5) for p in itertools.product(LT, repeat=n)]
for _ in range(4 if Q else 60):           # longer words (up to 5 letters)
    k = int(rng.integers(1, 8))
    name_sets.append([str(x) for x in rng.choice(LONG, size=k, replace=False)])
for _ in range(2 if Q else 20):           # repeated path names (a list, not dict keys)
    k = int(rng.integers(2, 6))
    name_sets.append([str(x) for x in rng.choice(ALL_NAMES[:6], size=k, replace=True)])

# corpus: fixed regression inputs first
import json, os  # noqa: E402
CORPUS = os.path.join(os.path.dirname(os.path.dirname(os.path.abspath(__file__))), "corpus", "C18", "namesets.json")
corpus = json.load(open(CORPUS)) if os.path.exists(CORPUS) else {"pathnames": [], "viewlists": []}
name_sets = [list(map(str, l)) for l in corpus["pathnames"]] + name_sets

vn_cases = []
for names in name_sets:
    for uo in (False, True):
        for do_sort in (True, False):
            kw = {} if do_sort else {"order_func": None}
            got = ut.make_viewnames(list(names), tfm_unique_only=uo, **kw)
            got = [tuple(v) for v in got]
            # repeated path names are outside the property (names are dictionary keys): they are only
            # checked against the weak predicates below, not against the model
            if len(set(names)) == len(names):
                vn_cases.append((names, do_sort, uo, got))
            evaluations += 1
            closed = all(w[::-1] in names for w in names)
            chk.count(viewnames_kind=("closed" if closed else "open") + ("/unique" if uo else "/all")
                      + ("" if do_sort else "/unsorted"))
            nontrivial.add(("vn", tuple(names), do_sort, uo))
            bad = spec_viewnames(names, got, do_sort, uo)
            if bad:
                chk.violation("viewnames:spec", "make_viewnames violates its specification: " + bad[0],
                              {"pathnames": names, "tfm_unique_only": uo, "order_func_default": do_sort,
                               "impl": got, "failed": bad}, failing_input_found=True)
            if closed and uo and do_sort and len(set(names)) == len(names):
                n = len(names)
                if len(got) != n * (n + 1) // 2:
                    chk.violation("viewnames:count", f"{len(got)} unique views for {n} reversal-closed paths "
                                  f"(expected n(n+1)/2 = {n * (n + 1) // 2})",
                                  {"pathnames": names, "impl": got}, failing_input_found=True)

# HISTORY: the list returned to one caller is that caller's own; sorting / trimming it in place must not change what the
# next call with the same arguments returns
for uo_ in (False, True):
    for names_ in (ALL_NAMES[:2], ALL_NAMES[:6], ALL_NAMES[:14]):
        first_ = ut.make_viewnames(list(names_), tfm_unique_only=uo_)
        pristine_ = list(first_)
        try:
            first_.reverse()
            del first_[::2]
        except (TypeError, AttributeError):
            pass                       # an immutable result is fine too
        again_ = ut.make_viewnames(list(names_), tfm_unique_only=uo_)
        evaluations += 1
        if list(again_) != pristine_:
            chk.violation("viewnames:history", "make_viewnames returns a different list after the caller modified in place the list "
                          "returned by an earlier call with the same arguments",
                          dict(pathnames=list(names_), tfm_unique_only=uo_, first_call=pristine_, second_call=list(again_)), True)
if ut.make_viewnames(ALL_NAMES[:6], tfm_unique_only=True) != [tuple(v.split("-")) for v in ut.IMAGING_MODES]:
    chk.violation("viewnames:imaging-modes", "the 21 unique views of L..TT differ from ut.IMAGING_MODES",
                  {"impl": ut.make_viewnames(ALL_NAMES[:6], tfm_unique_only=True)}, failing_input_found=True)

fails = chk.coq_failing(
    "cases_viewnames", IMPORTS, "list (list Z) * bool * bool * list (list Z * list Z)",
    [cpair(clist([cword(w) for w in names]), cbool(ds), cbool(uo), cviews(got)) for (names, ds, uo, got) in vn_cases],
    "check_viewnames", shard=150)
for k in fails[:5]:
    names, ds, uo, got = vn_cases[k]
    bad = spec_viewnames(names, got, ds, uo)
    chk.violation("viewnames:model", "make_viewnames differs from Model.Views.make_viewnames_gen",
                  {"correspondence": "Model.Views.make_viewnames_gen", "pathnames": names, "tfm_unique_only": uo,
                   "order_func_default": ds, "impl": got, "failed": bad}, failing_input_found=bool(bad))

# filter_unique_views on arbitrary lists (unsorted, possibly with repeats)
fu_cases = [[], [("L", "T")], [("L", "T"), ("T", "L")], [("T", "L"), ("L", "T")], [("L", "L"), ("L", "L")],
            [("LT", "L"), ("L", "TL"), ("LT", "L")], [("LT", "TL"), ("LT", "TL")]]
fu_cases += [[tuple(map(str, v)) for v in l] for l in corpus["viewlists"]]
for _ in range(30 if Q else 500):
    k = int(rng.integers(1, 14))
    uni = ALL_NAMES if rng.random() < 0.7 else LONG
    base = [(str(rng.choice(uni)), str(rng.choice(uni))) for _ in range(k)]
    # make reciprocals likely
    extra = [recip(v) for v in base if rng.random() < 0.6]
    l = base + extra
    if rng.random() < 0.3:
        l += [l[int(rng.integers(len(l)))]]
    rng.shuffle(l)
    fu_cases.append([tuple(map(str, v)) for v in l])
fu_obs = []
for l in fu_cases:
    got = [tuple(v) for v in ut.filter_unique_views(list(l))]
    if len(set(l)) == len(l):      # lists with repeated views: weak predicates only (outside the property)
        fu_obs.append((l, got))
    evaluations += 1
    nontrivial.add(("fu", tuple(l)))
    chk.count(filter_kind="dup" if len(set(l)) < len(l) else "nodup")
    bad = []
    if len(set(l)) == len(l):
        for i, v in enumerate(l):
            first = recip(v) not in l[:i]
            if (v in got) != first:
                bad.append(f"{v} kept={v in got}, first-of-class={first}")
                break
        if [v for v in l if v in set(got)] != got:
            bad.append("order not kept")
    for v in l:
        if v not in got and recip(v) not in got:
            bad.append(f"class of {v} lost")
            break
    for v in got:
        if recip(v) in got and recip(v) != v:
            bad.append(f"both {v} and its reciprocal kept")
            break
    if bad:
        chk.violation("filter:spec", "filter_unique_views violates its specification: " + bad[0],
                      {"viewnames": l, "impl": got, "failed": bad}, failing_input_found=True)
    for v in l:
        s = ut.reciprocal_viewname(f"{v[0]}-{v[1]}")
        if s != "-".join(recip(v)) or ut.reciprocal_viewname(s) != f"{v[0]}-{v[1]}":
            chk.violation("recip:spec", "reciprocal_viewname is not the reversed view / not an involution",
                          {"viewname": f"{v[0]}-{v[1]}", "impl": s}, failing_input_found=True)
fails = chk.coq_failing(
    "cases_filter", IMPORTS, "list (list Z * list Z) * list (list Z * list Z)",
    [cpair(cviews(l), cviews(got)) for (l, got) in fu_obs], "check_filter", shard=300)
for k in fails[:5]:
    l, got = fu_obs[k]
    chk.violation("filter:model", "filter_unique_views differs from Model.Views.filter_unique_views",
                  {"correspondence": "Model.Views.filter_unique_views", "viewnames": l, "impl": got},
                  failing_input_found=False)
samples.append({"make_viewnames": {"pathnames": vn_cases[16][0], "unique": vn_cases[16][2], "out": vn_cases[16][3][:6]}})


# ---------------------------------------------------------------------------
# real objects
# ---------------------------------------------------------------------------
def opoints(n, z):
    pts = g.Points(np.column_stack([np.arange(n, dtype=float), np.zeros(n), np.full(n, float(z))]), f"pts{z}")
    return g.OrientedPoints(pts, g.default_orientations(pts))


PROBE, FRONT, BACK, GRID = opoints(3, -8), opoints(4, 0), opoints(5, 16), opoints(2, 4)
OPS = [PROBE, FRONT, BACK, GRID]
COUPLANT = c.Material(1480.0, None, 1000.0, "liquid", metadata={"long_name": "Water"})
BLOCK = c.Material(6320.0, 3130.0, 2700.0, "solid", metadata={"long_name": "Aluminium"})
UNDER = c.Material(340.0, None, 1.2, "liquid", metadata={"long_name": "Air"})
# (the declared under-material is what the back wall reflects against, whatever its state of matter says)
UNDER_VARIANTS = [UNDER, c.Material(340.0, density=1.2, metadata={"long_name": "Air, state not declared"}),
                  c.Material(2700.0, 1100.0, 1180.0, "solid", metadata={"long_name": "Perspex backing"})]
MATS = [COUPLANT, BLOCK, UNDER]


class EncodingError(Exception):
    pass


def ident(obj, pool, what):
    for k, o in enumerate(pool):
        if obj is o:
            return k
    raise EncodingError(f"{what} is not one of the objects given to the call")


def enc_optbool(b):
    if b is None:
        return -1
    if b is True:
        return 1
    if b is False:
        return 0
    raise EncodingError(f"normal-side flag {b!r} is not None/True/False")


def enc_iface(i):
    pid = ident(i.points, [o.points for o in OPS], "interface points")
    if i.orientations is not OPS[pid].orientations:
        raise EncodingError("interface orientations do not belong to its points")
    kind = -1 if i.kind is None else {c.InterfaceKind.fluid_solid: 0, c.InterfaceKind.solid_fluid: 1}[i.kind]
    tr = -1 if i.transmission_reflection is None else {
        c.TransmissionReflection.transmission: 0, c.TransmissionReflection.reflection: 1}[i.transmission_reflection]
    ag = -1 if i.reflection_against is None else ident(i.reflection_against, MATS, "reflection_against")
    return [pid, kind, tr, ag, enc_optbool(i.are_normals_on_inc_rays_side), enc_optbool(i.are_normals_on_out_rays_side)]


def enc_mode(m):
    return {c.Mode.L: 0, c.Mode.T: 1}[m]


def enc_path(p, name=None):
    nm = p.name if name is None else name
    if not (isinstance(nm, str) and nm and set(nm) <= set(LT)):
        raise EncodingError(f"path name {nm!r}")
    return (zw(nm), [enc_mode(m) for m in p.modes], [ident(m, MATS, "path material") for m in p.materials],
            [enc_iface(i) for i in p.interfaces])


def czl(l):
    return clist([cZ(x) for x in l])


def cpath(e):
    n, m, t, i = e
    return cpair(czl(n), czl(m), czl(t), clist([czl(x) for x in i]))


SETUPS = [[0, 0], [0, 1]] + [[1, fw, bw, um] for fw in (0, 1) for bw in (0, 1) for um in (0, 1)]


def pick_under(s, r):
    """the under-material of this configuration (liquid, state of matter not declared, or solid); MATS[2] follows it so
    that `reflection_against` is identified as 'the under-material given to the call'"""
    global UNDER
    UNDER = UNDER_VARIANTS[(sum(int(x) for x in s) + int(r)) % len(UNDER_VARIANTS)]
    MATS[2] = UNDER
    chk.count(under_material=UNDER.metadata["long_name"])


def exam_object(s):
    if s[0] == 0:
        return c.BlockInImmersion(BLOCK, COUPLANT, FRONT, BACK if s[1] else None)
    return c.BlockInContact(BLOCK, FRONT if s[1] else None, BACK if s[2] else None, UNDER if s[3] else None)


def impl_paths(s, r):
    """make_interfaces + make_paths through the public functions"""
    pick_under(s, r)
    if s[0] == 0:
        d = bim.make_interfaces(COUPLANT, PROBE, FRONT, BACK if s[1] else None, GRID)
        return bim.make_paths(BLOCK, COUPLANT, d, r)
    d = bic.make_interfaces(PROBE, GRID, frontwall=FRONT if s[1] else None, backwall=BACK if s[2] else None,
                            under_material=UNDER if s[3] else None)
    return bic.make_paths(BLOCK, d, r)


def impl_views(s, r, uo):
    mod = bim if s[0] == 0 else bic
    pick_under(s, r)
    return mod.make_views(exam_object(s), PROBE, GRID, max_number_of_reflection=r, tfm_unique_only=uo)


# ---------------------------------------------------------------------------
# (3) make_interfaces / make_paths for every configuration
# ---------------------------------------------------------------------------
path_cases = []
good_paths = {}
for s in SETUPS:
    for r in (-2, -1, 0, 1, 2, 3, 7):
        ec, paths = call(impl_paths, s, r)
        evaluations += 1
        chk.count(paths_outcome=f"{'imm' if s[0] == 0 else 'contact'}:r={r}:err={ec}")
        nontrivial.add(("paths", tuple(s), r))
        try:
            if ec == 0:
                for k, p in paths.items():
                    if p.name != k:
                        raise EncodingError(f"paths[{k!r}].name == {p.name!r}")
                    if p.rays is not None:
                        raise EncodingError("a new path has rays")
                enc = [enc_path(p, k) for k, p in paths.items()]
                good_paths[(tuple(s), r)] = paths
            else:
                enc = []
        except EncodingError as e:
            chk.violation("paths:encoding", f"make_paths returned an object outside the model's vocabulary: {e}",
                          {"setup": s, "max_number_of_reflection": r}, failing_input_found=True)
            continue
        path_cases.append((s, r, ec, enc))

PT = "list Z * Z * (Z * list zpath)"
plits = [cpair(czl(s), cZ(r), cpair(cZ(ec), clist([cpath(e) for e in enc]))) for (s, r, ec, enc) in path_cases]
spec_fails = set(chk.coq_failing("cases_paths_spec", IMPORTS, PT, plits, "check_paths_spec", shard=40))
model_fails = set(chk.coq_failing("cases_paths", IMPORTS, PT, plits, "check_paths", shard=40))
for k in sorted(spec_fails | model_fails)[:6]:
    s, r, ec, enc = path_cases[k]
    chk.violation("paths:spec" if k in spec_fails else "paths:model",
                  ("make_paths output is not what the path names mean (Model.Views.spec_paths)" if k in spec_fails
                   else "make_paths differs from Model.Views.make_paths"),
                  {"correspondence": "Model.Views.make_paths / spec_paths", "setup(kind,flags)": s,
                   "max_number_of_reflection": r, "impl_error_code": ec,
                   "impl_paths(name,modes,materials,interfaces[points,kind,tr,against,inc,out])": enc},
                  failing_input_found=(k in spec_fails))
s_, r_, ec_, enc_ = path_cases[[i for i, pc in enumerate(path_cases) if pc[0] == [0, 1] and pc[1] == 2][0]]
samples.append({"immersion r=2 path LTL": [e for e in enc_ if e[0] == [0, 1, 0]]})


# ---------------------------------------------------------------------------
# (4) make_views for every configuration
# ---------------------------------------------------------------------------
def enc_views(views, paths=None):
    out = []
    for name, v in views.items():
        if v.name != name:
            raise EncodingError(f"views[{name!r}].name == {v.name!r}")
        tx, rx = name.split("-")
        ec, sk = call(v.scat_key)
        out.append(((tx, rx), enc_path(v.tx_path), enc_path(v.rx_path), zw(sk) if ec == 0 else []))
    return out


def cventry(e):
    (tx, rx), pt, pr, sk = e
    return cpair(cview((tx, rx)), cpath(pt), cpath(pr), czl(sk))


def spec_views(views, block_prefix):
    """view wiring, evaluated on the real objects"""
    bad = []
    seen_tx = {}
    for name, v in views.items():
        tx, rx = name.split("-")
        m_tx = "".join(m.key() for m in v.tx_path.modes)[block_prefix:]
        m_rx = "".join(m.key() for m in v.rx_path.modes)[block_prefix:]
        if m_tx != tx:
            bad.append(f"view {name}: transmit path has block modes {m_tx}")
        if m_rx != rx[::-1]:
            bad.append(f"view {name}: receive path has block modes {m_rx} (probe to scatterer), expected {rx[::-1]}")
        if v.scat_key() != tx[-1] + rx[0]:
            bad.append(f"view {name}: scat_key {v.scat_key()}")
        if v.tx_path.name != tx or v.rx_path.name != rx[::-1]:
            bad.append(f"view {name}: paths named {v.tx_path.name}, {v.rx_path.name}")
        # one Path object per name, shared by all the views using it
        for nm, p in ((tx, v.tx_path), (rx[::-1], v.rx_path)):
            if seen_tx.setdefault(nm, p) is not p:
                bad.append(f"view {name}: path {nm} is a different object than in another view")
    return bad


view_cases = []
for s in SETUPS:
    for r in ((-1, 0, 1, 2, 3)):
        for uo in (False, True):
            ec, views = call(impl_views, s, r, uo)
            evaluations += 1
            nontrivial.add(("views", tuple(s), r, uo))
            chk.count(views_outcome=f"{'imm' if s[0] == 0 else 'contact'}:r={r}:err={ec}")
            try:
                enc = enc_views(views) if ec == 0 else []
            except EncodingError as e:
                chk.violation("views:encoding", f"make_views returned an object outside the model's vocabulary: {e}",
                              {"setup": s, "max_number_of_reflection": r, "tfm_unique_only": uo},
                              failing_input_found=True)
                continue
            view_cases.append((s, r, uo, ec, enc))
            if ec == 0:
                names = [tuple(k.split("-")) for k in views]
                pn = [w for w in ALL_NAMES if len(w) <= r + 1]
                bad = spec_viewnames(pn, names, True, uo) + spec_views(views, 1 if s[0] == 0 else 0)
                n = len(pn)
                if len(views) != (n * (n + 1) // 2 if uo else n * n):
                    bad.append(f"{len(views)} views")
                if bad:
                    chk.violation("views:spec", "make_views violates the property: " + bad[0],
                                  {"setup(kind,flags)": s, "max_number_of_reflection": r, "tfm_unique_only": uo,
                                   "failed": bad[:10], "view_names": list(views)}, failing_input_found=True)
VT = "list Z * Z * bool * (Z * list zview)"
fails = chk.coq_failing(
    "cases_views", IMPORTS, VT,
    [cpair(czl(s), cZ(r), cbool(uo), cpair(cZ(ec), clist([cventry(e) for e in enc], sep=";\n")))
     for (s, r, uo, ec, enc) in view_cases], "check_views", shard=8, jobs=8)
for k in fails[:5]:
    s, r, uo, ec, enc = view_cases[k]
    chk.violation("views:model", "make_views differs from Model.Views.make_views",
                  {"correspondence": "Model.Views.make_views", "setup(kind,flags)": s, "max_number_of_reflection": r,
                   "tfm_unique_only": uo, "impl_error_code": ec, "impl_view_names": [e[0] for e in enc]},
                  failing_input_found=False)

# ---------------------------------------------------------------------------
# (5) make_views_from_paths on sub-dictionaries (random reversal-closed or not, random key order)
# ---------------------------------------------------------------------------
sub_cases = []
keys_sr = sorted(good_paths)
for _ in range(24 if Q else 400):
    s, r = keys_sr[int(rng.integers(len(keys_sr)))]
    paths = good_paths[(s, r)]
    pick_under(s, r)              # the under-material these paths were built with
    avail = list(paths)
    kind = rng.choice(["closed", "closed", "closed", "open"])
    if kind == "closed":
        names = closed_subset(avail, rng.choice([0.4, 0.7, 1.0]))
    else:
        names = [str(x) for x in rng.choice(avail, size=int(rng.integers(1, len(avail) + 1)), replace=False)]
    uo = bool(rng.random() < 0.5)
    sub = OrderedDict((k, paths[k]) for k in names)
    ec, views = call(mhelpers.make_views_from_paths, sub, tfm_unique_only=uo)
    evaluations += 1
    closed = all(w[::-1] in names for w in names)
    chk.count(subviews_kind=("closed" if closed else "open") + f":err={ec}")
    nontrivial.add(("sub", s, r, tuple(names), uo))
    if closed != (ec == 0):
        chk.violation("subviews:defined", "make_views_from_paths must succeed exactly on reversal-closed name sets",
                      {"setup": s, "r": r, "names": names, "error_code": ec}, failing_input_found=True)
    enc = []
    if ec == 0:
        bad = []
        for name, v in views.items():
            tx, rx = name.split("-")
            if v.tx_path is not sub.get(tx):
                bad.append(f"view {name}: tx_path is not paths[{tx!r}]")
            if v.rx_path is not sub.get(rx[::-1]):
                bad.append(f"view {name}: rx_path is not paths[{rx[::-1]!r}]")
        bad += spec_views(views, 1 if s[0] == 0 else 0)
        bad += spec_viewnames(names, [tuple(k.split("-")) for k in views], True, uo)
        if bad:
            chk.violation("subviews:spec", "make_views_from_paths violates the property: " + bad[0],
                          {"setup(kind,flags)": list(s), "max_number_of_reflection": r, "path_names": names,
                           "tfm_unique_only": uo, "failed": bad[:10]}, failing_input_found=True)
        enc = enc_views(views)
    sub_cases.append((list(s), r, names, uo, ec, enc))
fails = chk.coq_failing(
    "cases_subviews", IMPORTS, "list Z * Z * list (list Z) * bool * (Z * list zview)",
    [cpair(czl(s), cZ(r), clist([cword(w) for w in names]), cbool(uo),
           cpair(cZ(ec), clist([cventry(e) for e in enc], sep=";\n")))
     for (s, r, names, uo, ec, enc) in sub_cases], "check_subviews", shard=12 if Q else 25, jobs=8)
for k in fails[:5]:
    s, r, names, uo, ec, enc = sub_cases[k]
    chk.violation("subviews:model", "make_views_from_paths differs from Model.Views.make_views_from_paths",
                  {"correspondence": "Model.Views.make_views_from_paths", "setup(kind,flags)": s,
                   "max_number_of_reflection": r, "path_names": names, "tfm_unique_only": uo, "impl_error_code": ec,
                   "impl_view_names": [e[0] for e in enc]}, failing_input_found=False)

# ---------------------------------------------------------------------------
# (6) Interface(...) and Interface.reverse on every combination of attributes
# ---------------------------------------------------------------------------
KINDS = [None, "fluid_solid", "solid_fluid"]
TRS = [None, "transmission", "reflection"]
new_cases, rev_cases = [], []
for pid in (0, 1, 2, 3):
    for ki, kind in enumerate(KINDS):
        for ti, tr in enumerate(TRS):
            for ai, ag in enumerate([None] + MATS):
                for inc in (None, False, True):
                    for out in (None, False, True):
                        if pid != 1 and (rng.random() < (0.8 if Q else 0.0)):
                            continue
                        code = [pid, ki - 1, ti - 1, ai - 1, enc_optbool(inc), enc_optbool(out)]
                        ec, itf = call(c.Interface, *OPS[pid], kind, tr, reflection_against=ag,
                                       are_normals_on_inc_rays_side=inc, are_normals_on_out_rays_side=out)
                        evaluations += 1
                        new_cases.append((code, ec, enc_iface(itf) if ec == 0 else []))
                        if ec == 0 and enc_iface(itf) != code:
                            chk.violation("iface:new", "Interface(...) does not store what it was given",
                                          {"given": code, "stored": enc_iface(itf)}, failing_input_found=True)
                        if ec != 0:
                            continue
                        ec2, ritf = call(itf.reverse)
                        chk.count(iface_reverse="ok" if ec2 == 0 else f"err={ec2}")
                        nontrivial.add(("iface", tuple(code)))
                        rev_cases.append((code, ec2, enc_iface(ritf) if ec2 == 0 else []))
                        if ec2 == 0:
                            ec3, rritf = call(ritf.reverse)
                            if ec3 != 0 or enc_iface(rritf) != code:
                                chk.violation("iface:involution", "Interface.reverse twice is not the identity",
                                              {"interface[points,kind,tr,against,inc,out]": code,
                                               "reversed": enc_iface(ritf),
                                               "reversed_twice": enc_iface(rritf) if ec3 == 0 else f"error {ec3}"},
                                              failing_input_found=True)
IT = "list Z * (Z * list Z)"
for nm, cases, fn in (("iface_new", new_cases, "check_iface_new"), ("iface_reverse", rev_cases, "check_iface_reverse")):
    fails = chk.coq_failing("cases_" + nm, IMPORTS, IT,
                            [cpair(czl(code), cpair(cZ(ec), czl(enc))) for (code, ec, enc) in cases], fn, shard=400)
    for k in fails[:5]:
        code, ec, enc = cases[k]
        chk.violation(f"{nm}:model", f"Interface {nm.split('_')[1]} differs from the model",
                      {"correspondence": "Model.Views." + fn, "interface[points,kind,tr,against,inc,out]": code,
                       "impl_error_code": ec, "impl": enc}, failing_input_found=False)


# ---------------------------------------------------------------------------
# (7) Path.reverse with rays
# ---------------------------------------------------------------------------
def enc_mat(a):
    a = np.asarray(a)
    assert a.ndim == 2
    if not np.all(a == np.round(a)):
        raise EncodingError("non-integer entry in an array that only permutes integers")
    return (a.shape[0], a.shape[1], [[int(x) for x in row] for row in a])


def enc_fpath(fp):
    out = []
    for k, x in enumerate(fp):
        if k % 2 == 0:
            out.append(ident(x, [o.points for o in OPS], "fermat path points"))
        else:
            out.append(int(x))
    return out


def enc_rays(r):
    if r is None:
        return None
    return (enc_mat(r.times), [enc_mat(a) for a in r.interior_indices], enc_fpath(r.fermat_path))


def cmat(m):
    n, k, d = m
    return cpair(cZ(n), cZ(k), clist([czl(row) for row in d]))


def crays(r):
    t, i, f = r
    return cpair(cmat(t), clist([cmat(x) for x in i]), czl(f))


def random_rays(path):
    fp = arim.ray.FermatPath.from_path(path)
    n, m = len(path.interfaces[0].points), len(path.interfaces[-1].points)
    times = rng.integers(0, 1000, size=(n, m)).astype(float)
    d = len(path.interfaces)
    interior = np.stack([rng.integers(0, len(path.interfaces[k].points), size=(n, m)) for k in range(1, d - 1)]) \
        if d > 2 else np.zeros((0, n, m), dtype=int)
    interior = interior.astype(arim.settings.INT)
    if rng.random() < 0.5:
        interior = np.asfortranarray(interior)
        times = np.asfortranarray(times)
    return arim.ray.Rays(times, interior, fp)


def same_path(p, q):
    same = (enc_path(p) == enc_path(q)) and (p.rays is None) == (q.rays is None)
    if same and p.rays is not None:
        same = (np.array_equal(p.rays.times, q.rays.times) and np.array_equal(p.rays.indices, q.rays.indices)
                and enc_fpath(p.rays.fermat_path) == enc_fpath(q.rays.fermat_path))
    return same


prev_cases = []


def do_path_reverse(p, kind):
    global evaluations
    ec, rp = call(p.reverse)
    evaluations += 1
    chk.count(path_reverse=f"{kind}:err={ec}")
    e_in = enc_path(p)
    nontrivial.add(("prev", str(e_in), None if p.rays is None else p.rays.times.tobytes()))
    if ec == 0:
        out = (enc_path(rp), enc_rays(rp.rays), [enc_mat(a) for a in rp.rays.indices] if rp.rays is not None else [])
        ec2, rrp = call(rp.reverse)
        if ec2 != 0 or not same_path(p, rrp):
            chk.violation("path:involution", "Path.reverse twice does not give back the same path",
                          {"path(name,modes,materials,interfaces)": e_in, "rays": enc_rays(p.rays),
                           "reversed": out[0], "reversed_twice": enc_path(rrp) if ec2 == 0 else f"error {ec2}"},
                          failing_input_found=True)
        # definition of the reversed rays: x[k, i, j] == y[d-1-k, j, i]
        if p.rays is not None and rp.rays is None:
            chk.violation("path:rays-lost", "Path.reverse lost the rays of a path that has rays",
                          {"path": e_in, "rays": enc_rays(p.rays)}, failing_input_found=True)
        elif p.rays is not None:
            x, y = p.rays.indices, rp.rays.indices
            if not (np.array_equal(x, np.swapaxes(y, 1, 2)[::-1]) and np.array_equal(p.rays.times, rp.rays.times.T)):
                chk.violation("path:rays", "reversed rays are not the same rays travelled backwards",
                              {"path": e_in, "rays": enc_rays(p.rays), "reversed_rays": enc_rays(rp.rays)},
                              failing_input_found=True)
    else:
        out = None
    prev_cases.append((e_in, enc_rays(p.rays), ec, out))


for (s, r), paths in sorted(good_paths.items()):
    pick_under(s, r)
    if Q and r != 2 and not (s[0] == 1 and s[3] == 1) and s != (0, 1):
        continue
    for k, p in paths.items():
        for with_rays in (False, True):
            if with_rays and Q and rng.random() < 0.5:
                continue
            q = c.Path(p.interfaces, p.materials, p.modes, name=p.name)
            if with_rays:
                if rng.random() < 0.5:
                    # history: the path is reversed once BEFORE its rays exist (as a caller that builds
                    # reciprocal paths ahead of ray tracing does); later reversals must see the rays
                    call(q.reverse)
                    chk.count(path_reverse_history="reversed before rays were assigned")
                q.rays = random_rays(q)
            vel_edit_ = with_rays and rng.random() < 0.3
            if vel_edit_:
                # history: the block velocities are updated in place AFTER the rays were obtained (a calibration step) and the path is
                # reversed before tracing again: the reversed rays are still the rays that were traced, travelled backwards
                _keep_v = (BLOCK.longitudinal_vel, BLOCK.transverse_vel)
                BLOCK.longitudinal_vel, BLOCK.transverse_vel = _keep_v[0] * 1.07, _keep_v[1] * 0.96
                chk.count(path_reverse_history="block velocities edited between tracing and reversal")
            try:
                do_path_reverse(q, "config")
                if with_rays:
                    ec_f, rp_f = call(q.reverse)
                    if ec_f == 0 and rp_f.rays is not None and enc_fpath(rp_f.rays.fermat_path) != enc_fpath(q.rays.fermat_path.reverse()):
                        chk.violation("path:reversed-fermat-path", "the rays of the reversed path do not carry the reversed FermatPath of the rays that were given",
                                      {"path(name,modes,materials,interfaces)": enc_path(q), "velocities_edited_after_tracing": bool(vel_edit_),
                                       "fermat_path_of_rays": enc_fpath(q.rays.fermat_path), "fermat_path_of_reversed_rays": enc_fpath(rp_f.rays.fermat_path)},
                                      failing_input_found=True)
            finally:
                if vel_edit_:
                    BLOCK.longitudinal_vel, BLOCK.transverse_vel = _keep_v
            if with_rays:
                # ... and replacing the rays after a reversal must be seen by the next reversal
                old_rays = q.rays
                q.rays = random_rays(q)
                ec_h, rp_h = call(q.reverse)
                if ec_h == 0 and (rp_h.rays is None or not np.array_equal(rp_h.rays.times, q.rays.times.T)):
                    chk.violation("path:stale-rays", "Path.reverse returns stale rays after the path's rays were replaced",
                                  {"path(name,modes,materials,interfaces)": enc_path(q), "rays_now": enc_rays(q.rays),
                                   "reversed_rays": enc_rays(rp_h.rays)}, failing_input_found=True)
# arbitrary paths (including irreversible interfaces: kind given without transmission/reflection)
valid_ifaces = [code for (code, ec, _) in new_cases if ec == 0]
for _ in range(40 if Q else 600):
    nint = int(rng.integers(2, 6))
    itfs = []
    for _k in range(nint):
        code = valid_ifaces[int(rng.integers(len(valid_ifaces)))]
        if rng.random() < 0.7 and code[1] >= 0 and code[2] < 0:
            code = valid_ifaces[int(rng.integers(len(valid_ifaces)))]     # fewer irreversible ones
        itfs.append(c.Interface(*OPS[code[0]], KINDS[code[1] + 1], TRS[code[2] + 1],
                                reflection_against=([None] + MATS)[code[3] + 1],
                                are_normals_on_inc_rays_side=[None, False, True][code[4] + 1],
                                are_normals_on_out_rays_side=[None, False, True][code[5] + 1]))
    mats = [MATS[int(rng.integers(3))] for _k in range(nint - 1)]
    modes = [c.Mode.L if m is not BLOCK else (c.Mode.L, c.Mode.T)[int(rng.integers(2))] for m in mats]
    name = "".join(LT[int(rng.integers(2))] for _k in range(int(rng.integers(1, 4))))
    p = c.Path(tuple(itfs), tuple(mats), tuple(modes), name=name)
    if rng.random() < 0.6:
        p.rays = random_rays(p)
    do_path_reverse(p, "random")

# image-sized ray sets (tens of elements x thousands of pixels: more than 2^16 rays; counts that are not multiples of a power
# of two), C- and Fortran-ordered: the reversed rays are the same rays travelled backwards, and reversing twice gives the rays
# back (the definitions above, evaluated with numpy only: too large for the coqc comparison)
import arim.geometry as _g  # noqa: E402
for big_i in range(2 if Q else 8):
    n_, m_ = [(32, 2501), (17, 4099), (64, 1031), (3, 70001)][big_i % 4]
    nwall_ = int(rng.integers(5, 60))
    mk_ = lambda k, nm: c.Interface(*_g.default_oriented_points(_g.Points(rng.standard_normal((k, 3)), nm)))
    p_big = c.Path((mk_(n_, "A"), mk_(nwall_, "W"), mk_(m_, "B")), (MATS[0], MATS[1]), (c.Mode.L, c.Mode.L), name="big")
    times_ = rng.integers(1, 1000, size=(n_, m_)).astype(float)
    interior_ = rng.integers(0, nwall_, size=(1, n_, m_)).astype(arim.settings.INT)
    if big_i % 2 == 1:
        times_, interior_ = np.asfortranarray(times_), np.asfortranarray(interior_)
    p_big.rays = arim.ray.Rays(times_, interior_, arim.ray.FermatPath.from_path(p_big))
    ec1, rp1 = call(p_big.reverse)
    ec2, rp2 = call(rp1.reverse) if ec1 == 0 else (1, None)
    evaluations += 2
    chk.count(path_reverse_image_sized=f"{n_}x{m_} rays, {'F' if big_i % 2 else 'C'}-ordered")
    nontrivial.add(("prev-big", n_, m_))
    why_ = None
    if ec1 != 0 or ec2 != 0:
        why_ = f"Path.reverse raised (error codes {ec1}, {ec2})"
    elif not (np.array_equal(np.asarray(rp1.rays.times), times_.T) and np.array_equal(np.asarray(p_big.rays.indices), np.swapaxes(np.asarray(rp1.rays.indices), 1, 2)[::-1])):
        why_ = "the once-reversed rays are not the same rays travelled backwards"
    elif not (np.array_equal(np.asarray(rp2.rays.times), times_) and np.array_equal(np.asarray(rp2.rays.indices), np.asarray(p_big.rays.indices))):
        bad_cols = np.flatnonzero(np.any(np.asarray(rp2.rays.times) != times_, axis=0))
        why_ = f"reversing twice does not give the rays back (first wrong column of the times: {bad_cols[:1].tolist()} of {m_})"
    if why_:
        chk.violation("path:rays-image-sized", f"Path.reverse on a path with {n_} x {m_} rays: {why_}",
                      {"first_set": n_, "last_set": m_, "wall_points": nwall_, "order": "F" if big_i % 2 else "C",
                       "rays": "times = integers 1..999, interior indices uniform; regenerated by seed and tier"}, failing_input_found=True)

PRT = "zpath * option zrays * (Z * zpath * option zrays * list zmat)"
DUMMY = cpair("[]", "[]", "[]", "[]")


def cprev(case):
    e_in, rays, ec, out = case
    if out is None:
        res = cpair(cZ(ec), DUMMY, "None", "[]")
    else:
        res = cpair(cZ(ec), cpath(out[0]), copt(out[1], crays), clist([cmat(m) for m in out[2]]))
    return cpair(cpath(e_in), copt(rays, crays), res)


fails = chk.coq_failing("cases_path_reverse", IMPORTS, PRT, [cprev(x) for x in prev_cases],
                        "check_path_reverse", shard=60)
for k in fails[:5]:
    e_in, rays, ec, out = prev_cases[k]
    chk.violation("path_reverse:model", "Path.reverse differs from Model.Views.path_reverse",
                  {"correspondence": "Model.Views.path_reverse", "path(name,modes,materials,interfaces)": e_in,
                   "rays(times,interior,fermat_path)": rays, "impl_error_code": ec, "impl": out},
                  failing_input_found=False)
samples.append({"path_reverse": {"in": prev_cases[-1][0], "out": prev_cases[-1][3][0] if prev_cases[-1][3] else None}})

# ---- the glue model of the public functions (Model files added later, see manifest text) tied to the library on every run:
#      inputs generated here, the library run on them, the model evaluated on the same inputs by vm_compute inside coqc
import ties.tie_C18 as _tie_glue  # noqa: E402
_tie_n = _tie_glue.run(chk, arim, rng, Q)
chk.cov["glue_model_tie_comparisons"] = int(_tie_n or 0)

chk.finish(
    evaluations=evaluations,
    distinct_nontrivial=len(nontrivial),
    rule=("one evaluation = one call of the implementation whose complete output is compared with the model: "
          "make_viewnames (name list x unique x sorted), filter_unique_views (list), make_interfaces+make_paths "
          "(10 configurations x max_number_of_reflection -2..7), make_views (same x unique), make_views_from_paths "
          "(random sub-dictionaries, reversal-closed or not, random key order), Interface(...) and Interface.reverse "
          "(every combination of kind / transmission-reflection / reflection_against / normal-side flags), "
          "Path.reverse (all configuration paths and random paths, with random Rays); distinct = distinct inputs"),
    samples=samples,
    extra={"exhaustive": False,
           "exhaustive_parts": "configurations, interface attribute combinations (thorough tier) and the 14 path names are "
                         "covered exhaustively; name subsets, sub-dictionaries, rays and arbitrary paths are sampled"},
    assumptions=["points, orientations and materials are opaque: only their identity is modelled"],
)
