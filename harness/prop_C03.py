"""C03 — Immersion forward model is reciprocal.

Proof side : Props/C03.v (Stokes relations in displacement units at each interface, telescoping
             over the interfaces, reverse virtual distance = prod(gamma) x forward one,
             prod(gamma) = (c0/c_last) prod(cos_out/cos_in)^2, hence
             Q c_last^2 sigma = kappa Q' with kappa = rho_f c_f sqrt(c_f f)/rho_s, and the
             reciprocity of a view for a reciprocal scatterer).
Tie        : on real immersion set-ups (arim's own make_views / ray tracing /
             ray_weights_for_views / model_amplitudes_factory) the intermediate claim of the
             proof is measured on the implementation: Q[p] c_last^2 sigma(p) / Q'[p] must be the
             SAME number kappa (computed from the model formula) for every path, element and
             scatterer; and the property itself: P_ij(X-Y) = P_ji(rev Y - rev X) for every
             view, with every switch set containing beamspread and transrefl, for SDH, point,
             crack-centre scatterers and random reciprocal scattering matrices, scatterer
             rotation included.  (With exactly one of beamspread/transrefl disabled reciprocity
             does NOT hold — physics, DESIGN §5 C03 — and nothing is asserted.)
"""
import itertools
import math

import numpy as np

from common import Check, close
import arimgen

chk = Check("C03", design_ref="DESIGN.md §5 C03")
chk.proofs(extra_trusted=[
    "qratio_beyond_critical_partial: Q c_last^2 sigma = kappa Q' is mechanised end to end (qratio_model_path, through the model's own transrefl / reverse_transrefl / beamspread / reverse_beamspread, any mode word) for rays whose waves are all sub-critical; rays with a wave beyond a critical angle are measured on the real code (kappa constancy), not mechanised",
    "scatterer reciprocity (C09) is a hypothesis of view_reciprocity; random reciprocal matrices are built by the harness",
])
arim = chk.import_arim()
import arim.model as model
import arim.models.block_in_immersion as bim
import arim.ray
import arim.scat as scat

rng = chk.rng
# second tie: the scalar kernels are re-translated from the current source and checked
# convertible with the model; a broken tie deepens the correspondence run (thorough sizes)
_ties = chk.translation_tie()
Q = chk.tier == "quick" and all(v == "ok" for v in _ties.values())
evaluations = 0
nontrivial = set()
samples = []
RTOL = 1e-9


def reciprocal_matrices(n, vl, vt):
    a = rng.standard_normal((n, n)) + 1j * rng.standard_normal((n, n))
    b = rng.standard_normal((n, n)) + 1j * rng.standard_normal((n, n))
    lt = rng.standard_normal((n, n)) + 1j * rng.standard_normal((n, n))
    return {"LL": a + a.T, "TT": b + b.T, "LT": lt, "TL": -(vt ** 2 / vl ** 2) * lt.T}


_tab_calls = [0]
nsetups = 10 if Q else 120
worst_kappa = worst_rec = 0.0
for s_i in range(nsetups):
    max_refl = int(rng.choice([0, 1, 1, 2]))
    setup = arimgen.immersion_setup(rng, max_refl=max_refl, wall_points=int(rng.integers(50, 400)),
                                    attenuation=bool(rng.integers(0, 2)))
    couplant, block, probe = setup["couplant"], setup["block"], setup["probe"]
    views, paths = setup["views"], setup["paths"]
    freq = setup["freq"]
    numel = probe.numelements
    width = float(rng.uniform(0.2e-3, 1.0e-3))
    tx, rx = arim.ut.fmc(numel)
    vl, vt = block.longitudinal_vel, block.transverse_vel
    kappa_model = couplant.density * couplant.longitudinal_vel * math.sqrt(couplant.longitudinal_vel * freq) / block.density

    switch_sets = [(True, True, True, True)]
    if s_i % 2 == 0 or not Q:
        switch_sets += [(False, True, True, True), (True, True, True, False), (False, True, True, False)]
    if not Q or s_i % 3 == 0:
        switch_sets += [(True, False, True, True), (True, True, False, True)]          # not reciprocal: counted only
    for (use_dir, use_bs, use_tr, use_att) in switch_sets:
        rw = bim.ray_weights_for_views(views, freq, width, use_directivity=use_dir, use_beamspread=use_bs,
                                       use_transrefl=use_tr, use_attenuation=use_att)
        both = use_bs and use_tr
        chk.count(switches=f"dir={int(use_dir)} bs={int(use_bs)} tr={int(use_tr)} att={int(use_att)}")
        # (a) Q c_last^2 sigma = kappa Q' on every path
        if both:
            for name, path in paths.items():
                if path not in rw.tx_ray_weights_dict or path not in rw.rx_ray_weights_dict:
                    continue
                q, qp = rw.tx_ray_weights_dict[path], rw.rx_ray_weights_dict[path]
                c_last = path.velocities[-1]
                sigma = -1.0 if name[-1] == "T" else 1.0
                with np.errstate(all="ignore"):
                    ratio = q * c_last ** 2 * sigma / qp
                if not np.isfinite(ratio).any():
                    continue
                evaluations += ratio.size
                nontrivial.add(("kappa", s_i, name, use_dir, use_att))
                dev = float(np.max(np.abs(ratio[np.isfinite(ratio)] - kappa_model)) / kappa_model)
                worst_kappa = max(worst_kappa, dev)
                if not (dev <= RTOL):
                    i, g_ = np.unravel_index(int(np.nanargmax(np.where(np.isfinite(ratio), np.abs(ratio - kappa_model), -1))), ratio.shape)
                    chk.violation(f"kappa:{name}", f"Q c_last^2 sigma / Q' is not the constant kappa on path {name}",
                                  {"path": name, "element": int(i), "scatterer": int(g_), "ratio": ratio[i, g_],
                                   "kappa_model": kappa_model, "Q": q[i, g_], "Qprime": qp[i, g_],
                                   "switches": [use_dir, use_bs, use_tr, use_att],
                                   "couplant": [couplant.density, couplant.longitudinal_vel],
                                   "block": [block.density, vl, vt], "frequency": freq,
                                   "correspondence": "Props/C03.v qratio (kappa formula)"},
                                  failing_input_found=False)
        # (b) reciprocity of every view
        scatterers = [("point", scat.PointSourceScat(vl, vt).as_angles_funcs(freq)),
                      ("sdh", scat.SdhScat(float(rng.uniform(0.2e-3, 1.5e-3)), vl, vt).as_angles_funcs(freq)),
                      ("matrix", reciprocal_matrices(int(rng.integers(4, 40)), vl, vt))]
        if (not Q) and s_i % 10 == 0:
            scatterers.append(("crack", scat.CrackCentreScat(float(rng.uniform(0.5e-3, 3e-3)), vl, vt, block.density).as_angles_funcs(freq)))
        for sname, scattering in scatterers:
            scat_angle = float(rng.uniform(-np.pi, np.pi)) if rng.random() < 0.5 else 0.0
            amps = {vn: np.asarray(model.model_amplitudes_factory(tx, rx, v, rw, scattering, scat_angle)[...])
                    for vn, v in views.items()}
            scale = max(float(np.nanmax(np.abs(a))) if np.isfinite(a).any() else 0.0 for a in amps.values()) or 1.0
            for vn, a in amps.items():
                rvn = arim.ut.reciprocal_viewname(vn)
                b = amps[rvn]
                # P[g, k] with k <-> (tx_k, rx_k); reciprocal: swap roles of i and j
                A = a.reshape(a.shape[0], numel, numel)            # [g, i, j] for FMC order
                B = b.reshape(b.shape[0], numel, numel)
                Bt = np.transpose(B, (0, 2, 1))
                # rays refracted beyond total reflection of their own mode have a negative virtual
                # distance on one side (sqrt -> nan): the model is undefined there; excluded, counted
                ok_mask = np.isfinite(A) & np.isfinite(Bt)
                chk.count(undefined_beyond_total_reflection=int((~ok_mask).sum() > 0))
                if not ok_mask.any():
                    continue
                diff = np.where(ok_mask, np.abs(A - Bt), 0.0)
                res = float(np.max(diff) / scale)
                evaluations += A.size
                nontrivial.add(("rec", s_i, vn, sname, use_dir, use_bs, use_tr, use_att))
                chk.count(scatterer=sname)
                if both:
                    worst_rec = max(worst_rec, res)
                    if not (res <= RTOL):
                        g_, i, j = np.unravel_index(int(np.argmax(diff)), A.shape)
                        chk.violation(f"reciprocity:{sname}",
                                      f"P_ij({vn}) != P_ji({rvn}) for scatterer kind '{sname}'",
                                      {"view": vn, "reciprocal_view": rvn, "scatterer": sname, "scat_angle": scat_angle,
                                       "i": int(i), "j": int(j), "grid_point": int(g_), "P_ij": A[g_, i, j], "P_ji_reciprocal": B[g_, j, i],
                                       "relative_residual": res, "switches": [use_dir, use_bs, use_tr, use_att],
                                       "couplant": [couplant.density, couplant.longitudinal_vel],
                                       "block": [block.density, vl, vt], "frequency": freq,
                                       "probe_locations": probe.locations.coords, "max_number_of_reflection": max_refl})
                else:
                    chk.count(non_reciprocal_switch_set_residual=">1e-6" if res > 1e-6 else "<=1e-6")
    if s_i == 0:
        samples.append({"setup": {"elements": numel, "max_refl": max_refl, "frequency": freq, "kappa_model": kappa_model,
                                  "views": len(views)}})

# ---------------------------------------------------------------------------
# an untilted probe whose first element, one wall sample per wall and the first scatterer are on one vertical line: rays at
# exactly 0 / pi at the scatterer, normal incidence at the walls; every kind of scatterer given as FUNCTIONS
# ---------------------------------------------------------------------------
for t_i in range(1 if Q else 4):
    setup = arimgen.immersion_setup(rng, max_refl=1, numelements=2, numscat=2, tilt_deg=0.0, aligned=True)
    views, block, probe, freq = setup["views"], setup["block"], setup["probe"], setup["freq"]
    vl, vt = block.longitudinal_vel, block.transverse_vel
    numel_ = probe.numelements
    tx, rx = arim.ut.fmc(numel_)
    rw = bim.ray_weights_for_views(views, freq, 0.5e-3)
    ang0 = setup["paths"]["LL"].rays and arim.ray.RayGeometry.from_path(setup["paths"]["LL"]).signed_inc_angle(-1)[0, 0]
    chk.count(aligned_first_ray_angle="exactly 0 or pi" if float(ang0) in (0.0, math.pi, -math.pi) else "not exact")
    for sname, scattering in (("crack", scat.CrackCentreScat(float(rng.uniform(0.5e-3, 2e-3)), vl, vt, block.density).as_angles_funcs(freq)),
                              ("sdh", scat.SdhScat(float(rng.uniform(0.2e-3, 1.0e-3)), vl, vt).as_angles_funcs(freq)),
                              ("point", scat.PointSourceScat(vl, vt).as_angles_funcs(freq))):
        amps = {vn: np.asarray(model.model_amplitudes_factory(tx, rx, v, rw, scattering)[...]) for vn, v in views.items()}
        scale = max(float(np.nanmax(np.abs(a))) if np.isfinite(a).any() else 0.0 for a in amps.values()) or 1.0
        for vn, a in amps.items():
            rvn = arim.ut.reciprocal_viewname(vn)
            A = a.reshape(a.shape[0], numel_, numel_)
            Bt = np.transpose(amps[rvn].reshape(a.shape[0], numel_, numel_), (0, 2, 1))
            ok_mask = np.isfinite(A) & np.isfinite(Bt)
            if not ok_mask.any():
                continue
            diff = np.where(ok_mask, np.abs(A - Bt), 0.0)
            res = float(np.max(diff) / scale)
            evaluations += A.size
            nontrivial.add(("rec-aligned", t_i, vn, sname))
            chk.count(scatterer=sname + "-aligned-set-up")
            if not (res <= (1e-7 if sname == "crack" else RTOL)):
                g_, i, j = np.unravel_index(int(np.argmax(diff)), A.shape)
                chk.violation(f"reciprocity-aligned:{sname}", f"P_ij({vn}) != P_ji({rvn}) on an untilted probe with vertical rays (scatterer kind '{sname}')",
                              {"view": vn, "reciprocal_view": rvn, "scatterer": sname, "i": int(i), "j": int(j), "grid_point": int(g_),
                               "P_ij": A[g_, i, j], "P_ji_reciprocal": Bt[g_, i, j], "relative_residual": res,
                               "block": [block.density, vl, vt], "frequency": freq, "probe_locations": probe.locations.coords,
                               "how": "arimgen.immersion_setup(rng, max_refl=1, numelements=2, numscat=2, tilt_deg=0.0, aligned=True); seed and tier replay it"})
                break

# ---------------------------------------------------------------------------
# MANY scatterer positions (an image-sized set: numscat x numtimetraces above 2^18 angle pairs in one evaluation of the
# scattering functions), direct views: P_ij(view) = P_ji(reciprocal view)
# ---------------------------------------------------------------------------
for t_i in range(1 if Q else 3):
    numel_ = 24
    numscat_ = int(rng.integers(470, 560))
    setup = arimgen.immersion_setup(rng, max_refl=0, wall_points=90, numelements=numel_, numscat=numscat_)
    views, block, probe, freq = setup["views"], setup["block"], setup["probe"], setup["freq"]
    vl, vt = block.longitudinal_vel, block.transverse_vel
    tx, rx = arim.ut.fmc(numel_)
    rw = bim.ray_weights_for_views(views, freq, 0.5e-3)
    for sname, scattering in (("sdh", scat.SdhScat(float(rng.uniform(0.2e-3, 1.0e-3)), vl, vt).as_angles_funcs(freq)),
                              ("point", scat.PointSourceScat(vl, vt).as_angles_funcs(freq))):
        amps = {vn: np.asarray(model.model_amplitudes_factory(tx, rx, v, rw, scattering)[...]) for vn, v in views.items()}
        scale = max(float(np.nanmax(np.abs(a))) if np.isfinite(a).any() else 0.0 for a in amps.values()) or 1.0
        for vn, a in amps.items():
            rvn = arim.ut.reciprocal_viewname(vn)
            A = a.reshape(a.shape[0], numel_, numel_)
            Bt = np.transpose(amps[rvn].reshape(a.shape[0], numel_, numel_), (0, 2, 1))
            ok_mask = np.isfinite(A) & np.isfinite(Bt)
            if not ok_mask.any():
                continue
            diff = np.where(ok_mask, np.abs(A - Bt), 0.0)
            res = float(np.max(diff) / scale)
            evaluations += A.size
            nontrivial.add(("rec-many", t_i, vn, sname))
            chk.count(scatterer=sname + "-many-positions")
            if not (res <= RTOL):
                g_, i, j = np.unravel_index(int(np.argmax(diff)), A.shape)
                chk.violation(f"reciprocity-many:{sname}", f"P_ij({vn}) != P_ji({rvn}) with {numscat_} scatterer positions x {len(tx)} timetraces "
                              f"(scatterer kind '{sname}')",
                              {"view": vn, "reciprocal_view": rvn, "scatterer": sname, "i": int(i), "j": int(j), "grid_point": int(g_),
                               "P_ij": A[g_, i, j], "P_ji_reciprocal": Bt[g_, i, j], "relative_residual": res, "numscat": numscat_,
                               "numelements": numel_, "block": [block.density, vl, vt], "frequency": freq,
                               "how": "arimgen.immersion_setup(rng, max_refl=0, wall_points=90, numelements=24, numscat=numscat); seed and tier replay it"})
                break

# ---------------------------------------------------------------------------
# the public pipeline scat_unshifted_transfer_functions (precomputed scattering matrices or
# functions), with a HISTORY on the scatterer object: first a subset of the views, then all
# ---------------------------------------------------------------------------
for t_i in range(2 if Q else 12):
    setup = arimgen.immersion_setup(rng, max_refl=int(rng.integers(0, 2)), wall_points=80, numelements=3, numscat=2)
    views, block, probe = setup["views"], setup["block"], setup["probe"]
    numel = probe.numelements
    tx, rx = arim.ut.fmc(numel)
    # the full matrix may be stored in any order (transmitter-major as ut.fmc, receiver-major, shuffled)
    order_ = [np.arange(len(tx)), np.lexsort((tx, rx)), rng.permutation(len(tx))][t_i % 3]
    tx, rx = np.asarray(tx)[order_], np.asarray(rx)[order_]
    pair_index = {(int(a), int(b)): k for k, (a, b) in enumerate(zip(tx, rx))}
    fwd_idx = np.array([[pair_index[(i, j)] for j in range(numel)] for i in range(numel)])      # [i, j] -> timetrace (i -> j)
    chk.count(pipeline_fmc_order=["tx-major", "rx-major", "shuffled"][t_i % 3])
    freq = setup["freq"]
    kinds = [("sdh", lambda: scat.scat_factory("sdh", block, radius=0.4e-3))]
    if t_i == 0 or not Q:
        kinds.append(("crack_centre", lambda: scat.scat_factory("crack_centre", block, crack_length=1.0e-3)))

    def tabulated():
        # (call 1, 5, 7, ...: unsorted frequencies AND mixed layouts; the other combinations on the other calls)
        # a data-backed scatterer: reciprocal matrices tabulated at 2 or 3 frequencies; the model frequencies below lie
        # inside AND outside the tabulated range (linear interpolation / extrapolation keeps the data reciprocal)
        nf_, na_ = int(rng.integers(2, 4)), int(rng.integers(6, 20))
        fs_ = np.sort(rng.uniform(0.8, 1.3, nf_)) * freq
        mats_ = [reciprocal_matrices(na_, block.longitudinal_vel, block.transverse_vel) for _ in range(nf_)]
        data_ = {k: np.stack([m[k] for m in mats_]) for k in ("LL", "LT", "TL", "TT")}
        _tab_calls[0] += 1
        if _tab_calls[0] % 3 != 0:
            # the tabulated frequencies listed in another order (high to low / as measured), the matrices with them
            perm_ = rng.permutation(nf_) if rng.random() < 0.5 else np.arange(nf_)[::-1]
            if np.array_equal(perm_, np.arange(nf_)):
                perm_ = np.arange(nf_)[::-1]
            fs_ = fs_[perm_]
            data_ = {k: np.ascontiguousarray(v[perm_]) for k, v in data_.items()}
            chk.count(tabulated_frequency_order="not increasing")
        if _tab_calls[0] % 2 == 1:
            # S_TL derived from S_LT by the reciprocity relation as a transposed (non C-contiguous) array, next to contiguous keys
            data_["TL"] = -(block.transverse_vel ** 2 / block.longitudinal_vel ** 2) * data_["LT"].transpose(0, 2, 1)
            chk.count(tabulated_memory_layouts="mixed" if not data_["TL"].flags.c_contiguous else "all contiguous")
        return scat.ScatFromData.from_dict(fs_, data_)
    kinds.append(("tabulated", tabulated))
    # several non-zero frequencies in one call (the multi-frequency model): every bin must be reciprocal
    freqs = np.array([freq, 0.7 * freq, 1.6 * freq]) if t_i % 2 == 0 else np.array([freq])
    for sname, mk in kinds:
        for nang in (0, 24):
            if sname == "crack_centre" and nang == 0 and Q:
                continue
            obj = mk()
            opts = dict(probe_element_width=0.5e-3, scat_angle=0.3, numangles_for_scat_precomp=nang)
            some = {k: v for k, v in views.items() if k == "L-L"}
            opts["first_nonzero_freq_idx"] = 0
            list(bim.scat_unshifted_transfer_functions(some, tx, rx, freqs, obj, **opts))       # history
            tfs = {vn: tf for vn, (tf, _) in zip(views, bim.scat_unshifted_transfer_functions(views, tx, rx, freqs, obj, **opts))}
            # the results KEPT by the caller (all views collected, as above) are those a caller sees who uses each one before asking
            # for the next (copied on the fly here)
            seen_ = {vn: np.array(tf, copy=True) for vn, (tf, _) in zip(views, bim.scat_unshifted_transfer_functions(views, tx, rx, freqs, obj, **opts))}
            for vn in views:
                if not np.array_equal(tfs[vn], seen_[vn], equal_nan=True):
                    chk.violation("pipeline:kept-results", f"scat_unshifted_transfer_functions: the transfer function of view {vn} kept by the caller "
                                  "while the other views were computed differs from the one it had when it was yielded",
                                  {"view": vn, "scatterer": sname, "numangles_for_scat_precomp": nang, "frequencies": freqs,
                                   "max_abs_difference": float(np.nanmax(np.abs(tfs[vn] - seen_[vn])))})
                    break
            tol = RTOL if nang == 0 else 1e-9
            for (vn, a), fbin in itertools.product(tfs.items(), range(len(freqs))):
                scale = max(float(np.nanmax(np.abs(x[..., fbin]))) for x in tfs.values()) or 1.0
                rvn = arim.ut.reciprocal_viewname(vn)
                A = a[..., fbin][:, fwd_idx]                                  # [g, i, j] = timetrace (i -> j)
                Bt = tfs[rvn][..., fbin][:, fwd_idx.T]                        # [g, i, j] = timetrace (j -> i) of the reciprocal view
                ok_mask = np.isfinite(A) & np.isfinite(Bt)
                if not ok_mask.any():
                    continue
                diff = np.where(ok_mask, np.abs(A - Bt), 0.0)
                res = float(np.max(diff) / scale)
                evaluations += A.size
                nontrivial.add(("pipeline", t_i, sname, nang, vn, fbin))
                chk.count(pipeline=f"{sname}:numangles={nang}")
                if not (res <= tol):
                    g_, i, j = np.unravel_index(int(np.argmax(diff)), A.shape)
                    chk.violation(f"pipeline:{sname}",
                                  f"scat_unshifted_transfer_functions: H_ij({vn}) != H_ji({rvn}) for '{sname}' "
                                  f"(numangles_for_scat_precomp={nang}, scatterer object used before for the L-L view alone)",
                                  {"view": vn, "reciprocal_view": rvn, "scatterer": sname, "numangles_for_scat_precomp": nang,
                                   "i": int(i), "j": int(j), "H_ij": A[g_, i, j], "H_ji_reciprocal": Bt[g_, i, j],
                                   "relative_residual": res, "frequencies": freqs, "frequency_bin": int(fbin)})

# ---------------------------------------------------------------------------
# captures other than FMC: one transmitter for all timetraces, a single timetrace, HMC, random
# pair lists.  The coefficient of timetrace k (tx_k -> rx_k) in view X-Y must equal the coefficient
# of the swapped timetrace (rx_k -> tx_k) in the reciprocal view, whatever the list of pairs.
# ---------------------------------------------------------------------------
for t_i in range(5 if Q else 40):
    setup = arimgen.immersion_setup(rng, max_refl=int(rng.integers(0, 2)), wall_points=80,
                                    numelements=int(rng.integers(2, 6)), numscat=int(rng.integers(2, 4)),
                                    attenuation=bool(rng.integers(0, 2)))
    views, block, probe, freq = setup["views"], setup["block"], setup["probe"], setup["freq"]
    numel = probe.numelements
    vl, vt = block.longitudinal_vel, block.transverse_vel
    cap = ["one-transmitter", "single-timetrace", "hmc", "random-pairs", "pulse-echo"][t_i % 5]
    if cap == "pulse-echo":
        tx = rx = np.arange(numel)
        if rng.random() < 0.5:
            rx = rx.copy()                  # equal values, two array objects
    elif cap == "one-transmitter":
        tx = np.full(numel, int(rng.integers(0, numel))); rx = np.arange(numel)
    elif cap == "single-timetrace":
        tx = np.array([int(rng.integers(0, numel))]); rx = np.array([int(rng.integers(0, numel))])
    elif cap == "hmc":
        tx, rx = arim.ut.hmc(numel)
    else:
        k = int(rng.integers(1, 2 * numel))
        tx, rx = rng.integers(0, numel, size=k), rng.integers(0, numel, size=k)
    tx, rx = np.asarray(tx), np.asarray(rx)
    rw = bim.ray_weights_for_views(views, freq, float(rng.uniform(0.2e-3, 1.0e-3)))
    scatterers = [("crack", scat.CrackCentreScat(float(rng.uniform(0.5e-3, 3e-3)), vl, vt, block.density).as_angles_funcs(freq)),
                  ("sdh", scat.SdhScat(float(rng.uniform(0.2e-3, 1.5e-3)), vl, vt).as_angles_funcs(freq)),
                  ("matrix", reciprocal_matrices(int(rng.integers(4, 40)), vl, vt))]
    for sname, scattering in scatterers:
        scat_angle = float(rng.uniform(-np.pi, np.pi)) if rng.random() < 0.5 else 0.0
        fwd = {vn: np.asarray(model.model_amplitudes_factory(tx, rx, v, rw, scattering, scat_angle)[...]) for vn, v in views.items()}
        swp = {vn: np.asarray(model.model_amplitudes_factory(rx, tx, v, rw, scattering, scat_angle)[...]) for vn, v in views.items()}
        scale = max(float(np.nanmax(np.abs(a))) if np.isfinite(a).any() else 0.0 for a in fwd.values()) or 1.0
        for vn, a in fwd.items():
            rvn = arim.ut.reciprocal_viewname(vn)
            b = swp[rvn]
            ok_mask = np.isfinite(a) & np.isfinite(b)
            if not ok_mask.any():
                continue
            diff = np.where(ok_mask, np.abs(a - b), 0.0)
            res = float(np.max(diff) / scale)
            evaluations += a.size
            nontrivial.add(("capture", t_i, cap, sname, vn))
            chk.count(capture=cap)
            worst_rec = max(worst_rec, res)
            if not (res <= RTOL):
                g_, k = np.unravel_index(int(np.argmax(diff)), a.shape)
                chk.violation(f"reciprocity-capture:{sname}",
                              f"P({vn}; tx_k -> rx_k) != P({rvn}; rx_k -> tx_k) for scatterer kind '{sname}' with a {cap} capture",
                              {"view": vn, "reciprocal_view": rvn, "scatterer": sname, "scat_angle": scat_angle, "capture": cap,
                               "tx": tx, "rx": rx, "timetrace": int(k), "grid_point": int(g_), "P": a[g_, k], "P_reciprocal": b[g_, k],
                               "relative_residual": res, "block": [block.density, vl, vt], "frequency": freq,
                               "probe_locations": probe.locations.coords, "scatterer_points": setup["scat"].points.coords})

chk.finish(
    evaluations=evaluations,
    distinct_nontrivial=len(nontrivial),
    rule=("one case = (immersion set-up, switch set, path) for the kappa ratio, (set-up, switch set, view, scatterer "
          "kind) for reciprocity; set-ups: random fluid/solid pair, 2..6 elements, tilt +-25 deg, standoff, wall "
          "sampling 50..400, 1..3 scatterers, 0..2 wall reflections, optional attenuation; scatterers: point, SDH, "
          "random reciprocal matrices (bilinear interpolation), crack centre (thorough), random scatterer rotation; "
          "evaluations counts compared coefficients"),
    samples=samples,
    extra={"setups": nsetups, "worst_relative_deviation_from_kappa": worst_kappa,
           "worst_reciprocity_residual": worst_rec, "tolerance": RTOL},
    assumptions=["reciprocity is asserted only for switch sets containing both beamspread and transmission/reflection "
                 "(with one of them off the identity is false by physics: the cos ratio is split between the two factors)"],
)
