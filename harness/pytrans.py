"""Fail-closed translator from a small subset of Python (straight-line numeric functions of
arim) to Gallina over the `Num` record of Base/Num.v.

It is the SECOND tie between model and code (the first, and the deciding one, is the
differential correspondence of each check): on every run the scalar kernels listed in
`harness/translation_ties.py` are re-translated from the CURRENT source and Coq re-checks
`translated = hand-written model` by `reflexivity` (the models mirror the code operation for
operation, so the two terms are convertible).  A one-token change of a formula therefore
breaks a proof obligation even before any input is tried.  A rewrite the translator cannot
follow (or one that changes the term without changing its value) breaks the obligation too;
that is reported in the evidence and makes the check deepen its correspondence run — it is
not by itself an alarm, because the correspondence tie still shows the property.

Supported: positional parameters; `if p is None: ...` blocks (skipped when p is declared as
given); assignments to names and to tuples of names from calls of other translated
functions; `+ - * /`, unary minus, `** n` for a small literal n; float/int literals (exact
rationals); sin cos sqrt exp arcsin (bare, math.*, np.*), np.sinc, pi; chained comparisons
`< <= > >=`, `and`; `if/else` whose branches return; `return` of an expression or a (nested) tuple;
`np.array(<nested tuple>, dtype=float)` (read as the nested tuple); `x += e`; arctan2;
`if p is None: p = <expr>` for parameters declared as omitted by the caller (the default
is taken: `np.zeros_like(.)` reads as 0); an `out=` keyword whose value is an omitted
parameter is ignored (in-place output buffers do not change values).
Anything else raises Untranslatable.
"""
import ast
import fractions
import inspect
import os
import textwrap


class Untranslatable(Exception):
    pass


FUN1 = {"sin": "nsin", "cos": "ncos", "sqrt": "nsqrt", "exp": "nexp", "arcsin": "nasin", "asin": "nasin",
        "arccos": "nacos", "acos": "nacos", "log": "nln"}


class Translator:
    def __init__(self, known=None, given=(), omitted=()):
        self.known = dict(known or {})      # python function name -> (coq name, returns_tuple_arity)
        self.given = set(given)
        self.omitted = set(omitted)         # parameters the caller leaves at their default None

    # -- expressions ---------------------------------------------------------
    def const(self, v):
        if isinstance(v, bool):
            raise Untranslatable("bool literal")
        if v == 0:
            return "(n0 N)"
        if v == 1:
            return "(n1 N)"
        if isinstance(v, int):
            return f"(nofZ N ({v})%Z)"
        if isinstance(v, float):
            fr = fractions.Fraction(v)
            if fr.denominator == 1:
                return f"(nofZ N ({fr.numerator})%Z)"
            return f"(ndiv N (nofZ N ({fr.numerator})%Z) (nofZ N ({fr.denominator})%Z))"
        raise Untranslatable(f"literal {v!r}")

    def expr(self, e):
        if isinstance(e, ast.Constant):
            return self.const(e.value)
        if isinstance(e, ast.Name):
            if e.id == "pi":
                return "(npi N)"
            return f"v_{e.id}"
        if isinstance(e, ast.Attribute):
            if e.attr == "pi" and isinstance(e.value, ast.Name) and e.value.id in ("np", "math", "numpy"):
                return "(npi N)"
            raise Untranslatable(f"attribute {ast.dump(e)}")
        if isinstance(e, ast.UnaryOp) and isinstance(e.op, ast.USub):
            return f"(nopp N {self.expr(e.operand)})"
        if isinstance(e, ast.BinOp):
            a = self.expr(e.left)
            if isinstance(e.op, ast.Pow):
                if isinstance(e.right, ast.Constant) and isinstance(e.right.value, int) and 1 <= e.right.value <= 4:
                    out = a
                    for _ in range(e.right.value - 1):
                        out = f"(nmul N {out} {a})"
                    return out
                raise Untranslatable("power")
            b = self.expr(e.right)
            op = {ast.Add: "nadd", ast.Sub: "nsub", ast.Mult: "nmul", ast.Div: "ndiv"}.get(type(e.op))
            if op is None:
                raise Untranslatable(f"operator {type(e.op).__name__}")
            return f"({op} N {a} {b})"
        if isinstance(e, (ast.Tuple, ast.List)):
            return "(" + ", ".join(self.expr(x) for x in e.elts) + ")"
        if isinstance(e, ast.Call):
            fn = e.func
            name = fn.id if isinstance(fn, ast.Name) else (fn.attr if isinstance(fn, ast.Attribute) else None)
            # an `out=` keyword naming an omitted parameter (None): no output buffer, same values
            kws = [k for k in e.keywords if not (k.arg == "out" and isinstance(k.value, ast.Name) and k.value.id in self.omitted)]
            kws = [k for k in kws if not (k.arg == "out" and name in FUN1 and isinstance(k.value, ast.Name)
                                          and len(e.args) == 1 and isinstance(e.args[0], ast.Name) and e.args[0].id == k.value.id)]
            if name == "array" and len(e.args) == 1 and isinstance(e.args[0], (ast.Tuple, ast.List)) and \
                    all(k.arg == "dtype" and isinstance(k.value, ast.Name) and k.value.id == "float" for k in kws):
                return self.expr(e.args[0])
            if name == "zeros_like" and len(e.args) == 1 and not kws:
                return "(n0 N)"
            if name == "arctan2" and len(e.args) == 2 and not kws:
                return f"(natan2 N {self.expr(e.args[0])} {self.expr(e.args[1])})"
            e = ast.Call(func=e.func, args=e.args, keywords=kws)
            if e.keywords and not (name in self.known):
                raise Untranslatable("keyword arguments")
            if name in FUN1 and len(e.args) == 1:
                return f"({FUN1[name]} N {self.expr(e.args[0])})"
            if name == "sinc" and len(e.args) == 1:
                return f"(np_sinc N {self.expr(e.args[0])})"
            if name in self.known:
                coq, _ = self.known[name]
                args = [self.expr(a) for a in e.args] + [self.expr(k.value) for k in e.keywords]
                return "(" + " ".join([coq, "N"] + args) + ")"
            raise Untranslatable(f"call of {name}")
        raise Untranslatable(f"expression {type(e).__name__}")

    def cond(self, t):
        if isinstance(t, ast.BoolOp) and isinstance(t.op, ast.And):
            parts = [self.cond(v) for v in t.values]
            out = parts[0]
            for p_ in parts[1:]:
                out = f"(andb {out} {p_})"
            return out
        if isinstance(t, ast.Compare):
            items = [t.left] + list(t.comparators)
            parts = []
            for op, a, b in zip(t.ops, items[:-1], items[1:]):
                A, B = self.expr(a), self.expr(b)
                if isinstance(op, ast.Lt):
                    parts.append(f"(nltb N {A} {B})")
                elif isinstance(op, ast.LtE):
                    parts.append(f"(nleb N {A} {B})")
                elif isinstance(op, ast.Gt):
                    parts.append(f"(nltb N {B} {A})")
                elif isinstance(op, ast.GtE):
                    parts.append(f"(nleb N {B} {A})")
                elif isinstance(op, ast.Eq):
                    parts.append(f"(neqb N {A} {B})")
                else:
                    raise Untranslatable("comparison")
            out = parts[0]
            for p_ in parts[1:]:
                out = f"(andb {out} {p_})"
            return out
        raise Untranslatable("condition")

    # -- statements ----------------------------------------------------------
    def ret(self, e):
        return self.expr(e)

    def block(self, stmts):
        """Translate a list of statements ending in a return (or an if/else of returns)."""
        if not stmts:
            raise Untranslatable("falls off the end")
        s, rest = stmts[0], stmts[1:]
        if isinstance(s, ast.Expr) and isinstance(s.value, ast.Constant) and isinstance(s.value.value, str):
            return self.block(rest)          # docstring
        if isinstance(s, ast.Return):
            return self.ret(s.value)
        if isinstance(s, ast.Assign) and len(s.targets) == 1:
            tgt = s.targets[0]
            v = s.value
            if (isinstance(tgt, ast.Name) and isinstance(v, ast.Call) and isinstance(v.func, ast.Attribute)
                    and v.func.attr == "asarray" and len(v.args) == 1 and isinstance(v.args[0], ast.Name)
                    and v.args[0].id == tgt.id):
                return self.block(rest)      # x = np.asarray(x): array coercion, identity on values
            if isinstance(tgt, ast.Name):
                return f"let v_{tgt.id} := {self.expr(s.value)} in\n  {self.block(rest)}"
            if isinstance(tgt, ast.Tuple) and all(isinstance(x, ast.Name) for x in tgt.elts):
                names = [f"v_{x.id}" for x in tgt.elts]
                pat = names[0]
                for n_ in names[1:]:
                    pat = f"({pat}, {n_})"
                return f"let '{pat} := {self.expr(s.value)} in\n  {self.block(rest)}"
            raise Untranslatable("assignment target")
        if isinstance(s, ast.AugAssign) and isinstance(s.target, ast.Name) and isinstance(s.op, (ast.Add, ast.Sub, ast.Mult)):
            op = {ast.Add: "nadd", ast.Sub: "nsub", ast.Mult: "nmul"}[type(s.op)]
            return f"let v_{s.target.id} := ({op} N v_{s.target.id} {self.expr(s.value)}) in\n  {self.block(rest)}"
        if isinstance(s, ast.If):
            t = s.test
            if (isinstance(t, ast.Compare) and len(t.ops) == 1 and isinstance(t.ops[0], ast.Is)
                    and isinstance(t.comparators[0], ast.Constant) and t.comparators[0].value is None
                    and isinstance(t.left, ast.Name)):
                if t.left.id in self.given and not s.orelse:
                    return self.block(rest)  # parameter supplied by the caller: the default is not taken
                if t.left.id in self.omitted and not s.orelse and all(isinstance(b, ast.Assign) for b in s.body):
                    return self.block(list(s.body) + rest)   # parameter omitted: the default branch runs
                raise Untranslatable(f"default of parameter {t.left.id}")
            if isinstance(t, ast.Compare) and rest == [] and s.orelse:
                return f"if {self.cond(t)} then {self.block(s.body)} else {self.block(s.orelse)}"
            if isinstance(t, ast.Compare) and len(s.body) == 1 and isinstance(s.body[0], ast.Raise) and not s.orelse:
                # argument validation that raises: outside the function's numeric meaning
                self.raises.append(ast.unparse(t))
                return self.block(rest)
            raise Untranslatable("if statement")
        raise Untranslatable(f"statement {type(s).__name__}")

    def function(self, src, pyname, coqname, params=None):
        tree = ast.parse(textwrap.dedent(src))
        fns = [n for n in tree.body if isinstance(n, ast.FunctionDef) and n.name == pyname] or \
              [n for n in ast.walk(tree) if isinstance(n, ast.FunctionDef) and n.name == pyname]
        if not fns:
            raise Untranslatable(f"function {pyname} not found")
        fn = fns[-1]                       # a later definition shadows an earlier one
        self.raises = []
        args = [a.arg for a in fn.args.args]
        if fn.args.vararg or fn.args.kwarg or fn.args.kwonlyargs:
            raise Untranslatable("signature")
        order = params or [a for a in args if a not in self.omitted]
        if sorted(order) != sorted(a for a in args if a not in self.omitted):
            raise Untranslatable(f"parameters of {pyname} are {args}")
        body = self.block(fn.body)
        binders = " ".join(f"v_{a}" for a in order)
        return f"Definition {coqname} {{T : Type}} (N : Num T) ({binders} : T) :=\n  {body}."


def source_of(module_relpath, src_root=None):
    root = src_root or os.environ.get("VERIF_ARIM_SRC") or "/repo/src"
    return open(os.path.join(root, "arim", module_relpath)).read()


# ---------------------------------------------------------------------------
# Typed variant for scalar numba kernels that mix integers (indices, sizes) and floats.
# ---------------------------------------------------------------------------
class KernelTranslator:
    """Straight-line numba kernels over floats (type T of the Num record) and integers (Z).

    Every expression is translated together with its type.  Reading of the Python operators,
    fixed here and part of the trusted base of the tie:
      a // d   on floats : nfloor N (a / d)                        (an integer, type Z)
      a % d    on floats : a - d * nofZ (nfloor N (a / d))          (Python's sign-of-divisor modulo)
      a % n    on integers: Z.modulo  (Python and Coq agree: sign of the divisor)
      int(z)   of an integer-valued expression: identity
      A[i, j]  for a parameter declared as a matrix: the function application  A i j
      A.shape[0] for such a parameter: the size parameter declared for it
      `if a != b: x = e1 else: x = e2`  is read as  x := if a =? b then e2 else e1
    Mixed arithmetic coerces the integer operand with nofZ.  Anything else raises Untranslatable."""

    def __init__(self, matrices=None):
        self.matrices = dict(matrices or {})      # python parameter -> name of its size parameter
        self.types = {}

    def lit(self, v):
        if isinstance(v, bool) or not isinstance(v, (int, float)):
            raise Untranslatable(f"literal {v!r}")
        if isinstance(v, int):
            return f"({v})%Z", "Z"
        fr = fractions.Fraction(v)
        if fr.denominator == 1:
            return f"(nofZ N ({fr.numerator})%Z)", "T"
        return f"(ndiv N (nofZ N ({fr.numerator})%Z) (nofZ N ({fr.denominator})%Z))", "T"

    def asT(self, te):
        t, ty = te
        return t if ty == "T" else f"(nofZ N {t})"

    def expr(self, e):
        if isinstance(e, ast.Constant):
            return self.lit(e.value)
        if isinstance(e, ast.Name):
            if e.id not in self.types:
                raise Untranslatable(f"unknown name {e.id}")
            return f"v_{e.id}", self.types[e.id]
        if isinstance(e, ast.Attribute) and e.attr == "pi" and isinstance(e.value, ast.Name) and e.value.id in ("np", "math"):
            return "(npi N)", "T"
        if isinstance(e, ast.UnaryOp) and isinstance(e.op, ast.USub):
            t, ty = self.expr(e.operand)
            return (f"(nopp N {t})", "T") if ty == "T" else (f"(- {t})%Z", "Z")
        if isinstance(e, ast.Subscript):
            v = e.value
            # A.shape[0]
            if (isinstance(v, ast.Attribute) and v.attr == "shape" and isinstance(v.value, ast.Name)
                    and v.value.id in self.matrices and isinstance(e.slice, ast.Constant) and e.slice.value in (0, 1)):
                return f"v_{self.matrices[v.value.id]}", "Z"
            if isinstance(v, ast.Name) and v.id in self.matrices and isinstance(e.slice, ast.Tuple) and len(e.slice.elts) == 2:
                i, j = (self.expr(x) for x in e.slice.elts)
                if i[1] != "Z" or j[1] != "Z":
                    raise Untranslatable("matrix index is not an integer")
                return f"(v_{v.id} {i[0]} {j[0]})", "T"
            raise Untranslatable("subscript")
        if isinstance(e, ast.Call) and isinstance(e.func, ast.Name) and e.func.id == "int" and len(e.args) == 1:
            t, ty = self.expr(e.args[0])
            if ty != "Z":
                raise Untranslatable("int() of a float expression")
            return t, "Z"
        if isinstance(e, ast.BinOp):
            a, b = self.expr(e.left), self.expr(e.right)
            bothZ = a[1] == "Z" and b[1] == "Z"
            if isinstance(e.op, (ast.Add, ast.Sub, ast.Mult)):
                if bothZ:
                    return f"({a[0]} {'+-*'[(ast.Add, ast.Sub, ast.Mult).index(type(e.op))]} {b[0]})%Z", "Z"
                op = {ast.Add: "nadd", ast.Sub: "nsub", ast.Mult: "nmul"}[type(e.op)]
                return f"({op} N {self.asT(a)} {self.asT(b)})", "T"
            if isinstance(e.op, ast.Div):
                return f"(ndiv N {self.asT(a)} {self.asT(b)})", "T"
            if isinstance(e.op, ast.FloorDiv):
                if bothZ:
                    return f"({a[0]} / {b[0]})%Z", "Z"
                return f"(nfloor N (ndiv N {self.asT(a)} {self.asT(b)}))", "Z"
            if isinstance(e.op, ast.Mod):
                if bothZ:
                    return f"({a[0]} mod {b[0]})%Z", "Z"
                A, B = self.asT(a), self.asT(b)
                return f"(nsub N {A} (nmul N {B} (nofZ N (nfloor N (ndiv N {A} {B})))))", "T"
            raise Untranslatable(f"operator {type(e.op).__name__}")
        raise Untranslatable(f"expression {type(e).__name__}")

    def block(self, stmts):
        if not stmts:
            raise Untranslatable("falls off the end")
        s, rest = stmts[0], stmts[1:]
        if isinstance(s, ast.Expr) and isinstance(s.value, ast.Constant) and isinstance(s.value.value, str):
            return self.block(rest)
        if isinstance(s, ast.Return):
            t, ty = self.expr(s.value)
            self.ret_type = ty
            return t
        if isinstance(s, ast.Assign) and len(s.targets) == 1 and isinstance(s.targets[0], ast.Name):
            t, ty = self.expr(s.value)
            self.types[s.targets[0].id] = ty
            return f"let v_{s.targets[0].id} := {t} in\n  {self.block(rest)}"
        if isinstance(s, ast.If) and len(s.body) == 1 and len(s.orelse) == 1 and \
                all(isinstance(b, ast.Assign) and len(b.targets) == 1 and isinstance(b.targets[0], ast.Name) for b in (s.body[0], s.orelse[0])) \
                and s.body[0].targets[0].id == s.orelse[0].targets[0].id \
                and isinstance(s.test, ast.Compare) and len(s.test.ops) == 1 and isinstance(s.test.ops[0], (ast.NotEq, ast.Eq)):
            a, b = self.expr(s.test.left), self.expr(s.test.comparators[0])
            if a[1] != "Z" or b[1] != "Z":
                raise Untranslatable("equality test on floats")
            e1, e2 = self.expr(s.body[0].value), self.expr(s.orelse[0].value)
            if e1[1] != e2[1]:
                raise Untranslatable("branches of different types")
            if isinstance(s.test.ops[0], ast.NotEq):
                e1, e2 = e2, e1
            name = s.body[0].targets[0].id
            self.types[name] = e1[1]
            return f"let v_{name} := (if ({a[0]} =? {b[0]})%Z then {e1[0]} else {e2[0]}) in\n  {self.block(rest)}"
        raise Untranslatable(f"statement {type(s).__name__}")

    def function(self, src, pyname, coqname, params):
        """params: list of (python name, kind) with kind in 'T', 'Z', 'M' (matrix Z -> Z -> T) or ('size', matrix):
        a size parameter is added for every matrix."""
        tree = ast.parse(textwrap.dedent(src))
        fns = [n for n in ast.walk(tree) if isinstance(n, ast.FunctionDef) and n.name == pyname]
        if not fns:
            raise Untranslatable(f"function {pyname} not found")
        fn = fns[-1]
        args = [a.arg for a in fn.args.args]
        if args != [p for p, k in params if k != "size"] or fn.args.vararg or fn.args.kwarg or fn.args.kwonlyargs:
            raise Untranslatable(f"parameters of {pyname} are {args}")
        binders = []
        for p, k in params:
            if k == "M":
                binders.append(f"(v_{p} : Z -> Z -> T)")
            elif k in ("T", "Z"):
                self.types[p] = k
                binders.append(f"(v_{p} : {k})")
            else:
                binders.append(f"(v_{p} : Z)")
        body = self.block(fn.body)
        return f"Definition {coqname} {{T : Type}} (N : Num T) {' '.join(binders)} :=\n  {body}."


# ---------------------------------------------------------------------------
# Summand of an accumulation loop (the delay-and-sum kernels of arim.im.das)
# ---------------------------------------------------------------------------
class SummandTranslator(KernelTranslator):
    """Translates the body of the loop nest

        for point in numba.prange(numpoints):
            res_tmp = 0.0
            for scan in range(numtimetraces):
                <assignments>
                if <out of window>: res_tmp += e1
                else: <assignments>; res_tmp += e2
            result[point] = res_tmp / numtimetraces

    into the summand  (fun r s => let ... in if ... then e1 else let ... in e2)  over the records of
    Model/Das.v (`r : prow T D` = the rows of the per-point tables read by iteration `point`,
    `s : scan D` = timetrace `scan` with its transmitter and receiver).  The skeleton above is checked
    syntactically (it is what `accumulate` of the model states: a left fold from 0 in timetrace order,
    divided by the number of timetraces; `prange` = map over the points).

    Three types: T (times, positions, fractions), Z (sample indices), D (sample values and amplitudes:
    real or complex, the `Data` record).  Reading of the subscripts (trusted, fixed here):
        lookup_times_tx[point, tx[scan]]   getT N (r_lt_tx r) (s_tx s)         (same for rx)
        amplitudes_tx[point, tx[scan]]     getD V (r_a_tx r) (s_tx s)          (same for rx)
        weighted_timetraces[scan, i]       sample V (s_x s) i
        weighted_timetraces[scan]          s_x s        (a row; its length is numsamples)
    and of the operators: D*D dmul, T*D and D*T dscale, D+D dadd, D-D dsub; round() nround, math.floor
    nfloor; `a < b or c >= d` the boolean `||` of the comparisons (integers: <? >=?; floats: nltb, nleb);
    lanczos_interpolation(t, row, a) the model's function of the same name with n = numsamples."""

    FIXED = {
        "lookup_times_tx[point, tx[scan]]": ("(getT N (r_lt_tx r) (s_tx s))", "T"),
        "lookup_times_rx[point, rx[scan]]": ("(getT N (r_lt_rx r) (s_rx s))", "T"),
        "amplitudes_tx[point, tx[scan]]": ("(getD V (r_a_tx r) (s_tx s))", "D"),
        "amplitudes_rx[point, rx[scan]]": ("(getD V (r_a_rx r) (s_rx s))", "D"),
        "weighted_timetraces[scan]": ("(s_x s)", "Row"),
    }

    def asT(self, te):
        t, ty = te
        if ty == "D":
            raise Untranslatable("a sample value used as a real number")
        if ty == "Z":
            return {"(0)%Z": "(n0 N)", "(1)%Z": "(n1 N)"}.get(t, f"(nofZ N {t})")
        return t

    def lit(self, v):
        if isinstance(v, float) and v == 0.0:
            return "(n0 N)", "T"
        if isinstance(v, float) and v == 1.0:
            return "(n1 N)", "T"
        return super().lit(v)

    def expr(self, e):
        if isinstance(e, ast.Subscript):
            key = ast.unparse(e)
            if key in self.FIXED:
                return self.FIXED[key]
            if (isinstance(e.value, ast.Name) and e.value.id == "weighted_timetraces" and isinstance(e.slice, ast.Tuple)
                    and len(e.slice.elts) == 2 and isinstance(e.slice.elts[0], ast.Name) and e.slice.elts[0].id == "scan"):
                i = self.expr(e.slice.elts[1])
                if i[1] != "Z":
                    raise Untranslatable("sample index is not an integer")
                return f"(sample V (s_x s) {i[0]})", "D"
            raise Untranslatable(f"subscript {key}")
        if isinstance(e, ast.Call):
            fn = e.func
            name = fn.id if isinstance(fn, ast.Name) else (fn.attr if isinstance(fn, ast.Attribute) else None)
            if e.keywords:
                raise Untranslatable("keyword arguments")
            if name == "round" and len(e.args) == 1:
                return f"(nround N {self.asT(self.expr(e.args[0]))})", "Z"
            if name == "floor" and len(e.args) == 1:
                return f"(nfloor N {self.asT(self.expr(e.args[0]))})", "Z"
            if name == "lanczos_interpolation" and len(e.args) == 3:
                t, x, a = (self.expr(a_) for a_ in e.args)
                if x[1] != "Row" or a[1] != "Z":
                    raise Untranslatable("arguments of lanczos_interpolation")
                return f"(lanczos_interpolation N V v_numsamples {self.asT(t)} {x[0]} {a[0]})", "D"
            raise Untranslatable(f"call of {name}")
        if isinstance(e, ast.BinOp):
            a, b = self.expr(e.left), self.expr(e.right)
            if "D" in (a[1], b[1]):
                if isinstance(e.op, ast.Mult):
                    if a[1] == "D" and b[1] == "D":
                        return f"(dmul V {a[0]} {b[0]})", "D"
                    d, t = (a, b) if a[1] == "D" else (b, a)
                    return f"(dscale V {self.asT(t)} {d[0]})", "D"
                if a[1] == "D" and b[1] == "D" and isinstance(e.op, (ast.Add, ast.Sub)):
                    return f"({'dadd' if isinstance(e.op, ast.Add) else 'dsub'} V {a[0]} {b[0]})", "D"
                raise Untranslatable("operator on sample values")
        return super().expr(e)

    def cond(self, t):
        if isinstance(t, ast.BoolOp) and isinstance(t.op, ast.Or):
            return "(" + " || ".join(self.cond(v) for v in t.values) + ")"
        if isinstance(t, ast.Compare) and len(t.ops) == 1 and isinstance(t.ops[0], (ast.Lt, ast.GtE)):
            a, b = self.expr(t.left), self.expr(t.comparators[0])
            if a[1] == "Z" and b[1] == "Z":
                return f"({a[0]} {'<?' if isinstance(t.ops[0], ast.Lt) else '>=?'} {b[0]})%Z"
            A, B = self.asT(a), self.asT(b)
            return f"(nltb N {A} {B})" if isinstance(t.ops[0], ast.Lt) else f"(nleb N {B} {A})"
        raise Untranslatable("condition")

    def body(self, stmts):
        """statements of the inner loop (or of a branch) -> the value added to res_tmp"""
        if not stmts:
            raise Untranslatable("a path through the loop body adds nothing to res_tmp")
        s, rest = stmts[0], stmts[1:]
        if isinstance(s, ast.Assign) and len(s.targets) == 1 and isinstance(s.targets[0], ast.Name):
            t, ty = self.expr(s.value)
            self.types[s.targets[0].id] = ty
            return f"let v_{s.targets[0].id} := {t} in\n  {self.body(rest)}"
        if isinstance(s, ast.AugAssign) and isinstance(s.target, ast.Name) and s.target.id == "res_tmp" \
                and isinstance(s.op, ast.Add) and not rest:
            t, ty = self.expr(s.value)
            if ty != "D":
                raise Untranslatable("the summand is not a sample value")
            return t
        if isinstance(s, ast.If) and not rest and s.orelse:
            return f"if {self.cond(s.test)} then {self.body(s.body)} else {self.body(s.orelse)}"
        raise Untranslatable(f"statement {type(s).__name__} in the loop body")

    def summand(self, src, pyname, coqname, scalars):
        """scalars: [(python parameter, 'T' | 'Z' | 'D')] in the order of the Coq binders."""
        tree = ast.parse(textwrap.dedent(src))
        fns = [n for n in tree.body if isinstance(n, ast.FunctionDef) and n.name == pyname]
        if not fns:
            raise Untranslatable(f"function {pyname} not found")
        fn = fns[-1]                       # a later definition shadows an earlier one
        outer = [n for n in fn.body if isinstance(n, ast.For)]
        if len(outer) != 1 or ast.unparse(outer[0].target) != "point" or ast.unparse(outer[0].iter) not in (
                "numba.prange(numpoints)", "range(numpoints)"):
            raise Untranslatable("outer loop is not `for point in numba.prange(numpoints)`")
        pre = [n for n in fn.body if not isinstance(n, (ast.For, ast.Expr))]
        if sorted(ast.unparse(n).replace("(", "").replace(")", "") for n in pre) != sorted(
                ["numtimetraces, numsamples = weighted_timetraces.shape", "numpoints, _ = lookup_times_tx.shape"]):
            raise Untranslatable("preamble: " + "; ".join(ast.unparse(n) for n in pre))
        ob = outer[0].body
        if len(ob) != 3 or ast.unparse(ob[0]) != "res_tmp = 0.0" or not isinstance(ob[1], ast.For) \
                or ast.unparse(ob[1].target) != "scan" or ast.unparse(ob[1].iter) != "range(numtimetraces)" \
                or ast.unparse(ob[2]) != "result[point] = res_tmp / numtimetraces":
            raise Untranslatable("loop skeleton differs from `res_tmp = 0.0; for scan ...: ...; result[point] = res_tmp / numtimetraces`")
        for p_, k in scalars:
            self.types[p_] = k
        self.types["numsamples"] = "Z"
        binders = "(v_numsamples : Z) " + " ".join(f"(v_{p_} : {k})" for p_, k in scalars)
        body = self.body(ob[1].body)
        return (f"Definition {coqname} {{T D : Type}} (N : Num T) (V : Data T D) {binders} (r : prow T D) (s : scan D) : D :=\n"
                f"  {body}.")


class AccumulationTranslator(SummandTranslator):
    """`lanczos_interpolation(t, x, a)`: integer bounds, `out = 0.0`, one `for i in range(lo, hi): out += e`
    loop, `return out`  ->  fold_left (fun out i => dadd V out e) (zrange lo (Z.to_nat (hi - lo))) (dzero V).
    `x` is a row of sample values, `len(x)` its length (a Z parameter), `x[k]` is `sample V x k`,
    `sinc(u)` the model's sinc (itself tied to the source)."""

    def expr(self, e):
        if isinstance(e, ast.Subscript) and isinstance(e.value, ast.Name) and self.types.get(e.value.id) == "Row":
            i = self.expr(e.slice)
            if i[1] != "Z":
                raise Untranslatable("row index is not an integer")
            return f"(sample V v_{e.value.id} {i[0]})", "D"
        if isinstance(e, ast.Call) and isinstance(e.func, ast.Name) and e.func.id == "len" and len(e.args) == 1 \
                and isinstance(e.args[0], ast.Name) and self.types.get(e.args[0].id) == "Row":
            return f"v_len_{e.args[0].id}", "Z"
        if isinstance(e, ast.Call) and isinstance(e.func, ast.Name) and e.func.id == "sinc" and len(e.args) == 1:
            return f"(sinc N {self.asT(self.expr(e.args[0]))})", "T"
        return super().expr(e)

    def accumulation(self, src, pyname, coqname, params):
        """params: [(name, 'T' | 'Z' | 'Row')]; a `v_len_<row>` binder precedes every row."""
        tree = ast.parse(textwrap.dedent(src))
        fns = [n for n in tree.body if isinstance(n, ast.FunctionDef) and n.name == pyname]
        if not fns:
            raise Untranslatable(f"function {pyname} not found")
        fn = fns[-1]
        if [a.arg for a in fn.args.args] != [p for p, _ in params]:
            raise Untranslatable(f"parameters of {pyname} are {[a.arg for a in fn.args.args]}")
        binders = []
        for p_, k in params:
            self.types[p_] = k
            if k == "Row":
                binders.append(f"(v_len_{p_} : Z) (v_{p_} : list D)")
            else:
                binders.append(f"(v_{p_} : {k})")
        stmts = [s for s in fn.body if not (isinstance(s, ast.Expr) and isinstance(s.value, ast.Constant))]
        lets = []
        while stmts and isinstance(stmts[0], ast.Assign) and ast.unparse(stmts[0]) != "out = 0.0":
            s = stmts.pop(0)
            if len(s.targets) != 1 or not isinstance(s.targets[0], ast.Name):
                raise Untranslatable("assignment target")
            t, ty = self.expr(s.value)
            self.types[s.targets[0].id] = ty
            lets.append(f"let v_{s.targets[0].id} := {t} in")
        if len(stmts) != 3 or ast.unparse(stmts[0]) != "out = 0.0" or not isinstance(stmts[1], ast.For) \
                or ast.unparse(stmts[2]) != "return out":
            raise Untranslatable("not `out = 0.0; for i in range(lo, hi): out += e; return out`")
        loop = stmts[1]
        it = loop.iter
        if not (isinstance(loop.target, ast.Name) and isinstance(it, ast.Call) and isinstance(it.func, ast.Name)
                and it.func.id == "range" and len(it.args) == 2 and len(loop.body) == 1
                and isinstance(loop.body[0], ast.AugAssign) and ast.unparse(loop.body[0].target) == "out"
                and isinstance(loop.body[0].op, ast.Add)):
            raise Untranslatable("loop shape")
        lo, hi = self.expr(it.args[0]), self.expr(it.args[1])
        if lo[1] != "Z" or hi[1] != "Z":
            raise Untranslatable("range bounds are not integers")
        self.types[loop.target.id] = "Z"
        e, ty = self.expr(loop.body[0].value)
        if ty != "D":
            raise Untranslatable("the summand is not a sample value")
        body = (f"fold_left (fun v_out v_{loop.target.id} => dadd V v_out {e})\n"
                f"    (zrange {lo[0]} (Z.to_nat ({hi[0]} - {lo[0]})%Z)) (dzero V)")
        return (f"Definition {coqname} {{T D : Type}} (N : Num T) (V : Data T D) {' '.join(binders)} : D :=\n  "
                + "\n  ".join(lets) + "\n  " + body + ".")


class ExpressionTranslator(SummandTranslator):
    """One expression cut out of a function body by a regular expression (for formulas that live inside array
    plumbing: the number of points of a grid axis, the delay split of the time-domain synthesis).  Variables are
    declared with their types; `abs` is nabs, `round` and `np.rint` are nround (both round half to even),
    `x[idx]` of a declared vector variable reads as the scalar of the current iteration."""

    def __init__(self, vars_):
        super().__init__()
        self.types = dict(vars_)

    def expr(self, e):
        if isinstance(e, ast.Subscript) and isinstance(e.value, ast.Name) and isinstance(e.slice, ast.Name) \
                and e.slice.id == "idx" and self.types.get(e.value.id) == "T":
            return f"v_{e.value.id}", "T"
        if isinstance(e, ast.Call) and not e.keywords and len(e.args) == 1:
            fn = e.func
            name = fn.id if isinstance(fn, ast.Name) else (fn.attr if isinstance(fn, ast.Attribute) else None)
            if name == "abs":
                return f"(nabs N {self.asT(self.expr(e.args[0]))})", "T"
            if name == "rint":
                return f"(nround N {self.asT(self.expr(e.args[0]))})", "Z"
            if name in FUN1:
                return f"({FUN1[name]} N {self.asT(self.expr(e.args[0]))})", "T"
        return super().expr(e)

    def block(self, src, pattern, subs, coqname, order):
        """pattern has two groups: a run of assignment statements and a final expression (e.g. the argument of
        `gamma_list.append(...)`); `subs` are textual substitutions applied first (array reads -> scalar names)."""
        import re
        found = re.findall(pattern, src, flags=re.S)
        if len(found) != 1:
            raise Untranslatable(f"pattern {pattern!r} found {len(found)} times in the source")
        stm, fin = found[0]
        for a, b in subs:
            stm, fin = stm.replace(a, b), fin.replace(a, b)
        lets = []
        for node in ast.parse(textwrap.dedent(stm)).body:
            if not (isinstance(node, ast.Assign) and len(node.targets) == 1 and isinstance(node.targets[0], ast.Name)):
                raise Untranslatable("statement in the block is not a simple assignment")
            t, ty = self.expr(node.value)
            self.types[node.targets[0].id] = ty
            lets.append(f"let v_{node.targets[0].id} := {t} in")
        t, ty = self.expr(ast.parse(" ".join(fin.split()), mode="eval").body)
        binders = " ".join(f"(v_{a} : {self.types[a]})" for a in order)
        return f"Definition {coqname} {{T : Type}} (N : Num T) {binders} : {ty} :=\n  " + "\n  ".join(lets + [t]) + "."

    def expression(self, src, pattern, coqname, order):
        import re
        found = re.findall(pattern, src, flags=re.S)
        if not found:
            raise Untranslatable(f"pattern {pattern!r} not found in the source")
        if len(set(" ".join(f.split()) for f in found)) != 1:
            raise Untranslatable(f"pattern {pattern!r} matches different expressions")
        t, ty = self.expr(ast.parse(" ".join(found[0].split()), mode="eval").body)
        binders = " ".join(f"(v_{a} : {self.types[a]})" for a in order)
        return f"Definition {coqname} {{T : Type}} (N : Num T) {binders} : {ty} :=\n  {t}."
