"""Fail-closed translator from a small subset of Python (straight-line numeric functions of
arim) to Gallina over the `Num` record of Base/Num.v.

It is the SECOND tie between model and code (the first, and the deciding one, is the
differential correspondence of each check): on every run the scalar kernels listed in
`harness/translation_ties.py` are re-translated from the CURRENT source and Coq re-checks
`translated = hand-written model` by `reflexivity` (the models mirror the code operation for
operation, so the two terms are convertible).  A one-token change of a formula therefore
breaks a proof obligation even before any input is tried.  A rewrite the translator cannot
follow (or one that changes the term without changing its value) breaks the obligation too;
that is reported in the evidence and makes the check deepen its correspondence run — it is
not by itself an alarm, because the correspondence tie still shows the property.

Supported: positional parameters; `if p is None: ...` blocks (skipped when p is declared as
given); assignments to names and to tuples of names from calls of other translated
functions; `+ - * /`, unary minus, `** n` for a small literal n; float/int literals (exact
rationals); sin cos sqrt exp arcsin (bare, math.*, np.*), np.sinc, pi; chained comparisons
`< <= > >=`, `and`; `if/else` whose branches return; `return` of an expression or a tuple.
Anything else raises Untranslatable.
"""
import ast
import fractions
import inspect
import os
import textwrap


class Untranslatable(Exception):
    pass


FUN1 = {"sin": "nsin", "cos": "ncos", "sqrt": "nsqrt", "exp": "nexp", "arcsin": "nasin", "asin": "nasin",
        "arccos": "nacos", "acos": "nacos", "log": "nln"}


class Translator:
    def __init__(self, known=None, given=()):
        self.known = dict(known or {})      # python function name -> (coq name, returns_tuple_arity)
        self.given = set(given)

    # -- expressions ---------------------------------------------------------
    def const(self, v):
        if isinstance(v, bool):
            raise Untranslatable("bool literal")
        if v == 0:
            return "(n0 N)"
        if v == 1:
            return "(n1 N)"
        if isinstance(v, int):
            return f"(nofZ N ({v})%Z)"
        if isinstance(v, float):
            fr = fractions.Fraction(v)
            if fr.denominator == 1:
                return f"(nofZ N ({fr.numerator})%Z)"
            return f"(ndiv N (nofZ N ({fr.numerator})%Z) (nofZ N ({fr.denominator})%Z))"
        raise Untranslatable(f"literal {v!r}")

    def expr(self, e):
        if isinstance(e, ast.Constant):
            return self.const(e.value)
        if isinstance(e, ast.Name):
            if e.id == "pi":
                return "(npi N)"
            return f"v_{e.id}"
        if isinstance(e, ast.Attribute):
            if e.attr == "pi" and isinstance(e.value, ast.Name) and e.value.id in ("np", "math", "numpy"):
                return "(npi N)"
            raise Untranslatable(f"attribute {ast.dump(e)}")
        if isinstance(e, ast.UnaryOp) and isinstance(e.op, ast.USub):
            return f"(nopp N {self.expr(e.operand)})"
        if isinstance(e, ast.BinOp):
            a = self.expr(e.left)
            if isinstance(e.op, ast.Pow):
                if isinstance(e.right, ast.Constant) and isinstance(e.right.value, int) and 1 <= e.right.value <= 4:
                    out = a
                    for _ in range(e.right.value - 1):
                        out = f"(nmul N {out} {a})"
                    return out
                raise Untranslatable("power")
            b = self.expr(e.right)
            op = {ast.Add: "nadd", ast.Sub: "nsub", ast.Mult: "nmul", ast.Div: "ndiv"}.get(type(e.op))
            if op is None:
                raise Untranslatable(f"operator {type(e.op).__name__}")
            return f"({op} N {a} {b})"
        if isinstance(e, ast.Call):
            fn = e.func
            name = fn.id if isinstance(fn, ast.Name) else (fn.attr if isinstance(fn, ast.Attribute) else None)
            if e.keywords and not (name in self.known):
                raise Untranslatable("keyword arguments")
            if name in FUN1 and len(e.args) == 1:
                return f"({FUN1[name]} N {self.expr(e.args[0])})"
            if name == "sinc" and len(e.args) == 1:
                return f"(np_sinc N {self.expr(e.args[0])})"
            if name in self.known:
                coq, _ = self.known[name]
                args = [self.expr(a) for a in e.args] + [self.expr(k.value) for k in e.keywords]
                return "(" + " ".join([coq, "N"] + args) + ")"
            raise Untranslatable(f"call of {name}")
        raise Untranslatable(f"expression {type(e).__name__}")

    def cond(self, t):
        if isinstance(t, ast.BoolOp) and isinstance(t.op, ast.And):
            parts = [self.cond(v) for v in t.values]
            out = parts[0]
            for p_ in parts[1:]:
                out = f"(andb {out} {p_})"
            return out
        if isinstance(t, ast.Compare):
            items = [t.left] + list(t.comparators)
            parts = []
            for op, a, b in zip(t.ops, items[:-1], items[1:]):
                A, B = self.expr(a), self.expr(b)
                if isinstance(op, ast.Lt):
                    parts.append(f"(nltb N {A} {B})")
                elif isinstance(op, ast.LtE):
                    parts.append(f"(nleb N {A} {B})")
                elif isinstance(op, ast.Gt):
                    parts.append(f"(nltb N {B} {A})")
                elif isinstance(op, ast.GtE):
                    parts.append(f"(nleb N {B} {A})")
                elif isinstance(op, ast.Eq):
                    parts.append(f"(neqb N {A} {B})")
                else:
                    raise Untranslatable("comparison")
            out = parts[0]
            for p_ in parts[1:]:
                out = f"(andb {out} {p_})"
            return out
        raise Untranslatable("condition")

    # -- statements ----------------------------------------------------------
    def ret(self, e):
        if isinstance(e, ast.Tuple):
            return "(" + ", ".join(self.expr(x) for x in e.elts) + ")"
        return self.expr(e)

    def block(self, stmts):
        """Translate a list of statements ending in a return (or an if/else of returns)."""
        if not stmts:
            raise Untranslatable("falls off the end")
        s, rest = stmts[0], stmts[1:]
        if isinstance(s, ast.Expr) and isinstance(s.value, ast.Constant) and isinstance(s.value.value, str):
            return self.block(rest)          # docstring
        if isinstance(s, ast.Return):
            return self.ret(s.value)
        if isinstance(s, ast.Assign) and len(s.targets) == 1:
            tgt = s.targets[0]
            v = s.value
            if (isinstance(tgt, ast.Name) and isinstance(v, ast.Call) and isinstance(v.func, ast.Attribute)
                    and v.func.attr == "asarray" and len(v.args) == 1 and isinstance(v.args[0], ast.Name)
                    and v.args[0].id == tgt.id):
                return self.block(rest)      # x = np.asarray(x): array coercion, identity on values
            if isinstance(tgt, ast.Name):
                return f"let v_{tgt.id} := {self.expr(s.value)} in\n  {self.block(rest)}"
            if isinstance(tgt, ast.Tuple) and all(isinstance(x, ast.Name) for x in tgt.elts):
                names = [f"v_{x.id}" for x in tgt.elts]
                pat = names[0]
                for n_ in names[1:]:
                    pat = f"({pat}, {n_})"
                return f"let '{pat} := {self.expr(s.value)} in\n  {self.block(rest)}"
            raise Untranslatable("assignment target")
        if isinstance(s, ast.If):
            t = s.test
            if (isinstance(t, ast.Compare) and len(t.ops) == 1 and isinstance(t.ops[0], ast.Is)
                    and isinstance(t.comparators[0], ast.Constant) and t.comparators[0].value is None
                    and isinstance(t.left, ast.Name)):
                if t.left.id in self.given and not s.orelse:
                    return self.block(rest)  # parameter supplied by the caller: the default is not taken
                raise Untranslatable(f"default of parameter {t.left.id}")
            if isinstance(t, ast.Compare) and rest == [] and s.orelse:
                return f"if {self.cond(t)} then {self.block(s.body)} else {self.block(s.orelse)}"
            if isinstance(t, ast.Compare) and len(s.body) == 1 and isinstance(s.body[0], ast.Raise) and not s.orelse:
                # argument validation that raises: outside the function's numeric meaning
                self.raises.append(ast.unparse(t))
                return self.block(rest)
            raise Untranslatable("if statement")
        raise Untranslatable(f"statement {type(s).__name__}")

    def function(self, src, pyname, coqname, params=None):
        tree = ast.parse(textwrap.dedent(src))
        fns = [n for n in ast.walk(tree) if isinstance(n, ast.FunctionDef) and n.name == pyname]
        if not fns:
            raise Untranslatable(f"function {pyname} not found")
        fn = fns[-1]                       # a later definition shadows an earlier one
        self.raises = []
        args = [a.arg for a in fn.args.args]
        if fn.args.vararg or fn.args.kwarg or fn.args.kwonlyargs:
            raise Untranslatable("signature")
        order = params or args
        if sorted(order) != sorted(args):
            raise Untranslatable(f"parameters of {pyname} are {args}")
        body = self.block(fn.body)
        binders = " ".join(f"v_{a}" for a in order)
        return f"Definition {coqname} {{T : Type}} (N : Num T) ({binders} : T) :=\n  {body}."


def source_of(module_relpath, src_root=None):
    root = src_root or os.environ.get("VERIF_ARIM_SRC") or "/repo/src"
    return open(os.path.join(root, "arim", module_relpath)).read()
