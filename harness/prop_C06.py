"""C06 — 2D beamspread equals the geometric ray-tube divergence.

Proof side : Props/C06.v (for any number of legs the model of
             beamspread_2d_for_path equals the amplitude of the infinitesimal ray
             tube; gamma = Snell beta; d = r in one medium; 1/sqrt(s) scaling).
Tie        : the extracted model (OCaml, float instance with libm) is run on the leg
             lengths, velocities and conventional incidence angles READ from real
             arim RayGeometry objects and compared, ray by ray, with
             arim.model.beamspread_2d_for_path on the same object (class T, 1e-11).
Search     : on a disagreement the spec itself (extracted tube_amplitude with Snell
             betas) is evaluated on the implementation's inputs; if the implementation
             also disagrees with the spec the input is a failing input.
"""
import numpy as np
from common import Check, close
import arimgen
from arimgen import fhex, unhex

chk = Check("C06", design_ref="DESIGN.md §5 C06")
chk.proofs(extra_trusted=[
    "extraction: ExtrOcamlBasic only (Extract/C06.v); ocaml/common/numf.ml (float record from OCaml floats + libm, Z/int conversions) and ocaml/C06/driver.ml are hand-written and trusted",
    "modelled, not verified: RayGeometry supplies leg sizes/angles (C05); numpy sin/cos vs libm sin/cos differ by <= 1 ulp (tolerance 1e-11)",
])
arim = chk.import_arim()
import arim.model as model
import arim.ray

drv = arimgen.Driver(chk.ocaml_driver("C06"))
rng = chk.rng
# second tie: the per-interface virtual-source coefficients (forward and reverse) are cut out of the current source,
# translated and checked convertible with Model.Beamspread.gamma_of / rev_gamma_of; a broken tie deepens the run
_ties = chk.translation_tie()
Q = chk.tier == "quick" and all(v == "ok" for v in _ties.values())
TOL = 1e-11
lines, meta = [], []
nsetups = 40 if Q else 300
for s_i in range(nsetups):
    max_refl = int(rng.integers(0, 3))
    setup = arimgen.immersion_setup(rng, max_refl=max_refl, wall_points=int(rng.integers(40, 250)))
    for name, path in setup["paths"].items():
        # the implementation is evaluated on one of three memory layouts of the rays (C order as traced,
        # Fortran order as used by TFM, or the reversed path whose rays are Fortran-ordered by default); the
        # model inputs always come from a C-ORDERED copy of the same rays, so a layout-dependent gather in
        # RayGeometry or in the beamspread code shows up as a disagreement
        layout = str(rng.choice(["C", "F", "reversed"]))
        vel = [float(v) for v in path.velocities]
        if layout == "reversed":
            rpath = path.reverse()
            itfs, rays_c, rays_impl, vel = rpath.interfaces, path.rays.reverse(order="c"), rpath.rays, vel[::-1]
        elif layout == "F":
            itfs, rays_c, rays_impl = path.interfaces, path.rays, path.rays.to_fortran_order()
        else:
            itfs, rays_c, rays_impl = path.interfaces, path.rays, path.rays
        assert rays_c.interior_indices.flags.c_contiguous
        rg = arim.ray.RayGeometry(itfs, rays_c, use_cache=bool(rng.integers(0, 2)))
        n = rg.numinterfaces - 1
        legs = [np.asarray(rg.inc_leg_size(k)) for k in range(1, n + 1)]
        thetas = [np.asarray(rg.conventional_inc_angle(k)) for k in range(1, n)]
        impl = np.asarray(model.beamspread_2d_for_path(arim.ray.RayGeometry(itfs, rays_impl)))
        impl_rev = np.asarray(model.reverse_beamspread_2d_for_path(arim.ray.RayGeometry(itfs, rays_impl)))
        chk.count(ray_layout=layout)
        ne, ng = impl.shape
        for i in range(ne):
            for j in range(ng):
                if rng.random() > (0.5 if Q else 0.25):
                    continue
                xs = vel + [float(l[i, j]) for l in legs] + [float(t[i, j]) for t in thetas]
                lines.append(f"{n} " + " ".join(fhex(x) for x in xs))
                meta.append(dict(setup=s_i, path=name, i=i, j=j, legs_n=n, vel=vel, ray_layout=layout,
                                 legs=[float(l[i, j]) for l in legs], thetas=[float(t[i, j]) for t in thetas],
                                 impl=float(impl[i, j]), impl_rev=float(impl_rev[i, j])))
                chk.count(legs=n, modes=name)

outs = drv.run(lines)
nontrivial = set()
bad = 0
for m, o in zip(meta, outs):
    b, rb, vd, ta = (unhex(x) for x in o.split())
    m.update(model_beamspread=b, model_reverse=rb, model_virtual_distance=vd, spec_tube_amplitude=ta)
    if m["legs_n"] >= 2 and b == b:
        nontrivial.add((m["setup"], m["path"], m["i"], m["j"]))
    ok = close(m["impl"], b, TOL)
    if b != b:
        chk.count(regime="beyond total reflection (virtual distance < 0, nan on both sides)")
    else:
        chk.count(regime="regular")
    if not ok:
        bad += 1
        # spec predicate on the implementation's output: tube amplitude with Snell betas
        spec_fails = not close(m["impl"], ta, 1e-9)
        chk.violation(f"beamspread:{m['path']}",
                      f"beamspread_2d_for_path differs from the model on path {m['path']} ray ({m['i']},{m['j']})",
                      dict(m, correspondence="Model.Beamspread.beamspread (extracted) vs arim.model.beamspread_2d_for_path"),
                      failing_input_found=spec_fails)
    okr = close(m["impl_rev"], rb, TOL)
    if not okr:
        chk.violation(f"reverse_beamspread:{m['path']}",
                      f"reverse_beamspread_2d_for_path differs from the model on path {m['path']}",
                      dict(m, correspondence="Model.Beamspread.reverse_beamspread (extracted)"),
                      failing_input_found=False)

# ---------------------------------------------------------------------------
# Snell-exact single-ray geometries with TILTED walls: the model is fed with leg
# lengths and incidence angles computed analytically here (independent of arim's
# RayGeometry), and the finite-difference ray tube is evaluated as the spec.
# ---------------------------------------------------------------------------
import snellexact
se_lines, se_meta = [], []
want_se = 150 if Q else 1500
tries = 0
while len(se_meta) < want_se and tries < 20 * want_se:
    tries += 1
    intvel = tries % 5 == 0
    normal_ = tries % 6 == 1             # every wall met exactly along its normal (walls tilted by whole degrees)
    intsrc_ = normal_ and tries % 12 == 1
    geom = snellexact.normal_incidence_geometry(rng, integer_source=intsrc_) if normal_ else \
        snellexact.random_geometry(rng, integer_velocities=intvel)
    if geom is None:
        continue
    intvel = intvel and not normal_
    d_tube = snellexact.tube_distance(geom["src"], geom["phi"], geom["walls"], geom["vels"], geom["last_len"])
    if d_tube is None or not (d_tube > 0):
        continue
    # some walls are finely sampled (flat frames except at the crossing sample, which has the true local normal); the crossing
    # sample is designated by its index k or, equivalently, by k - numpoints (counted from the end of the wall)
    crowd_ = 41 if (tries % 7 == 3 and not intsrc_ and geom["nlegs"] >= 2) else None
    from_end_ = crowd_ is not None and tries % 14 == 3
    bframes_ = tries % 3 == 2
    path = snellexact.arim_path(geom, arim, int_source=intsrc_, crowd=crowd_, from_end=from_end_, broadcast_frames=bframes_)
    chk.count(snell_exact_frames_storage="stride-0 broadcast view" if bframes_ else "one matrix per point")
    if crowd_ is not None:
        chk.count(snell_exact_finely_sampled_wall="sample counted from the end" if from_end_ else "sample counted from the start")
    if normal_:
        chk.count(snell_exact_normal_incidence="integer-typed source" if intsrc_ else "float source")
    if intvel:
        # a hand-built FermatPath whose velocities are written as integers (Python int / numpy int64): the same numbers
        fp_ = path.to_fermat_path()
        seq_ = []
        for k_, x_ in enumerate(fp_):
            seq_.append((int(x_) if tries % 10 == 0 else np.int64(int(x_))) if k_ % 2 == 1 else x_)
        path.rays = arim.ray.Rays(path.rays.times, path.rays.interior_indices, arim.ray.FermatPath(tuple(seq_)))
        chk.count(snell_exact_velocities="integer-typed")
    impl = float(model.beamspread_2d_for_path(arim.ray.RayGeometry.from_path(path))[0, 0])
    impl_rev = float(model.reverse_beamspread_2d_for_path(arim.ray.RayGeometry.from_path(path))[0, 0])
    n = geom["nlegs"]
    xs = geom["vels"] + geom["legs"] + geom["inc"]
    se_lines.append(f"{n} " + " ".join(fhex(x) for x in xs))
    se_meta.append(dict(nlegs=n, vels=geom["vels"], legs=geom["legs"], inc=geom["inc"], src=geom["src"], phi=geom["phi"],
                        walls=[(list(w[0]), w[1], w[2]) for w in geom["walls"]], last_len=geom["last_len"],
                        impl=impl, impl_rev=impl_rev, tube=1.0 / np.sqrt(d_tube)))
    chk.count(snell_exact_legs=n, tilted=sum(1 for w in geom["walls"] if w[1] != 0.0))
for m, o in zip(se_meta, drv.run(se_lines) if se_lines else []):
    b, rb, vd, ta = (unhex(x) for x in o.split())
    m.update(model_beamspread=b, model_tube_amplitude=ta)
    if m["nlegs"] >= 2:
        nontrivial.add(("snell", tuple(m["legs"])))
    if not close(m["impl"], b, 1e-9):
        spec_fails = not close(m["impl"], m["tube"], 1e-5)
        chk.violation(f"snell-exact:{m['nlegs']}legs",
                      "beamspread_2d_for_path on a Snell-exact ray (tilted walls) differs from the model fed with "
                      "analytically computed leg lengths and angles",
                      dict(m, correspondence="Model.Beamspread.beamspread on independent geometry"),
                      failing_input_found=spec_fails)
    elif not close(m["impl_rev"], rb, 1e-9):
        # reverse beamspread on the same Snell-exact ray (contact-like paths may start and end in the same wave mode,
        # through tilted walls): the model's reverse value is the proved tube amplitude of the reversed ray
        chk.violation(f"snell-exact-reverse:{m['nlegs']}legs",
                      "reverse_beamspread_2d_for_path on a Snell-exact ray (tilted walls) differs from the model fed with "
                      "analytically computed leg lengths and angles",
                      dict(m, model_reverse=rb, correspondence="Model.Beamspread.reverse_beamspread on independent geometry"),
                      failing_input_found=True)
    elif not close(b, m["tube"], 1e-5) and b == b:
        # the model itself disagrees with the finite-difference tube: model/spec problem, not arim's
        chk.violation("snell-exact:fd-tube", "finite-difference ray tube disagrees with the proved model", m,
                      failing_input_found=False)

# a path that meets the SAME wall twice (the same Interface object at two positions, as arim's own back-wall echo paths
# do): the beamspread of the cached RayGeometry must be that of an uncached one, and the model's on its inputs
ws_lines, ws_meta = [], []
for t_ in range(3 if Q else 20):
    S_ = arimgen.immersion_setup(rng, max_refl=1, wall_points=int(rng.integers(40, 120)), numelements=int(rng.integers(2, 4)),
                                 numscat=int(rng.integers(2, 4)), trace=False)
    I_ = S_["interfaces"]
    modes_ = ["L"] + [str(rng.choice(["L", "T"])) for _ in range(4)]
    pth = arim.Path([I_["probe"], I_["frontwall_trans"], I_["backwall_refl"], I_["frontwall_refl"], I_["backwall_refl"], I_["grid"]],
                    [S_["couplant"]] + [S_["block"]] * 4, modes_, name="twice-the-back-wall")
    arim.ray.ray_tracing_for_paths([pth])
    unc = arim.ray.RayGeometry.from_path(pth, use_cache=False)
    n_ = unc.numinterfaces - 1
    vel_ = [float(v) for v in pth.velocities]
    legs_ = [np.asarray(unc.inc_leg_size(k)) for k in range(1, n_ + 1)]
    ths_ = [np.asarray(unc.conventional_inc_angle(k)) for k in range(1, n_)]
    got_ = {"fwd": np.asarray(model.beamspread_2d_for_path(arim.ray.RayGeometry.from_path(pth))),
            "rev": np.asarray(model.reverse_beamspread_2d_for_path(arim.ray.RayGeometry.from_path(pth)))}
    for i_ in range(got_["fwd"].shape[0]):
        for j_ in range(got_["fwd"].shape[1]):
            xs_ = vel_ + [float(l[i_, j_]) for l in legs_] + [float(t[i_, j_]) for t in ths_]
            ws_lines.append(f"{n_} " + " ".join(fhex(x) for x in xs_))
            ws_meta.append(dict(modes="".join(modes_), i=i_, j=j_, impl=float(got_["fwd"][i_, j_]), impl_rev=float(got_["rev"][i_, j_])))
    chk.count(wall_met_twice="".join(modes_))
for m_, o_ in zip(ws_meta, drv.run(ws_lines) if ws_lines else []):
    b_, rb_, _, _ = (unhex(x) for x in o_.split())
    if not close(m_["impl"], b_, TOL) or not close(m_["impl_rev"], rb_, TOL):
        chk.violation("same-wall-twice", "beamspread on a path that meets the same Interface object twice differs from the model fed with "
                      "the leg lengths and angles of an uncached RayGeometry", dict(m_, model_beamspread=b_, model_reverse=rb_))

# single medium, LARGE target sets (a TFM grid of more than 2^15 points): d = r for every ray, forward and reverse
g_ = arim.geometry
for nbig in ((36000,) if Q else (36000, 70000)):
    src = g_.Points(np.array([[0.0, 0.0, 0.0], [3e-3, 0.0, 1e-3]]))
    xs = rng.uniform(-30e-3, 30e-3, nbig)
    zs = rng.uniform(5e-3, 60e-3, nbig)
    dst = g_.Points(np.stack([xs, np.zeros(nbig), zs], axis=1))
    itf = [arim.Interface(src, g_.default_orientations(src), are_normals_on_out_rays_side=True),
           arim.Interface(dst, g_.default_orientations(dst), are_normals_on_inc_rays_side=True)]
    pth = arim.Path(itf, [arim.Material(longitudinal_vel=5900.0)], ["L"])
    arim.ray.ray_tracing_for_paths([pth])
    want = 1.0 / np.sqrt(np.linalg.norm(dst.coords[None, :, :] - src.coords[:, None, :], axis=-1))
    for nm_, fn_ in (("beamspread_2d_for_path", model.beamspread_2d_for_path), ("reverse_beamspread_2d_for_path", model.reverse_beamspread_2d_for_path)):
        got = np.asarray(fn_(arim.ray.RayGeometry.from_path(pth)))
        chk.count(large_single_medium=nm_)
        if got.shape != want.shape or not np.allclose(got, want, rtol=1e-12, atol=0):
            bad_ = np.argwhere(~np.isclose(got, want, rtol=1e-12, atol=0))[-1] if got.shape == want.shape else None
            chk.violation("single-medium:large-set", f"{nm_} in a single medium is not 1/sqrt(r) for every ray of a {nbig}-point target set",
                          dict(function=nm_, numtargets=nbig, ray=None if bad_ is None else [int(b) for b in bad_],
                               got=None if bad_ is None else float(got[tuple(bad_)]), expected=None if bad_ is None else float(want[tuple(bad_)]),
                               how="targets = rng.uniform in a 60 x 55 mm box; seed and tier replay it"))

# scaling law on the implementation: scale the geometry by s -> beamspread / sqrt(s)
nscale = 0
for _ in range(3 if Q else 20):
    seed2 = int(rng.integers(0, 2**31))
    s = float(rng.choice([0.25, 0.5, 2.0, 3.0, 10.0]))
    def build(scale):
        r2 = np.random.default_rng(seed2)
        return arimgen.immersion_setup(r2, max_refl=1, wall_points=80, numelements=3, numscat=2)
    a = build(1.0)
    # scale every interface of a copy
    bset = build(1.0)
    done_ = set()
    for itf in bset["interfaces"].values():      # (two interfaces may share one Points object: scaled once)
        if id(itf.points) not in done_:
            done_.add(id(itf.points))
            itf.points.coords[...] *= s
    arim.ray.ray_tracing_for_paths(list(bset["paths"].values()))
    for name in a["paths"]:
        b1 = model.beamspread_2d_for_path(arim.ray.RayGeometry.from_path(a["paths"][name]))
        b2 = model.beamspread_2d_for_path(arim.ray.RayGeometry.from_path(bset["paths"][name]))
        same_rays = all(np.array_equal(x, y) for x, y in zip(a["paths"][name].rays.indices, bset["paths"][name].rays.indices))
        if same_rays and not np.allclose(b2, b1 / np.sqrt(s), rtol=1e-10, atol=0, equal_nan=True):
            chk.violation(f"scaling:{name}", "beamspread does not scale as 1/sqrt(s)",
                          {"path": name, "s": s, "seed2": seed2, "b1": b1, "b2": b2})
        nscale += 1

# translation law on the implementation: the same scene described tens to hundreds of metres away from the origin of the
# GCS (site coordinates), SAME rays (copied, not traced again): the same beamspread -- it depends on leg lengths, velocities and
# angles only
for _ in range(3 if Q else 20):
    seed2 = int(rng.integers(0, 2**31))
    off_ = rng.uniform(-900.0, 900.0, 3) * float(rng.choice([0.02, 0.2, 1.0]))
    a = arimgen.immersion_setup(np.random.default_rng(seed2), max_refl=1, wall_points=80, numelements=3, numscat=2)
    bset = arimgen.immersion_setup(np.random.default_rng(seed2), max_refl=1, wall_points=80, numelements=3, numscat=2, offset=off_, trace=False)
    for name in a["paths"]:
        pa_, pb_ = a["paths"][name], bset["paths"][name]
        pb_.rays = arim.ray.Rays(np.array(pa_.rays.times), np.array(pa_.rays.interior_indices), pb_.to_fermat_path())
        rga_ = arim.ray.RayGeometry.from_path(pa_)
        nif_ = len(pa_.interfaces)
        # well-conditioned rays only: away from grazing incidence / the critical angles (there the virtual distance amplifies
        # the rounding of the translated coordinates without bound) -- cosines of all interior angles at least 0.3
        well_ = np.ones(np.asarray(pa_.rays.times).shape, bool)
        minleg_ = np.inf
        with np.errstate(all="ignore"):
            for k_ in range(1, nif_):
                minleg_ = min(minleg_, float(np.min(rga_.inc_leg_size(k_))))
                if k_ < nif_ - 1:
                    inc_k = rga_.conventional_inc_angle(k_)
                    # (the function derives the refracted angle from the incidence angle by Snell's law, in both directions)
                    snell_fwd = np.abs(pa_.velocities[k_] / pa_.velocities[k_ - 1] * np.sin(inc_k))
                    well_ &= (np.abs(np.cos(inc_k)) >= 0.3) & (snell_fwd <= 0.95) & (np.abs(np.cos(rga_.conventional_out_angle(k_))) >= 0.3)
        for fn_ in (model.beamspread_2d_for_path, model.reverse_beamspread_2d_for_path):
            b1 = fn_(arim.ray.RayGeometry.from_path(pa_))
            b2 = fn_(arim.ray.RayGeometry.from_path(pb_))
            nscale += 1
            # (translating the coordinates rounds them: a leg changes by about eps * |offset| / leg relative; the factor allows
            #  for the amplification by 1 / cos^2 of the angles kept above)
            tol_ = 1e-12 + 400 * np.finfo(float).eps * float(np.max(np.abs(off_))) / max(minleg_, 1e-6)
            well2_ = well_ & np.isfinite(b1) & np.isfinite(b2)
            if np.any(well_ & (np.isfinite(b1) != np.isfinite(b2))) or not np.allclose(b2[well2_], b1[well2_], rtol=tol_, atol=0):
                chk.violation(f"translation:{name}", f"{fn_.__name__} changes when the whole scene is translated by {off_.tolist()} m",
                              {"path": name, "offset": off_, "seed2": seed2, "at_origin": b1, "translated": b2, "rtol": tol_})
                break
chk.count(translated_scenes="rays copied, scene moved by tens to hundreds of metres")

samples = [{k: meta[i][k] for k in ("path", "vel", "legs", "thetas", "impl", "model_beamspread", "spec_tube_amplitude")}
           for i in range(0, len(meta), max(1, len(meta) // 4))][:4]
# ---- the glue model of the public functions (Model files added later, see manifest text) tied to the library on every run:
#      inputs generated here, the library run on them, the model evaluated on the same inputs by vm_compute inside coqc
import ties.tie_C06 as _tie_glue  # noqa: E402
_tie_n = _tie_glue.run(chk, arim, rng, Q)
chk.cov["glue_model_tie_comparisons"] = int(_tie_n or 0)

chk.finish(
    evaluations=len(meta) + nscale + len(se_meta) + len(ws_meta) + 2 * (36000 if Q else 106000),
    distinct_nontrivial=len(nontrivial),
    rule=("one case = one ray (element i, scatterer j) of one path of a random immersion set-up (random materials, "
          "tilt, standoff, wall sampling, 0..2 reflections => 2..4 legs with mode conversion); non-trivial = at least "
          "one interface crossed (>= 2 legs); model inputs are read from arim's RayGeometry; tolerance 1e-11 relative"),
    samples=samples,
    extra={"snell_exact_rays": len(se_meta), "setups": nsetups, "scaling_cases": nscale, "disagreements": bad, "tolerance": TOL},
    assumptions=["rounding: theorems hold in exact arithmetic; model and implementation are compared in binary64 at 1e-11"],
)
