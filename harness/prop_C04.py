"""C04 — Interface coefficients obey Snell, energy conservation and Stokes relations.

Proof side : Props/C04.v (Snell's law for the real and the complex branch of
             snell_angles; energy conservation of fluid_solid / solid_l_fluid /
             solid_t_fluid below the critical angles, and for complex angles between /
             beyond the critical angles (fluid->solid) and beyond the L critical angle
             (T incidence); Stokes relations in any field, hence for complex angles;
             normal incidence; dispatch tables of transmission_at_interface /
             reflection_at_interface).
Tie        : the extracted model (OCaml, float instance with libm, complex numbers as
             pairs) is run on the same materials and angles as arim.model.* :
               asin   numpy arcsin (real and complex dtype) on the sine computed by arim
               snell  snell_angles end to end
               n      _fluid_solid_n with the three angles given
               angles the three coefficient functions with the three angles GIVEN
                      (those arim's own snell_angles returns) -- no ill-conditioning,
                      so critical angle +- {0, 1 ulp, 1e-9} are compared too
               sc     the (sin, cos) layer of the model, the one the theorems speak about
               auto   the three functions with Snell angles computed on the fly, and
               helper transmission_at_interface / reflection_at_interface for every
                      (kind, mode_in, mode_out, unit, force_complex) incl. the raising ones;
                      end-to-end cases closer than 1e-9 to a critical sine are counted as
                      ambiguous (class D) and compared through `angles` instead.
             Class T: 1e-11 relative to max(1, |coefficients|), times the condition number of
             the sum N (DESIGN §3: relative to the operands).  A random shard of the `sc`
             lines is re-evaluated inside coqc (vm_compute on NumF / NumC NumF) and must equal
             the OCaml driver's answers bit for bit (cross-check of extraction and driver).
Search     : the identities themselves are evaluated on the implementation's outputs
             (Snell, energy with Re(cos) flux weights in every regime, Stokes, normal
             incidence, helper = selected coefficient x documented ratio), residual
             <= 1e-10; a failing identity is a failing input.
"""
import math
import numpy as np
from common import Check, close
import arimgen
from arimgen import fhex, unhex

chk = Check("C04", design_ref="DESIGN.md §5 C04")
chk.proofs(extra_trusted=[
    "extraction: ExtrOcamlBasic only (Extract/C04.v); ocaml/common/numf.ml (float record from OCaml floats + libm) and ocaml/C04/driver.ml are hand-written and trusted",
    "modelled, not verified: numpy's complex sin/cos/arcsin are modelled by the textbook formulas over real sin, cos, exp, ln, sqrt, asin "
    "(NumC in Model/Interface.v); complex division by the textbook quotient; agreement is checked to 1e-11, rounding is outside the theorems",
])
arim = chk.import_arim()
import arim.model as model
from arim.core import InterfaceKind, Mode

drv = arimgen.Driver(chk.ocaml_driver("C04"))
rng = chk.rng
# second tie: the scalar kernels are re-translated from the current source and checked
# convertible with the model; a broken tie deepens the correspondence run (thorough sizes)
_ties = chk.translation_tie()
Q = chk.tier == "quick" and all(v == "ok" for v in _ties.values())
TOL = 1e-11
RES = 1e-10
MARGIN = 1e-9     # class D: relative distance of a Snell sine to 1 below which the end-to-end routes are ill-conditioned
                  # (1 ulp on the sine moves the refracted angle by 1e-16/sqrt(2 margin)); those cases go through `angles`
EPS = 2.220446049250313e-16
SNELL_ULPS = 4    # end-to-end routes: numpy's sin may differ from libm's by a few ulps; an error d on a Snell sine s moves
                  # cos(asin s) by the relative amount d / (2 |1 - s|) and asin s by d / sqrt(2 |1 - s|); this much is allowed
                  # on top of 1e-11 for the routes that recompute the Snell angles (not for the `angles`/`sc` routes)
np.seterr(all="ignore")


# --------------------------------------------------------------------------- inputs
def materials(n):
    out = [  # (rho_f, v_f, rho_s, v_l, v_t)
        (1000.0, 1480.0, 2700.0, 6320.0, 3130.0),     # water / aluminium (the suite's pair)
        (1000.0, 1480.0, 7800.0, 5900.0, 3200.0),     # water / steel
        (1.2, 340.0, 2700.0, 6320.0, 3130.0),         # air / aluminium
        (1024.0, 2048.0, 4096.0, 4096.0, 2048.0),     # dyadic, v_f = v_t
        (1000.0, 7000.0, 2500.0, 5000.0, 3000.0),     # fluid faster than both solid waves
        (1260.0, 4000.0, 1180.0, 5000.0, 3300.0),     # v_t < v_f < v_l
    ]
    while len(out) < n:
        v_l = float(rng.uniform(1500.0, 9000.0))
        v_t = float(v_l * rng.uniform(0.30, 0.7070))              # c_T < c_L / sqrt(2)
        v_f = float(np.exp(rng.uniform(np.log(250.0), np.log(1.3 * v_l))))   # any fluid velocity
        out.append((float(rng.uniform(0.5, 2000.0)), v_f, float(rng.uniform(900.0, 12000.0)), v_l, v_t))
    return out[:n]


def angle_grid(c_inc, others, nrand):
    """incidence angles in [0, 89.9 deg]: random, the ends, and every critical angle
    +- {0, 1 ulp, 2 ulp, 1e-9, 1e-6}."""
    amax = math.radians(89.9)
    a = [0.0, amax, math.radians(45.0), 1e-9, math.radians(1.0)]
    a += [float(x) for x in rng.uniform(0.0, amax, size=nrand)]
    for c in others:
        if c > c_inc:
            th = math.asin(c_inc / c)
            for d in (0.0, 1e-9, -1e-9, 1e-6, -1e-6, 1e-3, -1e-3):
                a.append(th + d)
            up = th
            dn = th
            for _ in range(2):
                up = math.nextafter(up, 4.0)
                dn = math.nextafter(dn, -4.0)
                a += [up, dn]
    return np.array([x for x in a if 0.0 <= x <= amax], dtype=float)


def kv(x, D):
    if D == "R":
        return fhex(x)
    x = complex(x)
    return fhex(x.real) + " " + fhex(x.imag)


def parse(tokens, D):
    v = [unhex(t) for t in tokens]
    if D == "R":
        return v
    return [complex(v[i], v[i + 1]) for i in range(0, len(v), 2)]


FUNCS = {
    # name: (implementation, position of the incident angle among (a_f, a_l, a_t), driver tags)
    "fluid_solid": (model.fluid_solid, 0, ("fs", "fsc", "fsa")),
    "solid_l_fluid": (model.solid_l_fluid, 1, ("sl", "slc", "sla")),
    "solid_t_fluid": (model.solid_t_fluid, 2, ("st", "stc", "sta")),
}

jobs = []   # (line, D, impl values (list), key, meta, tolerance-scale flag)


def add_job(line, D, impl, key, meta):
    jobs.append((line, D, impl, key, meta))


def three_angles(fname, alpha, mat):
    """(a_f, a_l, a_t) as arim computes them from the incident angle."""
    rho_f, v_f, rho_s, v_l, v_t = mat
    vel = (v_f, v_l, v_t)
    inc = FUNCS[fname][1]
    ang = [None, None, None]
    for k in range(3):
        ang[k] = alpha if k == inc else model.snell_angles(alpha, vel[inc], vel[k])
    return ang


def call_impl(fname, ang, mat, explicit):
    rho_f, v_f, rho_s, v_l, v_t = mat
    a_f, a_l, a_t = ang
    f = FUNCS[fname][0]
    if fname == "fluid_solid":
        return f(a_f, rho_f, rho_s, v_f, v_l, v_t, *((a_l, a_t) if explicit else ()))
    if fname == "solid_l_fluid":
        return f(a_l, rho_f, rho_s, v_f, v_l, v_t, *((a_f, a_t) if explicit else ()))
    return f(a_t, rho_f, rho_s, v_f, v_l, v_t, *((a_f, a_l) if explicit else ()))


def cond_of(ang, mat):
    """condition number of the sum N = t1 + t2 + t3 every coefficient is divided by:
    (|t1|+|t2|+|t3|) / |N|.  N -> 0 (all three terms cancel/vanish) when c_T -> c_L/sqrt(2) at
    the L critical angle; the comparison tolerance is 1e-11 relative to the operands of that
    sum (DESIGN §3, class T: scale = magnitude of the operands), i.e. 1e-11 * cond on the quotient."""
    rho_f, v_f, rho_s, v_l, v_t = mat
    a_f, a_l, a_t = ang
    t1 = (v_t * v_t) / (v_l * v_l) * np.sin(2 * a_l) * np.sin(2 * a_t)
    t2 = np.cos(2 * a_t) ** 2
    t3 = rho_f * v_f / (rho_s * v_l) * np.cos(a_l) / np.cos(a_f)
    c = (np.abs(t1) + np.abs(t2) + np.abs(t3)) / np.abs(t1 + t2 + t3)
    return np.where(np.isfinite(c), np.maximum(c, 1.0), 1.0)


def flux_weights(fname, mat, cosv):
    """energy-flux weight of each of the three returned coefficients relative to the
    incident wave: (z_inc cos a_m) / (z_m cos a_inc), in the order of the returned triple."""
    rho_f, v_f, rho_s, v_l, v_t = mat
    z = (rho_f * v_f, rho_s * v_l, rho_s * v_t)
    inc = FUNCS[fname][1]
    order = {"fluid_solid": (0, 1, 2), "solid_l_fluid": (1, 2, 0), "solid_t_fluid": (1, 2, 0)}[fname]
    return [z[inc] * cosv[m] / (z[m] * cosv[inc]) for m in order]


nmat = 60 if Q else 1200
nrand = 24 if Q else 40
mats = materials(nmat)
# corpus: (material, function, angles) replayed first
import glob, json, os
corpus_angles = {}
corpus_mats = []
for path in sorted(glob.glob(os.path.join("/verif", "corpus", "C04", "*.json"))):
    for case in json.load(open(path))["cases"]:
        m_ = tuple(float(x) for x in case["material"])
        corpus_mats.append(m_)
        for fn, hs in case["angles"].items():
            corpus_angles.setdefault((m_, fn), []).extend(float.fromhex(h) for h in hs)
mats = corpus_mats + mats
viol_budget = {}
n_eval = 0
nontrivial = set()
ambiguous = 0
max_res = {"snell": 0.0, "energy": 0.0, "stokes": 0.0, "normal": 0.0, "select": 0.0}
samples = []


def report(key, what, replay, found):
    viol_budget[key] = viol_budget.get(key, 0) + 1
    if viol_budget[key] <= 2:
        chk.violation(key, what, replay, failing_input_found=found)


def regime(sines):
    s = [x for x in sines]
    if all(x <= 1.0 for x in s):
        return "sub-critical"
    if all(x > 1.0 for x in s):
        return "beyond every critical angle"
    return "between critical angles"


for mi, mat in enumerate(mats):
    rho_f, v_f, rho_s, v_l, v_t = mat
    vel = (v_f, v_l, v_t)
    dmat = (rho_f, rho_s, v_f, v_l, v_t)      # argument order of the functions / the driver
    mt = " ".join(fhex(x) for x in dmat)
    mtC = " ".join(fhex(x) + " 0x0p+0" for x in dmat)
    for fname, (f, inc, tags) in FUNCS.items():
        others = [vel[k] for k in range(3) if k != inc]
        alphas = angle_grid(vel[inc], others, nrand)
        if (mat, fname) in corpus_angles:
            alphas = np.concatenate([np.array(corpus_angles[(mat, fname)]), alphas])
            chk.count(corpus=f"{fname}")
        sines = np.array([[vel[k] / vel[inc] * math.sin(a) for k in range(3) if k != inc] for a in alphas])
        margin = np.min(np.abs(sines - 1.0), axis=1)
        for D in ("R", "C"):
            al = alphas if D == "R" else alphas.astype(complex)
            ang = three_angles(fname, al, mat)
            out_e = call_impl(fname, ang, mat, explicit=True)
            out_a = call_impl(fname, ang, mat, explicit=False)
            cond = cond_of(ang, mat)
            n_impl = np.asarray(model._fluid_solid_n(ang[0], ang[1], ang[2], rho_f, rho_s, v_f, v_l, v_t))
            Mt = mt if D == "R" else mtC
            sinv = [np.sin(x) for x in ang]
            cosv = [np.cos(x) for x in ang]
            # ---------------- spec predicates on the implementation's outputs
            # Snell
            for k in range(3):
                if k == inc:
                    continue
                r = np.abs(np.sin(ang[k]) * vel[inc] - vel[k] * np.sin(al)) / vel[k]
                ok = np.isnan(r) | (r <= RES)
                if D == "C":
                    ok = r <= RES       # the complex branch is never nan
                max_res["snell"] = max(max_res["snell"], float(np.nanmax(r)))
                for i in np.nonzero(~ok)[0]:
                    report(f"snell:{fname}:{D}", "Snell's law violated by snell_angles",
                           dict(function="snell_angles", dtype=D, alpha=float(alphas[i]).hex(), c_incident=vel[inc],
                                c_refracted=vel[k], angle=ang[k][i], residual=float(r[i]), predicate="snell_law"), True)
            # energy: |c_0|^2 w_0 + |c_1|^2 w_1 + |c_2|^2 w_2 = 1, weights with Re(cos) (zero flux
            # for inhomogeneous waves); real dtype: only where nothing is nan
            recos = [np.real(c) for c in cosv]
            w = flux_weights(fname, mat, recos)
            for tagname, out in (("given", out_e), ("auto", out_a)):
                e = sum(np.abs(np.asarray(c)) ** 2 * wk for c, wk in zip(out, w))
                r = np.abs(e - 1.0)
                valid = ~np.isnan(r)
                if D == "C" and not valid.all():
                    valid[:] = True
                bad = valid & ~(r <= RES)
                if valid.any():
                    max_res["energy"] = max(max_res["energy"], float(np.nanmax(np.where(valid, r, 0.0))))
                for i in np.nonzero(bad)[0]:
                    report(f"energy:{fname}:{D}", f"energy is not conserved by {fname} ({tagname} angles)",
                           dict(function=fname, dtype=D, angles=tagname, alpha=float(alphas[i]).hex(), material=mat,
                                coefficients=[complex(np.asarray(c)[i]) for c in out], flux_weights=[float(x[i]) for x in w],
                                energy=float(e[i]), predicate="energy conservation (|c|^2 weighted by Re cos)"), True)
            # ---------------- correspondence
            for i, a in enumerate(alphas):
                meta = dict(function=fname, dtype=D, alpha=float(a).hex(), alpha_deg=math.degrees(a), material=mat,
                            regime=regime(sines[i]), margin=float(margin[i]), cond=float(cond[i]))
                angs = " ".join(kv(x[i], D) for x in ang)
                add_job(f"{tags[0]} {D} {angs} {Mt}", D, [np.asarray(c)[i] for c in out_e], f"angles:{fname}:{D}", meta)
                add_job(f"n {D} {angs} {Mt}", D, [n_impl[i]], f"n:{D}", meta)
                sc = " ".join(kv(sinv[k][i], D) + " " + kv(cosv[k][i], D) for k in range(3))
                add_job(f"{tags[1]} {D} {sc} {Mt}", D, [np.asarray(c)[i] for c in out_e], f"sc:{fname}:{D}", meta)
                if margin[i] >= MARGIN:
                    add_job(f"{tags[2]} {D} {kv(al[i], D)} {Mt}", D, [np.asarray(c)[i] for c in out_a], f"auto:{fname}:{D}",
                            dict(meta, snell_tol=SNELL_ULPS * EPS / (2 * margin[i])))
                else:
                    ambiguous += 1
                chk.count(regime=meta["regime"], function=fname, dtype=D)
                if a > 0 and not any(np.isnan(np.asarray(c)[i]) for c in out_e):
                    nontrivial.add((mi, fname, D, float(a)))
            # snell_angles end to end and numpy's arcsin on arim's sine
            for k in range(3):
                if k == inc:
                    continue
                svals = vel[k] / vel[inc] * np.sin(al)
                impl_asin = np.arcsin(svals)
                for i, a in enumerate(alphas):
                    meta = dict(function="snell_angles", dtype=D, alpha=float(a).hex(), c_incident=vel[inc], c_refracted=vel[k])
                    add_job(f"asin {D} {kv(svals[i], D)}", D, [impl_asin[i]], f"asin:{D}", meta)
                    mk = abs(float(np.real(svals[i])) - 1.0)
                    if mk >= MARGIN:
                        meta = dict(meta, abs_tol=SNELL_ULPS * EPS / math.sqrt(2 * mk))
                        cc = (fhex(vel[inc]) + " " + fhex(vel[k])) if D == "R" else (fhex(vel[inc]) + " 0x0p+0 " + fhex(vel[k]) + " 0x0p+0")
                        add_job(f"snell {D} {kv(al[i], D)} {cc}", D, [ang[k][i]], f"snell:{D}", meta)
        # ---------------- Stokes relations on the implementation (same three angles in both directions)
        if fname == "fluid_solid":
            for D in ("R", "C"):
                al = alphas if D == "R" else alphas.astype(complex)
                a_f, a_l, a_t = three_angles("fluid_solid", al, mat)
                _, t_fl, t_ft = model.fluid_solid(a_f, rho_f, rho_s, v_f, v_l, v_t, a_l, a_t)
                r_ll, r_lt, t_lf = model.solid_l_fluid(a_l, rho_f, rho_s, v_f, v_l, v_t, a_f, a_t)
                r_tl, r_tt, t_tf = model.solid_t_fluid(a_t, rho_f, rho_s, v_f, v_l, v_t, a_f, a_l)
                zf, zl, zt = rho_f * v_f, rho_s * v_l, rho_s * v_t
                rel = {
                    "stokes_fl": (t_lf, t_fl * (zf * np.cos(a_l)) / (zl * np.cos(a_f))),
                    "stokes_ft": (t_tf, -t_ft * (zf * np.cos(a_t)) / (zt * np.cos(a_f))),
                    # multiplied out by cos a_l (which vanishes at the L critical angle)
                    "stokes_lt": (r_tl * np.cos(a_l) * zt, -r_lt * zl * np.cos(a_t)),
                }
                for name, (lhs, rhs) in rel.items():
                    sc_ = np.maximum(1.0, np.maximum(np.abs(lhs), np.abs(rhs)))
                    if name == "stokes_lt":      # both sides carry an impedance factor
                        sc_ = np.maximum(max(zl, zt), np.maximum(np.abs(lhs), np.abs(rhs)))
                    r = np.abs(lhs - rhs) / sc_
                    ok = np.isnan(r) | (r <= RES) if D == "R" else (r <= RES)
                    max_res["stokes"] = max(max_res["stokes"], float(np.nanmax(r)))
                    max_res[name] = max(max_res.get(name, 0.0), float(np.nanmax(r)))
                    n_eval += len(alphas)
                    for i in np.nonzero(~ok)[0]:
                        report(f"{name}:{D}", f"Stokes relation {name} violated",
                               dict(predicate=name, dtype=D, alpha_fluid=float(alphas[i]).hex(), material=mat,
                                    lhs=complex(lhs[i]), rhs=complex(rhs[i]), residual=float(r[i])), True)
        # ---------------- ONE of the two optional angles supplied (the evanescent one, complex, from Snell's law), the other left
        #                  to the function: the same coefficients as with both supplied, wherever the omitted angle is real
        if fname == "fluid_solid":
            a_f, a_l, a_t = three_angles("fluid_solid", alphas.astype(complex), mat)
            with np.errstate(all="ignore"):
                full_ = model.fluid_solid(alphas.astype(complex), rho_f, rho_s, v_f, v_l, v_t, a_l, a_t)
                part_ = model.fluid_solid(alphas, rho_f, rho_s, v_f, v_l, v_t, alpha_l=a_l)
            real_t = np.abs(v_t / v_f * np.sin(alphas)) < 1 - 1e-6
            n_eval += int(real_t.sum())
            for nm_, x_, y_ in zip(("reflection", "transmission_l", "transmission_t"), part_, full_):
                bad_ = real_t & ~(np.abs(np.asarray(x_) - np.asarray(y_)) <= 1e-12 * np.maximum(1.0, np.abs(np.asarray(y_))))
                for i in np.nonzero(bad_)[0][:2]:
                    report(f"partial-angles:fluid_solid:{nm_}", "fluid_solid given alpha_l only (complex, from Snell's law) differs from the call with both angles supplied",
                           dict(predicate="optional angles", coefficient=nm_, alpha_fluid=float(alphas[i]).hex(), material=mat,
                                alpha_l_supplied=complex(a_l[i]), got=complex(np.asarray(x_)[i]), expected=complex(np.asarray(y_)[i])), True)
    # ---------------- normal incidence
    zf, zl = rho_f * v_f, rho_s * v_l
    for D in ("R", "C"):
        a0 = np.zeros(1, dtype=float if D == "R" else complex)
        exp_ = {
            "fluid_solid": ((zl - zf) / (zl + zf), 2 * zl / (zl + zf), 0.0),
            "solid_l_fluid": ((zf - zl) / (zl + zf), 0.0, 2 * zf / (zl + zf)),
            "solid_t_fluid": (0.0, -1.0, 0.0),
        }
        for fname, (f, inc, tags) in FUNCS.items():
            got = f(a0, rho_f, rho_s, v_f, v_l, v_t)
            for g, e in zip(got, exp_[fname]):
                r = abs(complex(np.asarray(g)[0]) - e)
                max_res["normal"] = max(max_res["normal"], r)
                n_eval += 1
                if not r <= 1e-12:
                    report(f"normal:{fname}:{D}", f"{fname} at normal incidence is not the impedance formula",
                           dict(predicate="normal_incidence", function=fname, dtype=D, material=mat,
                                got=[complex(np.asarray(x)[0]) for x in got], expected=exp_[fname]), True)

# --------------------------------------------------------------------------- helpers
KINDS = {"fs": InterfaceKind.fluid_solid, "sf": InterfaceKind.solid_fluid}
MODES = {"L": Mode.L, "T": Mode.T}
def expected_helper(helper, kind, m_in, m_out, unit, al, mat):
    """spec of the per-interface helpers: the coefficient selected from the core function for the requested
    modes, times the documented impedance / velocity ratio in displacement units"""
    rho_f, v_f, rho_s, v_l, v_t = mat
    if kind == "fs":
        trip = model.fluid_solid(al, rho_f, rho_s, v_f, v_l, v_t)
        sel = trip[0] if helper == "rf" else (trip[1] if m_out == "L" else trip[2])
    else:
        fun = model.solid_l_fluid if m_in == "L" else model.solid_t_fluid
        trip = fun(al, rho_f, rho_s, v_f, v_l, v_t)
        sel = trip[2] if helper == "tr" else (trip[0] if m_out == "L" else trip[1])
    v_in = v_f if kind == "fs" else (v_l if m_in == "L" else v_t)
    if helper == "tr":
        v_out = (v_l if m_out == "L" else v_t) if kind == "fs" else v_f
        rho_in, rho_out = (rho_f, rho_s) if kind == "fs" else (rho_s, rho_f)
        ratio = (rho_in * v_in) / (rho_out * v_out)
    else:
        v_out = v_f if kind == "fs" else (v_l if m_out == "L" else v_t)
        ratio = v_in / v_out
    return sel * ratio if unit == "displacement" else sel


nhelp_mat = 12 if Q else 120
help_err = {}
for mi in range(nhelp_mat):
    mat = mats[(mi * 7) % len(mats)] if mi >= 10 else mats[mi]
    rho_f, v_f, rho_s, v_l, v_t = mat
    if mi % 3 == 0:
        fluid = arim.Material(longitudinal_vel=v_f, density=rho_f, state_of_matter="liquid")
        solid = arim.Material(longitudinal_vel=v_l, transverse_vel=v_t, density=rho_s, state_of_matter="solid")
        chk.count(material_objects="fresh")
    else:
        # history: the SAME Material objects, their public attributes updated in place (a calibration loop);
        # the helpers must answer for the properties the materials have when they are called
        fluid.longitudinal_vel, fluid.density = v_f, rho_f
        solid.longitudinal_vel, solid.transverse_vel, solid.density = v_l, v_t, rho_s
        chk.count(material_objects="same objects, attributes updated in place")
    fl_tok = (rho_f, v_f, 0.0)
    so_tok = (rho_s, v_l, v_t)
    for helper in ("tr", "rf"):
        for kind in ("fs", "sf"):
            # incident material / other material
            if kind == "fs":
                m_inc, m_oth, t_inc, t_oth = fluid, solid, fl_tok, so_tok
            else:
                m_inc, m_oth, t_inc, t_oth = solid, fluid, so_tok, fl_tok
            for m_in in "LT":
                c_inc = v_f if kind == "fs" else (v_l if m_in == "L" else v_t)
                others = [v for v in (v_f, v_l, v_t) if v != c_inc]
                alphas = angle_grid(c_inc, others, 6 if Q else 10)
                inc_idx = 0 if kind == "fs" else (1 if m_in == "L" else 2)
                velv = (v_f, v_l, v_t)
                sines = np.array([[velv[k] / c_inc * math.sin(a) for k in range(3) if k != inc_idx] for a in alphas])
                margin = np.min(np.abs(sines - 1.0), axis=1)
                for m_out in "LT":
                    for unit in ("stress", "displacement"):
                        for fc in (True, False):
                            D = "C" if fc else "R"
                            # the helpers read the unit case-insensitively (unit.lower()): every accepted spelling means the same
                            spelled = unit if rng.random() < 0.6 else str(rng.choice([unit.capitalize(), unit.upper()]))
                            chk.count(unit_spelling="lower-case" if spelled == unit else "capitalised")
                            # the documented boolean flag may arrive as a numpy bool (np.any(...)) or as 0 / 1
                            fc_arg = [fc, np.bool_(fc), int(fc)][int(rng.integers(0, 3))] if rng.random() < 0.4 else fc
                            chk.count(force_complex_spelling=type(fc_arg).__name__)
                            kw = dict(interface_kind=KINDS[kind], material_inc=m_inc, mode_inc=MODES[m_in],
                                      mode_out=MODES[m_out], angles_inc=alphas.copy(), force_complex=fc_arg,
                                      unit=spelled)
                            try:
                                if helper == "tr":
                                    got = model.transmission_at_interface(material_out=m_oth, **kw)
                                else:
                                    got = model.reflection_at_interface(material_against=m_oth, **kw)
                                err = None
                            except (AssertionError, TypeError, ValueError, RuntimeError, NotImplementedError) as e:
                                got, err = None, type(e).__name__
                            combo = f"{helper}:{kind}:{m_in}{m_out}"
                            help_err[combo] = err or "value"
                            chk.count(helper=f"{combo}:{'raises ' + err if err else 'value'}")
                            toks_m = " ".join(kv(x, D) for x in t_inc + t_oth)
                            # spec predicate: the helper is the selected coefficient times the documented ratio
                            hcond = np.ones(len(alphas))
                            if err is None:
                                al = alphas.astype(complex) if fc else alphas
                                hname = "fluid_solid" if kind == "fs" else ("solid_l_fluid" if m_in == "L" else "solid_t_fluid")
                                hcond = cond_of(three_angles(hname, al, mat), mat)
                                want = expected_helper(helper, kind, m_in, m_out, unit, al, mat)
                                r = np.abs(got - want) / np.maximum(1.0, np.abs(want))
                                ok = (r <= 1e-13) | (np.isnan(np.abs(got)) & np.isnan(np.abs(want)))
                                max_res["select"] = max(max_res["select"], float(np.nanmax(r)) if not np.all(np.isnan(r)) else 0.0)
                                n_eval += len(alphas)
                                for i in np.nonzero(~ok)[0]:
                                    report(f"select:{combo}:{unit}", "the helper does not return the selected coefficient times the documented ratio",
                                           dict(predicate="at_interface_select", helper=helper, kind=kind, mode_inc=m_in, mode_out=m_out,
                                                unit=unit, force_complex=fc, alpha=float(alphas[i]).hex(), material=mat,
                                                material_objects="fresh" if mi % 3 == 0 else "updated in place after earlier calls",
                                                got=complex(got[i]), expected=complex(want[i])), True)
                            if err is None and len(alphas):
                                # the angle of incidence as a Python float, a NumPy scalar, a 0-d or a one-element array: the same angle
                                i0 = int(rng.integers(0, len(alphas)))
                                a0 = float(alphas[i0])
                                cont_ = int(rng.integers(0, 4))
                                kw3 = dict(kw, angles_inc=[a0, np.float64(a0), np.array(a0), np.array([a0])][cont_])
                                chk.count(angle_container=["float", "np.float64", "0-d array", "shape (1,)"][cont_])
                                try:
                                    got3 = (model.transmission_at_interface(material_out=m_oth, **kw3) if helper == "tr"
                                            else model.reflection_at_interface(material_against=m_oth, **kw3))
                                    g3 = complex(np.asarray(got3).reshape(-1)[0])
                                    with np.errstate(all="ignore"):
                                        ok3 = (abs(g3 - complex(got[i0])) <= 1e-13 * max(1.0, abs(complex(got[i0])))) or (g3 != g3 and complex(got[i0]) != complex(got[i0]))
                                except Exception as e:      # noqa: BLE001
                                    ok3, g3 = False, repr(e)
                                n_eval += 1
                                if not ok3:
                                    report(f"container:{combo}:{unit}", "the coefficient for one angle given as a scalar / 0-d / one-element array differs from "
                                           "the entry of the array call",
                                           dict(predicate="container independence", helper=helper, kind=kind, mode_inc=m_in, mode_out=m_out, unit=unit,
                                                force_complex=fc, alpha=a0.hex(), container=["float", "np.float64", "0-d array", "shape (1,)"][cont_],
                                                material=mat, got_scalar_call=g3, got_array_call=complex(got[i0])), True)
                            if err is None and fc:
                                # complex angle dtype with force_complex=False is the same request as
                                # force_complex=True (quantifier: "real and complex angle dtypes")
                                kw2 = dict(kw, angles_inc=alphas.astype(complex), force_complex=False)
                                try:
                                    got2 = (model.transmission_at_interface(material_out=m_oth, **kw2) if helper == "tr"
                                            else model.reflection_at_interface(material_against=m_oth, **kw2))
                                    with np.errstate(all="ignore"):
                                        r2 = np.abs(np.asarray(got2) - got) / np.maximum(1.0, np.abs(got))
                                    ok2 = (r2 <= 1e-13) | (np.isnan(np.abs(got2)) & np.isnan(np.abs(got)))
                                except Exception as e:      # noqa: BLE001
                                    ok2 = np.zeros(len(alphas), bool)
                                    got2 = np.full(len(alphas), np.nan)
                                n_eval += len(alphas)
                                for i in np.nonzero(~ok2)[0][:3]:
                                    report(f"dtype:{combo}:{unit}", "complex-dtype angles with force_complex=False give a different "
                                           "coefficient than force_complex=True",
                                           dict(predicate="dtype independence", helper=helper, kind=kind, mode_inc=m_in, mode_out=m_out,
                                                unit=unit, alpha=float(alphas[i]).hex(), material=mat,
                                                got_complex_dtype=complex(got2[i]), got_force_complex=complex(got[i])), True)
                            for i, a in enumerate(alphas):
                                if err is None and margin[i] < MARGIN:
                                    ambiguous += 1
                                    continue
                                meta = dict(helper=helper, kind=kind, mode_inc=m_in, mode_out=m_out, unit=unit, force_complex=fc,
                                            alpha=float(a).hex(), material=mat, impl_error=err, cond=float(hcond[i]),
                                            margin=float(margin[i]), snell_tol=SNELL_ULPS * EPS / (2 * max(margin[i], MARGIN)))
                                add_job(f"{helper} {D} {kind} {m_in} {m_out} {unit[0]} {kv(a, D)} {toks_m}", D,
                                        None if err else [got[i]], f"helper:{combo}:{unit}:{D}", meta)
                                if i > 0 and err is not None:
                                    break
    # documented: any other unit string is a ValueError
    for fn, kwn in ((model.transmission_at_interface, "material_out"), (model.reflection_at_interface, "material_against")):
        try:
            fn(InterfaceKind.solid_fluid, solid, mode_inc=Mode.L, mode_out=Mode.L, angles_inc=np.zeros(1), unit="pressure", **{kwn: fluid})
            report("unit-string", "an unknown unit string is accepted", dict(predicate="unit must be stress or displacement"), True)
        except ValueError:
            pass
        n_eval += 1

# genuinely COMPLEX incident angles on the solid side (the refracted angles of a fluid incidence beyond a critical
# angle, fed back to the solid -> fluid functions, as reverse_transmission_reflection_for_path does): the angles the
# library computes by default must satisfy Snell's law and give the same coefficients as the explicit angles
nchain = 6 if Q else 60
for ci in range(nchain):
    mat = mats[int(rng.integers(0, len(mats)))]
    rho_f, v_f, rho_s, v_l, v_t = mat
    if not (v_f < v_t < v_l):
        continue
    crit_l, crit_t = math.asin(v_f / v_l), math.asin(v_f / v_t)
    a_f = np.concatenate([rng.uniform(crit_l * 1.02, min(crit_t * 0.98, math.radians(80)), 6),
                          rng.uniform(min(crit_t * 1.02, math.radians(80)), math.radians(84), 6)]).astype(complex)
    a_l = model.snell_angles(a_f, v_f, v_l)          # complex beyond the L critical angle
    a_t = model.snell_angles(a_f, v_f, v_t)          # complex beyond the T critical angle
    for fname, a_inc, c_inc, others in (("solid_l_fluid", a_l, v_l, ((0, v_f), (2, v_t))), ("solid_t_fluid", a_t, v_t, ((0, v_f), (1, v_l)))):
        given = [a_f, a_l, a_t]
        auto = call_impl(fname, given, mat, explicit=False)
        expl = call_impl(fname, given, mat, explicit=True)
        chk.count(complex_incident_angle=fname)
        n_eval += len(a_f)
        for k_, c_r in others:
            got_angle = model.snell_angles(a_inc, c_inc, c_r)
            r = np.abs(np.sin(got_angle) * c_inc - c_r * np.sin(a_inc)) / c_r
            for i in np.nonzero(~(r <= 1e-9))[0][:2]:
                report(f"snell-complex:{fname}", "Snell's law violated by snell_angles for a complex incident angle",
                       dict(function="snell_angles", incident_angle=complex(a_inc[i]), c_incident=c_inc, c_refracted=c_r,
                            angle=complex(got_angle[i]), residual=float(r[i]), predicate="snell_law", material=mat), True)
        sc_ = max(1.0, float(np.max(np.abs(np.asarray(expl)))))
        cnd = cond_of(given, mat)
        for j_, (ca, ce) in enumerate(zip(auto, expl)):
            d_ = np.abs(np.asarray(ca) - np.asarray(ce))
            for i in np.nonzero(~(d_ <= 1e-8 * sc_ * cnd))[0][:2]:
                report(f"auto-complex:{fname}", f"{fname} with library-computed refracted angles differs from the same call with the "
                       "Snell-consistent angles given explicitly (complex incident angle)",
                       dict(function=fname, incident_angle=complex(a_inc[i]), fluid_angle=complex(a_f[i]), material=mat,
                            coefficient_index=j_, auto=complex(np.asarray(ca)[i]), explicit=complex(np.asarray(ce)[i]),
                            predicate="default refracted angles = Snell"), True)

# HISTORY through a shallow copy: a copy.copy() of a Material is edited (a warmer couplant, another alloy); the ORIGINAL must
# keep answering with its own constants
import copy as _copy
for hi_ in range(4 if Q else 30):
    mat = mats[int(rng.integers(0, len(mats)))]
    rho_f, v_f, rho_s, v_l, v_t = mat
    fluid = arim.Material(longitudinal_vel=v_f, density=rho_f, state_of_matter="liquid")
    solid = arim.Material(longitudinal_vel=v_l, transverse_vel=v_t, density=rho_s, state_of_matter="solid")
    warm, alloy = _copy.copy(fluid), _copy.copy(solid)
    warm.longitudinal_vel, warm.density = v_f * 1.07, rho_f * 0.9
    alloy.longitudinal_vel, alloy.transverse_vel, alloy.density = v_l * 0.93, v_t * 1.05, rho_s * 1.1
    al_ = np.array([0.0, 0.05, 0.1])
    for helper, kind, m_in, m_out, unit in (("tr", "fs", "L", "L", "stress"), ("tr", "fs", "L", "T", "displacement"),
                                             ("tr", "sf", "T", "L", "displacement"), ("rf", "sf", "L", "T", "displacement")):
        if help_err.get(f"{helper}:{kind}:{m_in}{m_out}", "value") != "value":
            continue
        m_inc, m_oth = (fluid, solid) if kind == "fs" else (solid, fluid)
        kw = dict(interface_kind=KINDS[kind], material_inc=m_inc, mode_inc=MODES[m_in], mode_out=MODES[m_out], angles_inc=al_.copy(),
                  force_complex=True, unit=unit)
        got = np.asarray(model.transmission_at_interface(material_out=m_oth, **kw) if helper == "tr"
                         else model.reflection_at_interface(material_against=m_oth, **kw))
        want = expected_helper(helper, kind, m_in, m_out, unit, al_.astype(complex), mat)
        n_eval += len(al_)
        chk.count(material_objects="original of an edited shallow copy")
        if not np.allclose(got, want, rtol=1e-12, atol=1e-13):
            report(f"select-copy:{helper}:{kind}:{m_in}{m_out}:{unit}", "after a copy.copy() of the materials was edited, the helper called with the "
                   "ORIGINAL materials no longer returns the coefficient of the original constants",
                   dict(predicate="at_interface_select", helper=helper, kind=kind, mode_inc=m_in, mode_out=m_out, unit=unit, material=mat,
                        got=[complex(x) for x in got], expected=[complex(x) for x in want]), True)
# the two directions of an interface: reversing the kind twice is the identity, and swaps fluid_solid / solid_fluid
for k_, r_ in ((InterfaceKind.fluid_solid, InterfaceKind.solid_fluid), (InterfaceKind.solid_fluid, InterfaceKind.fluid_solid)):
    n_eval += 1
    if k_.reverse() is not r_:
        report("kind-reverse", f"InterfaceKind.{k_.name}.reverse() is {k_.reverse()!r}, not {r_.name}: the opposite direction of a "
               "solid-to-fluid transmission can no longer be asked for (Stokes relations)",
               dict(predicate="InterfaceKind.reverse swaps the two kinds", kind=k_.name, got=str(k_.reverse())), True)

# large angle arrays (every ray of a big TFM grid in one call): the helper is a pointwise function of the
# angle, so the answer for each entry of a large array is the selected coefficient for that entry
nlarge = 2 if Q else 12
for li in range(nlarge):
    mat = mats[int(rng.integers(0, len(mats)))]
    rho_f, v_f, rho_s, v_l, v_t = mat
    fluid = arim.Material(longitudinal_vel=v_f, density=rho_f, state_of_matter="liquid")
    solid = arim.Material(longitudinal_vel=v_l, transverse_vel=v_t, density=rho_s, state_of_matter="solid")
    helper, kind = str(rng.choice(["tr", "rf"])), str(rng.choice(["fs", "sf"]))
    m_in, m_out, unit = str(rng.choice(list("LT"))), str(rng.choice(list("LT"))), str(rng.choice(["stress", "displacement"]))
    if help_err.get(f"{helper}:{kind}:{m_in}{m_out}", "value") != "value":
        continue
    fc = bool(rng.integers(0, 2))
    shape = (int(rng.integers(3, 130)), int(rng.integers(1500, 5000))) if li % 2 == 0 else (int(rng.integers(2 ** 17 + 1, 2 ** 19)),)
    big = rng.uniform(0.0, 0.3, size=shape)        # below every critical angle of the generated materials? not needed: compared pointwise
    if len(shape) == 2 and li % 4 == 0:
        big = np.asfortranarray(big)               # memory layout is not part of the request
    elif len(shape) == 2 and li % 4 == 2:
        big = np.ascontiguousarray(big.T).T        # a transposed view
    m_inc, m_oth = (fluid, solid) if kind == "fs" else (solid, fluid)
    kw = dict(interface_kind=KINDS[kind], material_inc=m_inc, mode_inc=MODES[m_in], mode_out=MODES[m_out],
              angles_inc=big.copy(order="K"), force_complex=fc, unit=unit)
    got = (model.transmission_at_interface(material_out=m_oth, **kw) if helper == "tr"
           else model.reflection_at_interface(material_against=m_oth, **kw))
    got = np.asarray(got)
    flat = np.ascontiguousarray(big).reshape(-1)
    want = expected_helper(helper, kind, m_in, m_out, unit, flat.astype(complex) if fc else flat, mat).reshape(big.shape)
    chk.count(large_array=f"{len(shape)}-d" + ("" if big.flags.c_contiguous else " (not C-contiguous)"))
    n_eval += big.size
    okb = got.shape == big.shape
    if okb:
        with np.errstate(all="ignore"):
            r = np.abs(got - want) / np.maximum(1.0, np.abs(want))
        okm = (r <= 1e-13) | (np.isnan(np.abs(got)) & np.isnan(np.abs(want)))
        okb = bool(np.all(okm))
    if not okb:
        where = tuple(int(x) for x in np.argwhere(~okm)[-1]) if got.shape == big.shape else None
        report(f"select-large:{helper}:{kind}:{m_in}{m_out}:{unit}",
               f"on an angle array of shape {shape} the helper does not return the selected coefficient for every entry",
               dict(predicate="at_interface_select", helper=helper, kind=kind, mode_inc=m_in, mode_out=m_out, unit=unit,
                    force_complex=fc, material=mat, shape=list(shape), returned_shape=list(got.shape), last_bad_index=where,
                    alpha=(float(big[where]).hex() if where is not None else None),
                    got=(complex(got[where]) if where is not None else None),
                    expected=(complex(want[where]) if where is not None else None),
                    bad_entries=(int(np.count_nonzero(~okm)) if got.shape == big.shape else None)), True)

# --------------------------------------------------------------------------- run the model
outs = drv.run([j[0] for j in jobs])
disagree = 0
for (line, D, impl, key, meta), o in zip(jobs, outs):
    n_eval += 1
    toks = o.split()
    if toks[0] == "none":
        if impl is not None:
            disagree += 1
            report(key, "the model says the helper raises, the implementation returns a value",
                   dict(meta, driver_line=line, correspondence="Model.Interface helper dispatch (extracted)"), False)
        continue
    if toks[0] == "some":
        toks = toks[1:]
        if impl is None:
            disagree += 1
            report(key, "the implementation raises where the model returns a value",
                   dict(meta, driver_line=line, correspondence="Model.Interface helper dispatch (extracted)"), False)
            continue
    mv = parse(toks, D)
    scale = max([1.0] + [abs(complex(x)) for x in mv if abs(complex(x)) == abs(complex(x)) and not math.isinf(abs(complex(x)))])
    tol = (TOL + meta.get("snell_tol", 0.0)) * meta.get("cond", 1.0)
    ok = all(close(complex(a), complex(b), tol, atol=tol * scale + meta.get("abs_tol", 0.0)) for a, b in zip(impl, mv))
    if len(samples) < 6 and meta.get("function") in FUNCS and key.startswith("auto") and meta["regime"] != "sub-critical" and D == "C" and rng.random() < 0.01:
        samples.append(dict(meta, impl=[complex(x) for x in impl], model=mv))
    if not ok:
        disagree += 1
        report(key, f"implementation and model disagree ({key})",
               dict(meta, driver_line=line, impl=[complex(x) for x in impl], model=[complex(x) for x in mv],
                    correspondence="extracted Model.Interface vs arim.model; every identity of the property held on the implementation's outputs"
                    if not any(k.split(':')[0] in ("energy", "snell", "stokes_fl", "stokes_ft", "stokes_lt", "normal", "select") for k in viol_budget) else
                    "extracted Model.Interface vs arim.model"), False)

# --------------------------------------------------------------------------- extraction + driver vs vm_compute
# The (sin, cos) layer needs no libm: the same Gallina terms are evaluated inside coqc on the
# primitive-float instance NumF (and NumC NumF) and must reproduce the extracted-OCaml driver's
# answers BIT FOR BIT (cross-check of extraction, numf.ml and the driver's line protocol).
from common import cZ, cfloat, cbool, clist
COQ_IMPORTS = """From Coq Require Import ZArith List PrimFloat.
From Arim Require Import Base.Num Base.NumF Model.Interface.
Import ListNotations.
Definition feq (a b : float) : bool := orb (PrimFloat.eqb a b) (andb (is_nan a) (is_nan b)).
Definition run3 {K : Type} (N : Num K) (tag : Z) (l : list K) : option (K * K * K) :=
  match l with
  | [sf; cf; sl; cl; st; ct; rf; rs; vf; vl; vt] =>
      Some (if Z.eqb tag 0 then fluid_solid_sc N sf cf sl cl st ct rf rs vf vl vt
            else if Z.eqb tag 1 then solid_l_fluid_sc N sf cf sl cl st ct rf rs vf vl vt
            else solid_t_fluid_sc N sf cf sl cl st ct rf rs vf vl vt)
  | _ => None
  end.
Fixpoint pairs (l : list float) : list (float * float) :=
  match l with a :: b :: t => (a, b) :: pairs t | _ => [] end.
Definition check_case (c : Z * bool * list float * list float) : bool :=
  let '(tag, cplx, xs, ys) := c in
  if cplx then
    match run3 (NumC NumF) tag (pairs xs), ys with
    | Some (a, b, c), [a1; a2; b1; b2; c1; c2] =>
        andb (andb (andb (feq (fst a) a1) (feq (snd a) a2)) (andb (feq (fst b) b1) (feq (snd b) b2)))
             (andb (feq (fst c) c1) (feq (snd c) c2))
    | _, _ => false
    end
  else
    match run3 NumF tag xs, ys with
    | Some (a, b, c), [a1; b1; c1] => andb (andb (feq a a1) (feq b b1)) (feq c c1)
    | _, _ => false
    end.
"""
sc_idx = [k for k, j in enumerate(jobs) if j[3].startswith("sc:")]
pick = [sc_idx[int(k)] for k in rng.choice(len(sc_idx), size=min(len(sc_idx), 160 if Q else 400), replace=False)]
TAGS = {"fsc": 0, "slc": 1, "stc": 2}
lits = []
for k in pick:
    t = jobs[k][0].split()
    xs = [unhex(x) for x in t[2:]]
    ys = [unhex(x) for x in outs[k].split()]
    lits.append(f"({cZ(TAGS[t[0]])}, {cbool(t[1] == 'C')}, {clist(xs, cfloat)}, {clist(ys, cfloat)})")
bad_coq = chk.coq_failing("sc_vm", COQ_IMPORTS, "Z * bool * list float * list float", lits, "check_case")
n_eval += len(lits)
for b in bad_coq[:3]:
    report("extraction-vs-vm_compute", "the extracted OCaml driver and vm_compute disagree on the (sin, cos) layer",
           dict(driver_line=jobs[pick[b]][0], driver_output=outs[pick[b]],
                correspondence="extracted Model.Interface (OCaml) vs the same terms under vm_compute on NumF"), False)

chk.finish(
    evaluations=n_eval,
    distinct_nontrivial=len(nontrivial),
    rule=("one case = (material 5-tuple, function among fluid_solid/solid_l_fluid/solid_t_fluid, angle dtype real/complex, incidence angle); "
          "non-trivial = oblique incidence (angle > 0) with a non-nan result; each case is compared through the `angles`, `sc` and (margin "
          "permitting) `auto` routes and has the Snell/energy identities evaluated on the implementation's output; materials: 6 fixed + random "
          "with c_T in [0.30, 0.707] c_L and fluid velocity log-uniform in [250, 1.3 c_L]; angles: 5 fixed + random in [0, 89.9 deg] + every "
          "critical angle +- {0, 1 ulp, 2 ulp, 1e-9, 1e-6, 1e-3}"),
    samples=samples,
    extra={"materials": len(mats), "model_lines": len(jobs), "driver_cases_rechecked_by_vm_compute": len(lits), "disagreements": disagree, "tolerance": TOL,
           "residual_bound": RES, "max_residuals_on_implementation": max_res,
           "ambiguous_excluded_from_end_to_end_route (class D, margin < 1e-9; compared through the angles route)": ambiguous,
           "helper_outcomes": help_err},
    assumptions=["rounding: theorems hold in exact arithmetic; model and implementation are compared in binary64 at 1e-11",
                 "post-critical energy balance (complex angles): Coq theorems for every regime of a fluid slower than the L wave (fluid "
                 "incidence between / beyond the critical angles, T incidence beyond the L and beyond the L and fluid critical angles); "
                 "the regimes that need v_f > v_l are checked by the residual predicate on the implementation and by correspondence only"],
)
