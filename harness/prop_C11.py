"""C11 — Time-domain synthesis places each echo at its delay with the right waveform.

Proof side : Props/C11.v (toneburst odd/symmetric/peak one/zero outside/t0; Hilbert
             weights; DFT shift theorem = circular shift for whole samples; delay split
             q*dt + rem = d with 0 <= rem < dt; placement of the response slice).
Tie        : extracted model (OCaml floats + libm) vs arim.model.make_toneburst /
             make_toneburst2 sample by sample; model Hilbert weights vs the weights
             recovered from arim.signal.rfft_to_hilbert; the finite Fourier sum of
             Model/Dft.v vs numpy/scipy FFT; the delay split evaluated on the EXACT
             rational value of the float inputs (NumQ, vm_compute in coqc) vs the slice
             where transfer_func_to_timetraces really writes.
Spec on impl: symmetry/peak/zeros of the toneburst; analytic signal = scipy.signal.hilbert;
             spectral shift by m samples = np.roll; for every fitting delay the output is
             H * analytic toneburst with |envelope peak - delay/dt| <= 1/2, reproduced
             sample for sample when the delay falls on a sample.
"""
import fractions

import numpy as np
import scipy.signal

from common import Check, cQ, cZ, close, cpair
import arimgen
from arimgen import fhex, unhex

chk = Check("C11", design_ref="DESIGN.md §5 C11")
chk.proofs(extra_trusted=[
    "extraction: ExtrOcamlBasic only (Extract/C11.v); ocaml/common/numf.ml and ocaml/C11/driver.ml hand-written, trusted",
    "oracles: numpy.fft.rfft / scipy.fftpack.ifft implement the finite Fourier sums of Model/Dft.v (compared on sizes <= 64 each run); scipy.fftpack.next_fast_len returns a length >= its argument",
    "not proved, measured: envelope peak within half a sample for fractional remainders (peak_within_half_sample_partial)",
])
arim = chk.import_arim()
import arim.model as model
import arim.signal
from arim.core import Time

drv = arimgen.Driver(chk.ocaml_driver("C11"))
rng = chk.rng
# second tie: the delay split (nearest sample + signed remainder) is cut out of the current source, translated and
# checked convertible with Model.Signal.delay_idx / delay_rem; a broken tie deepens the run (thorough sizes)
_ties = chk.translation_tie()
Q = chk.tier == "quick" and all(v == "ok" for v in _ties.values())
evaluations = 0
nontrivial = set()
samples = []

# ---------------------------------------------------------------------------
# A. make_toneburst
# ---------------------------------------------------------------------------
tb_cases = []
grid = [(5, 5e6, 1 / 25e6), (5, 5e6, 1 / 20e6), (3, 2.25e6, 1e-8), (1, 1e6, 1e-7), (10, 10e6, 1 / 100e6),
        (2, 5e6, 1 / 10e6), (1, 5e6, 1 / 5e6), (1, 5e6, 1 / 4e6), (0.5, 1.0, 0.3), (4, 1.0, 0.25), (7, 3.0, 1 / 64)]
for _ in range(25 if Q else 300):
    grid.append((float(rng.choice([1, 2, 3, 4, 5, 7.5, 10])), float(rng.uniform(0.5e6, 15e6)),
                 float(1 / rng.uniform(20e6, 200e6))))
for (cyc, f, dt) in grid:
    lp = int(np.ceil(cyc / f / dt))
    lp += (lp % 2 == 0)
    for ns in (None, lp, lp + 1, lp + 7, 2 * lp + 2, max(1, lp - 1)):
        for wrap in (False, True):
            tb_cases.append((cyc, f, dt, ns, wrap))
tb_cases += [(5, 5e6, -1e-8, None, False), (5, -5e6, 1e-8, None, False), (0, 5e6, 1e-8, None, False),
             (5, 5e6, 1e-8, 0, False), (5, 5e6, 1e-8, -3, True)]
lines = [f"TB {fhex(c)} {fhex(f)} {fhex(dt)} {"none" if ns is None else ns} {1 if w else 0}" for (c, f, dt, ns, w) in tb_cases]
outs = drv.run(lines)
for (cyc, f, dt, ns, wrap), o in zip(tb_cases, outs):
    tok = o.split()
    m_len, m_ok = int(tok[0]), tok[1] == "1"
    repl = {"fn": "make_toneburst", "num_cycles": cyc, "centre_freq": f, "dt": dt, "num_samples": ns, "wrap": wrap}
    try:
        impl = model.make_toneburst(cyc, f, dt, ns, wrap)
        impl_a = model.make_toneburst(cyc, f, dt, ns, wrap, analytical=True)
        err = None
    except ValueError as e:
        impl, err = None, "ValueError"
    evaluations += 1
    chk.count(toneburst="error" if err else ("wrap" if wrap else "plain"))
    if (err is None) != m_ok:
        chk.violation("toneburst:error", "make_toneburst accepts/rejects arguments differently from the model",
                      dict(repl, impl_error=err, model_ok=m_ok), failing_input_found=False)
        continue
    if err:
        continue
    mvals = np.array([unhex(x) for x in tok[2:]])
    nontrivial.add(("tb", cyc, f, dt, ns, wrap))
    if len(impl) != len(mvals) or not np.allclose(impl, mvals, rtol=0, atol=1e-12):
        # spec predicates on the implementation's output
        h = m_len // 2
        base = impl if not wrap else np.roll(impl, h)
        spec_ok = (len(impl) == (ns or m_len) and np.allclose(base[:m_len], base[:m_len][::-1], atol=1e-12)
                   and abs(base[h] - 1) < 1e-12 and np.all(base[m_len:] == 0) and np.max(np.abs(impl)) <= 1 + 1e-12)
        chk.violation("toneburst:samples", "make_toneburst differs from the model",
                      dict(repl, impl=impl, model=mvals, pulse_len_model=m_len), failing_input_found=not spec_ok)
        continue
    # spec predicates (always evaluated)
    h = m_len // 2
    base = impl if not wrap else np.roll(impl, h)
    basea = impl_a if not wrap else np.roll(impl_a, h)
    preds = {
        "odd_length": m_len % 2 == 1,
        "symmetric": np.allclose(base[:m_len], base[:m_len][::-1], rtol=0, atol=1e-12),
        "peak_one": abs(base[h] - 1.0) <= 1e-12 and np.max(np.abs(impl)) <= 1 + 1e-12,
        "zero_outside": bool(np.all(base[m_len:] == 0)),
        "analytic_real_part": np.allclose(basea.real, base, rtol=0, atol=1e-12),
        "analytic_envelope_peak": abs(abs(basea[h]) - 1.0) <= 1e-12 and int(np.argmax(np.abs(basea))) == h,
    }
    for name, ok in preds.items():
        if not ok:
            chk.violation(f"toneburst:{name}", f"toneburst property '{name}' fails", dict(repl, impl=impl))
samples.append({"make_toneburst": {"num_cycles": 5, "centre_freq": 5e6, "dt": 4e-8, "pulse_len_model": 25}})

# ---------------------------------------------------------------------------
# B. make_toneburst2
# ---------------------------------------------------------------------------
tb2 = []
for (cyc, f, dt) in grid[: (20 if Q else 150)]:
    for (nb, na) in ((2, 1), (0, 0), (1, 3), (3, 0)):
        tb2.append((cyc, f, dt, nb, na))
outs = drv.run([f"TB2 {fhex(c)} {fhex(f)} {fhex(dt)} {nb} {na}" for (c, f, dt, nb, na) in tb2])
for (cyc, f, dt, nb, na), o in zip(tb2, outs):
    tok = o.split()
    m_len, m_t0, m_min = int(tok[0]), int(tok[1]), int(tok[2])
    m_start = unhex(tok[3])
    for fast in (True, False):
        tt, tb, t0 = model.make_toneburst2(cyc, f, dt, nb, na, use_fast_len=fast)
        evaluations += 1
        nontrivial.add(("tb2", cyc, f, dt, nb, na, fast))
        repl = {"fn": "make_toneburst2", "num_cycles": cyc, "centre_freq": f, "dt": dt, "num_before": nb,
                "num_after": na, "use_fast_len": fast}
        if t0 != m_t0 or tt.start != m_start or tt.step != dt or len(tb) < m_min or (not fast and len(tb) != m_min) \
                or len(tt) != len(tb):
            spec_ok = abs(tb[t0] - 1) < 1e-12 and abs(tt.samples[t0]) < 1e-9 * dt
            chk.violation("toneburst2:t0", "make_toneburst2 time axis / t0_idx differ from the model",
                          dict(repl, impl_t0=t0, model_t0=m_t0, impl_start=tt.start, model_start=m_start,
                               impl_len=len(tb), model_min_len=m_min), failing_input_found=not spec_ok)
        if not (abs(tb[t0] - 1.0) <= 1e-12 and abs(tt.samples[t0]) <= 1e-9 * dt and int(np.argmax(np.abs(tb))) == t0):
            chk.violation("toneburst2:peak", "make_toneburst2: toneburst[t0_idx] != 1 or time[t0_idx] != 0",
                          dict(repl, t0=t0, value=tb[t0], time_at_t0=tt.samples[t0]))
        if np.any(tb[: nb * m_len] != 0) or np.any(tb[nb * m_len + m_len:] != 0):
            chk.violation("toneburst2:zeros", "make_toneburst2 is not zero outside its window", repl)

# ---------------------------------------------------------------------------
# C. rfft_to_hilbert: weights and analytic signal
# ---------------------------------------------------------------------------
ns_list = list(range(1, 18)) + [32, 33, 64, 100, 101] + ([] if Q else [int(x) for x in rng.integers(18, 400, 40)])
outs = drv.run([f"HW {n} {n // 2 + 1}" for n in ns_list])
for n, o in zip(ns_list, outs):
    w = [int(x) for x in o.split()]
    m_w, m_scipy = w[:n], w[n:]
    nf = n // 2 + 1
    # recover the implementation's weights with unit spectra: ifft(h*e_k, n)[0] = h_k / n
    impl_w = []
    for k in range(nf):
        e = np.zeros(nf, complex)
        e[k] = 1.0
        impl_w.append(float(np.real(arim.signal.rfft_to_hilbert(e, n)[0]) * n))
    impl_w = [int(round(x)) for x in impl_w] + [0] * (n - nf)
    evaluations += 1
    nontrivial.add(("hw", n))
    chk.count(hilbert_parity="even" if n % 2 == 0 else "odd")
    x = rng.standard_normal(n)
    got = arim.signal.rfft_to_hilbert(np.fft.rfft(x), n)
    want = scipy.signal.hilbert(x)
    spec_ok = np.allclose(got, want, rtol=0, atol=1e-10 * max(1.0, np.max(np.abs(x))))
    if impl_w != m_w or m_w != m_scipy:
        chk.violation("hilbert:weights", "rfft_to_hilbert weights differ from the model",
                      {"n": n, "impl_weights": impl_w, "model_weights": m_w, "scipy_weights_model": m_scipy},
                      failing_input_found=not spec_ok)
    elif not spec_ok:
        chk.violation("hilbert:analytic", "rfft_to_hilbert differs from scipy.signal.hilbert",
                      {"n": n, "x": x, "got": got, "want": want})
    # multi-dimensional / axis handling
    if n >= 2:
        X = rng.standard_normal((3, n))
        got2 = arim.signal.rfft_to_hilbert(np.fft.rfft(X, axis=-1), n)
        got3 = arim.signal.rfft_to_hilbert(np.fft.rfft(X.T, axis=0), n, axis=0)
        if not (np.allclose(got2, scipy.signal.hilbert(X, axis=-1), atol=1e-10) and
                np.allclose(got3, scipy.signal.hilbert(X.T, axis=0), atol=1e-10)):
            chk.violation("hilbert:axis", "rfft_to_hilbert along an axis differs from scipy.signal.hilbert", {"n": n})
        # 3-D and 4-D spectra along EVERY axis, written with a non-negative and with a negative index
        # (spectra stored frequency-first, (numfreq, numtx, numrx); cubes, where a wrong axis order keeps the shape)
        for shp_ in ((n, 2, 3), (2, n, 3), (2, 3, n), (n, n, n) if n <= 8 else (n, 2, 2), (2, n, 2, 3)):
            for ax_ in range(len(shp_)):
                if shp_[ax_] != n:
                    continue
                Xn = rng.standard_normal(shp_)
                want_ = scipy.signal.hilbert(Xn, axis=ax_)
                for spelled_ in (ax_, ax_ - len(shp_)):
                    gotn = np.asarray(arim.signal.rfft_to_hilbert(np.fft.rfft(Xn, axis=ax_), n, axis=spelled_))
                    evaluations += 1
                    if gotn.shape != want_.shape or not np.allclose(gotn, want_, atol=1e-10):
                        chk.violation("hilbert:axis-nd", f"rfft_to_hilbert of a {len(shp_)}-D spectrum along axis {spelled_} differs from scipy.signal.hilbert",
                                      {"n": n, "shape": list(shp_), "axis": spelled_, "got_shape": list(gotn.shape), "x": Xn}, failing_input_found=True)
                        break

# ---------------------------------------------------------------------------
# D. spectral shift: finite Fourier sum of Model/Dft.v vs FFT oracles, shift = roll
# ---------------------------------------------------------------------------
for n in (1, 2, 3, 4, 7, 8, 16, 31) + (() if Q else (64, 45)):
    x = rng.standard_normal(n) + 1j * rng.standard_normal(n)
    X = np.fft.fft(x)
    k = np.arange(n)
    idft = np.array([np.sum(X * np.exp(2j * np.pi * j * k / n)) / n for j in range(n)])
    evaluations += 1
    if not np.allclose(idft, x, atol=1e-10):
        chk.violation("dft:oracle", "numpy FFT is not the finite Fourier sum of Model/Dft.v", {"n": n},
                      failing_input_found=False)
    dt = float(rng.choice([0.5, 1e-8, 0.3]))
    freq = np.fft.fftfreq(n, dt)
    for m in (0, 1, -1, 2, n, n + 1, -3):
        sh = arim.signal.timeshift_spectra(X[np.newaxis, :], np.array([m * dt]), freq)[0]
        back = np.fft.ifft(sh)
        nontrivial.add(("shift", n, m))
        if not np.allclose(back, np.roll(x, m), atol=1e-9 * max(1, np.max(np.abs(x)))):
            chk.violation("shift:circular", "timeshift_spectra by whole samples is not a circular shift",
                          {"n": n, "m": m, "dt": dt, "x": x, "got": back, "want": np.roll(x, m)})
    # single-frequency form
    d = float(rng.uniform(0, 3 * dt))
    sh1 = arim.signal.timeshift_spectra(np.array([[2.0 - 1.0j]]), np.array([d]), freq)[0]
    if not np.allclose(sh1, (2.0 - 1.0j) * np.exp(-2j * np.pi * freq * d), atol=1e-12):
        chk.violation("shift:single", "single-frequency timeshift_spectra differs from X exp(-i omega tau)",
                      {"n": n, "delay": d, "dt": dt})

# ---------------------------------------------------------------------------
# E. transfer_func_to_timetraces
# ---------------------------------------------------------------------------
ds_cases = []     # (delay - start as float, dt, observed q or None, info)
n_aligned = n_frac = n_mis = 0


def run_tf(cyc, f, dt, start_k, length, delays_rel, H, multi_freq):
    """delays_rel: array (numscat, numtt) of delays relative to the window origin."""
    tt, tb, t0 = model.make_toneburst2(cyc, f, dt, num_before=1, num_after=1)
    n = len(tt)
    tb_f = np.fft.rfft(tb)
    freq = np.fft.rfftfreq(n, dt)
    start = start_k * dt
    ttime = Time(start, dt, length)
    numscat, numtt = delays_rel.shape
    if multi_freq:
        tf = np.repeat(H[..., np.newaxis], len(freq), axis=-1)
    else:
        tf = H[..., np.newaxis]
    out = model.transfer_func_to_timetraces(tf, delays_rel + start, ttime, tt, freq, tb_f, t0)
    analytic = arim.signal.rfft_to_hilbert(tb_f, n)
    return out, analytic, t0, n, start


cfgs = [(5, 5e6, 1 / 25e6), (3, 2e6, 1e-7), (5, 5e6, 1 / 40e6), (2, 1.0, 0.125), (5, 2.0 ** 21, 2.0 ** -24)]
if not Q:
    cfgs += [(4, 3e6, 1 / 33e6), (5, 1e6, 1e-7), (7, 5e6, 1 / 50e6)]
for (cyc, f, dt) in cfgs:
    tt_, tb_, t0_ = model.make_toneburst2(cyc, f, dt, num_before=1, num_after=1)
    n = len(tt_)
    length = 3 * n + 17
    kmin, kmax = t0_, t0_ + length - n            # q - t0 >= 0 and q - t0 + n <= length (q = nearest sample)
    for start_k in (0, 5, -3, 26.25, -0.4):
        ks = np.arange(kmin, kmax + 1)
        if Q:
            ks = ks[:: max(1, len(ks) // 120)]
        # one timetrace per aligned delay k*dt, and k*dt +- ulp
        for variant in ("aligned", "ulp_up", "ulp_down"):
            d = ks * dt
            if variant == "ulp_up":
                d = np.nextafter(d, np.inf)
            elif variant == "ulp_down":
                d = np.nextafter(d, -np.inf)
                d = d[1:]
            kk = ks if variant != "ulp_down" else ks[1:]
            H = (rng.standard_normal(len(d)) + 1j * rng.standard_normal(len(d)))[np.newaxis, :]
            multi = bool(rng.integers(0, 2))
            # NB: the implementation subtracts the window origin in floating point
            out, analytic, t0, n, start = run_tf(cyc, f, dt, start_k, length, d[np.newaxis, :], H, multi)
            for idx in range(len(d)):
                evaluations += 1
                k = int(kk[idx])
                row = out[idx]
                want = np.zeros(length, complex)
                want[k - t0: k - t0 + n] = H[0, idx] * analytic
                peak = int(np.argmax(np.abs(row)))
                # k*dt and k*dt +- 1 ulp all coincide (to rounding) with sample k
                ok_samples = np.allclose(row, want, rtol=0, atol=1e-9 * abs(H[0, idx]))
                ok_peak = peak == k
                nz = np.nonzero(row)[0]
                rel = (d[idx] + start) - start     # what the implementation computes
                ds_cases.append((float(rel), dt, int(nz[0]) + t0 if len(nz) else None,
                                 {"variant": variant, "k": k, "dt": dt, "start_k": start_k}))
                nontrivial.add(("tf", cyc, f, dt, start_k, variant, k))
                chk.count(delay_kind=variant)
                n_aligned += 1
                if not (ok_samples and ok_peak):
                    n_mis += 1
                    chk.violation(f"tf:{variant}",
                                  f"echo with delay on sample k={k} ({variant}) is not the toneburst placed at k "
                                  f"(peak found at {peak})",
                                  {"num_cycles": cyc, "centre_freq": f, "dt": dt, "start": start, "k": k,
                                   "delay": float(d[idx] + start), "peak_index": peak, "multi_freq": multi,
                                   "max_abs_err": float(np.max(np.abs(row - want)))})
        # fractional delays: envelope peak within half a sample
        nfr = 60 if Q else 600
        d = rng.uniform(kmin * dt, (kmax - 0.5) * dt, size=nfr)
        kinds = ["fractional"] * nfr
        # exact half-sample ties (k + 1/2) * dt, k even and odd, and quarter-sample delays
        ties = [(k + 0.5) * dt for k in range(kmin, min(kmax - 1, kmin + 24))] + \
               [(k + 0.25) * dt for k in range(kmin, min(kmax - 1, kmin + 6))]
        d = np.concatenate([d, np.array(ties)])
        kinds += ["half-sample tie"] * (len(ties) - min(6, max(0, kmax - 1 - kmin))) + ["quarter"] * min(6, max(0, kmax - 1 - kmin))
        kinds = kinds[: len(d)] + ["quarter"] * (len(d) - len(kinds))
        nfr = len(d)
        H = (rng.standard_normal(nfr) + 1j * rng.standard_normal(nfr))[np.newaxis, :]
        out, analytic, t0, n, start = run_tf(cyc, f, dt, start_k, length, d[np.newaxis, :], H, bool(rng.integers(0, 2)))
        tb_f_ = np.fft.rfft(model.make_toneburst2(cyc, f, dt, num_before=1, num_after=1)[1])
        freq_ = np.fft.rfftfreq(n, dt)
        for idx in range(nfr):
            evaluations += 1
            n_frac += 1
            row = out[idx]
            peak = int(np.argmax(np.abs(row)))
            rel = (d[idx] + start) - start            # what the implementation computes
            pos = rel / dt
            nz = np.nonzero(row)[0]
            ds_cases.append((float(rel), dt, int(nz[0]) + t0 if len(nz) else None,
                             {"variant": kinds[idx], "dt": dt, "start_k": start_k}))
            chk.count(delay_kind=kinds[idx])
            nontrivial.add(("tf-frac", cyc, f, dt, start_k, float(d[idx])))
            if abs(peak - pos) > 0.5 + 1e-6:
                chk.violation("tf:fractional", "envelope peak is more than half a sample away from the delay",
                              {"num_cycles": cyc, "centre_freq": f, "dt": dt, "start": start,
                               "delay": float(d[idx] + start), "delay_in_samples": float(pos), "peak_index": peak})
                continue
            # waveform: the echo must be the analytic toneburst delayed by `rel`, i.e. for a
            # consistent split rel = q*dt + rem: the spectrum shifted by rem (Model/Dft.v),
            # transformed back and placed at q (Model/Signal.v place).  q = nearest sample; on an
            # exact half-sample tie either neighbour is a consistent split.
            cands = {int(np.floor(pos + 0.5))}
            if abs((pos - np.floor(pos)) - 0.5) < 1e-9:
                cands |= {int(np.floor(pos)), int(np.floor(pos)) + 1}
            okw = False
            for q in cands:
                rem = rel - q * dt
                resp = arim.signal.rfft_to_hilbert(H[0, idx] * tb_f_ * np.exp(-2j * np.pi * freq_ * rem), n)
                want = np.zeros(length, complex)
                if 0 <= q - t0 and q - t0 + n <= length:
                    want[q - t0: q - t0 + n] = resp
                    if np.allclose(row, want, rtol=0, atol=1e-9 * abs(H[0, idx])):
                        okw = True
            if not okw:
                chk.violation("tf:waveform", "echo is not the analytic toneburst delayed by the requested delay "
                              "(whole-sample placement and spectral remainder are inconsistent)",
                              {"num_cycles": cyc, "centre_freq": f, "dt": dt, "start": start, "kind": kinds[idx],
                               "delay": float(d[idx] + start), "delay_in_samples": float(pos), "peak_index": peak,
                               "candidates_q": sorted(cands)})
    # several scatterers: linear superposition on aligned delays
    for numscat in (2, 3):
        numtt = 4
        kk = rng.integers(kmin, kmax + 1, size=(numscat, numtt))
        H = rng.standard_normal((numscat, numtt)) + 1j * rng.standard_normal((numscat, numtt))
        out, analytic, t0, n, start = run_tf(cyc, f, dt, 2, length, kk * dt, H, True)
        want = np.zeros((numtt, length), complex)
        for s in range(numscat):
            for j in range(numtt):
                want[j, kk[s, j] - t0: kk[s, j] - t0 + n] += H[s, j] * analytic
        evaluations += 1
        nontrivial.add(("tf-multi", cyc, numscat))
        if not np.allclose(out, want, rtol=0, atol=1e-9 * np.max(np.abs(H))):
            chk.violation("tf:superposition", "several scatterers: timetraces are not the sum of the placed echoes",
                          {"num_cycles": cyc, "centre_freq": f, "dt": dt, "numscat": numscat, "k": kk})
    # preallocated output is accumulated into
    pre = np.full((1, length), 1.0 + 0j)
    tt, tb, t0 = model.make_toneburst2(cyc, f, dt, num_before=1, num_after=1)
    freq = np.fft.rfftfreq(len(tt), dt)
    o = model.transfer_func_to_timetraces(np.ones((1, 1), complex), np.array([kmin * dt]), Time(0.0, dt, length), tt,
                                          freq, np.fft.rfft(tb), t0, timetraces=pre)
    evaluations += 1
    if o is not pre or not np.allclose(pre[0, n + 3:], 1.0):
        chk.violation("tf:prealloc", "preallocated timetraces are not accumulated in place", {"dt": dt})
    # ... also when the caller's array is a window of a longer record, a Fortran-ordered or a strided array: it is the
    # caller's array that receives the echoes (compared with the result of a call without `timetraces=`)
    ref_ = model.transfer_func_to_timetraces(np.array([[1.0], [0.5]], complex), np.array([kmin * dt, (kmin + 1) * dt]),
                                             Time(0.0, dt, length), tt, freq, np.fft.rfft(tb), t0)
    for lay_ in ("window of a longer record", "fortran", "every other row"):
        base_ = {"window of a longer record": np.zeros((2, length + 7), complex), "fortran": np.zeros((2, length), complex, order="F"),
                 "every other row": np.zeros((4, length), complex)}[lay_]
        mine_ = {"window of a longer record": base_[:, 3:3 + length], "fortran": base_, "every other row": base_[::2]}[lay_]
        try:
            o_ = model.transfer_func_to_timetraces(np.array([[1.0], [0.5]], complex), np.array([kmin * dt, (kmin + 1) * dt]),
                                                   Time(0.0, dt, length), tt, freq, np.fft.rfft(tb), t0, timetraces=mine_)
            err_ = None
        except Exception as e_:      # noqa: BLE001  (a layout the library refuses is not a wrong answer)
            o_, err_ = None, type(e_).__name__
        evaluations += 1
        chk.count(prealloc_layout=lay_ + (": refused " + err_ if err_ else ""))
        if err_ is None and not (np.allclose(mine_, ref_, rtol=0, atol=1e-12) and np.allclose(np.asarray(o_), ref_, rtol=0, atol=1e-12)):
            chk.violation("tf:prealloc-layout", f"the caller's timetraces array ({lay_}) does not receive the echoes that a call without it returns",
                          {"dt": dt, "layout": lay_, "max_abs_in_callers_array": float(np.max(np.abs(mine_))), "max_abs_expected": float(np.max(np.abs(ref_)))})

# sweep of the toneburst configurations (sampling step, centre frequency, cycle count, padding options): every valid
# make_toneburst2 output must be accepted and its echoes placed; the SAME delays array is handed over twice (a second
# window / a second set of transfer functions in the caller): it must come back untouched and give the same answer
import itertools
sweep = [(cyc, f, dt, nb, na) for dt in (10e-9, 20e-9, 25e-9, 40e-9, 50e-9, 100e-9) for f in (1e6, 2e6, 2.5e6, 5e6, 10e6)
         for cyc in (2, 3, 5, 7) for nb in (0, 1, 2) for na in (0, 1, 2) if f * dt <= 0.26]
if Q:
    sweep = [sweep[int(i)] for i in rng.choice(len(sweep), size=160, replace=False)]
for (cyc, f, dt, nb, na) in sweep:
    fast = bool(rng.integers(0, 2))
    tt, tb, t0 = model.make_toneburst2(cyc, f, dt, num_before=nb, num_after=na, use_fast_len=fast)
    n = len(tt)
    length = 2 * n + 40
    start_k = int(rng.choice([0, 0, 7, -5, 500]))
    start = start_k * dt
    ks = np.array(sorted({t0, t0 + 3, t0 + length - n}))          # first, an interior and the last admissible sample
    delays = (ks + start_k) * dt
    delays_arg = delays[np.newaxis, :].copy()
    H = (rng.standard_normal(len(ks)) + 1j * rng.standard_normal(len(ks)))[np.newaxis, :, np.newaxis]
    freq, tb_f = np.fft.rfftfreq(n, dt), np.fft.rfft(tb)
    repl = {"num_cycles": cyc, "centre_freq": f, "dt": dt, "num_before": nb, "num_after": na, "use_fast_len": fast,
            "t0_idx": int(t0), "toneburst_len": n, "window_start": start, "window_len": length, "delays": delays}
    evaluations += 1
    chk.count(toneburst_sweep=f"dt={dt * 1e9:.0f}ns")
    try:
        out1 = np.array(model.transfer_func_to_timetraces(H, delays_arg, Time(start, dt, length), tt, freq, tb_f, t0))
        untouched = np.array_equal(delays_arg, delays[np.newaxis, :])
        out2 = np.array(model.transfer_func_to_timetraces(H, delays_arg, Time(start, dt, length), tt, freq, tb_f, t0))
    except Exception as e:      # noqa: BLE001
        chk.violation("tf:sweep-raises", f"transfer_func_to_timetraces rejects a valid make_toneburst2 configuration ({type(e).__name__}: {e})",
                      dict(repl, exception=repr(e)))
        continue
    if not untouched or not np.array_equal(delays_arg, delays[np.newaxis, :]):
        chk.violation("tf:sweep-inputs", "transfer_func_to_timetraces modified the delays array it was given", dict(repl, delays_after=delays_arg))
        continue
    analytic = arim.signal.rfft_to_hilbert(tb_f, n)
    want = np.zeros((len(ks), length), complex)          # one timetrace per delay
    for j, k in enumerate(ks):
        want[j, k - t0: k - t0 + n] = H[0, j, 0] * analytic
    sc_ = float(np.max(np.abs(H)))
    if out1.shape != want.shape or not np.allclose(out1, want, rtol=0, atol=1e-9 * sc_) or not np.array_equal(out1, out2):
        chk.violation("tf:sweep-placement", "echoes on sample-aligned delays are not the scaled analytic toneburst placed at those samples "
                      "(or a second call with the same arguments differs)",
                      dict(repl, max_abs_err=float(np.max(np.abs(out1 - want))) if out1.shape == want.shape else None,
                           second_call_equal=bool(np.array_equal(out1, out2))))

# a toneburst sampled with another step than the output window cannot be placed sample by sample: the function refuses it
# (NotImplementedError); silently going on would stretch or compress every echo by the ratio of the steps
for (dt_tb, dt_out) in ((10e-9, 20e-9), (10e-9, 12.5e-9), (20e-9, 25e-9), (10e-9, 16e-9), (50e-9, 40e-9), (1e-7, 1.0000001e-7)):
    tt, tb, t0 = model.make_toneburst2(5, 2e6, dt_tb, num_before=1, num_after=1)
    n = len(tt)
    freq, tb_f = np.fft.rfftfreq(n, dt_tb), np.fft.rfft(tb)
    k_ = t0 + 20
    H1 = np.ones((1, 1, 1), complex)
    evaluations += 1
    chk.count(step_mismatch="toneburst and window steps differ")
    try:
        o_ = np.array(model.transfer_func_to_timetraces(H1, np.array([[k_ * dt_out]]), Time(0.0, dt_out, 3 * n), tt, freq, tb_f, t0))
    except NotImplementedError:
        continue
    except Exception as e:      # noqa: BLE001
        chk.violation("tf:step-mismatch", f"steps of toneburst ({dt_tb}) and window ({dt_out}) differ: raises {type(e).__name__}, not NotImplementedError",
                      {"toneburst_step": dt_tb, "window_step": dt_out, "exception": repr(e)}, failing_input_found=False)
        continue
    # accepted: then the echo must really be the analytic toneburst (duration n * dt_tb) on the window's own time axis
    analytic = arim.signal.rfft_to_hilbert(tb_f, n)
    t_out = np.arange(3 * n) * dt_out
    want_env = np.interp(t_out, (np.arange(n) - t0) * dt_tb + k_ * dt_out, np.abs(analytic), left=0.0, right=0.0)
    if not np.allclose(np.abs(o_[0]), want_env, rtol=0, atol=0.05):
        chk.violation("tf:step-mismatch", "a toneburst sampled with another step than the output window is accepted and the echo is "
                      "stretched / compressed by the ratio of the steps", {"toneburst_step": dt_tb, "window_step": dt_out,
                                                                            "max_envelope_error": float(np.max(np.abs(np.abs(o_[0]) - want_env)))})

# HISTORY: the arrays returned by make_toneburst2 are the caller's own (scaled to a pulser voltage, gated, ...); the next
# call with the same arguments must return the pristine toneburst
for (cyc, f, dt, nb, na) in ((5, 5e6, 1 / 50e6, 2, 2), (3, 2e6, 1e-7, 0, 1)):
    tt1, tb1, t01 = model.make_toneburst2(cyc, f, dt, num_before=nb, num_after=na)
    pristine = np.array(tb1, copy=True)
    try:
        tb1 *= 37.0
        tb1[len(tb1) // 2:] = 0.0
    except ValueError:
        pass
    tt2, tb2, t02 = model.make_toneburst2(cyc, f, dt, num_before=nb, num_after=na)
    evaluations += 1
    if not np.array_equal(np.asarray(tb2), pristine) or t02 != t01 or tb2[t02] != 1.0:
        chk.violation("toneburst2:history", "make_toneburst2 returns a different toneburst after the caller edited in place the array "
                      "returned by an earlier call with the same arguments",
                      {"num_cycles": cyc, "centre_freq": f, "dt": dt, "num_before": nb, "num_after": na,
                       "peak_value_second_call": float(np.asarray(tb2)[t02])})

# a LARGE request (thousands of timetraces, two scatterers: more than 2^21 response samples in one call): every echo of
# every timetrace at its own delay
cyc, f, dt = 5, 1e6, 1 / 80e6
tt, tb, t0 = model.make_toneburst2(cyc, f, dt, num_before=1, num_after=1)
n = len(tt)
numtt_, numscat_ = (2700 if Q else 6000), 2
length = n + 700
freq, tb_f = np.fft.rfftfreq(n, dt), np.fft.rfft(tb)
ks_ = rng.integers(t0, t0 + length - n + 1, size=(numscat_, numtt_))
H_ = rng.standard_normal((numscat_, numtt_)) + 1j * rng.standard_normal((numscat_, numtt_))
out_ = np.asarray(model.transfer_func_to_timetraces(H_[..., np.newaxis], ks_ * dt, Time(0.0, dt, length), tt, freq, tb_f, t0))
analytic = arim.signal.rfft_to_hilbert(tb_f, n)
want_ = np.zeros((numtt_, length), complex)
for s_ in range(numscat_):
    for j_ in range(numtt_):
        k_ = int(ks_[s_, j_])
        want_[j_, k_ - t0: k_ - t0 + n] += H_[s_, j_] * analytic
evaluations += numtt_
chk.count(large_request=f"{numscat_} scatterers x {numtt_} timetraces x {n} samples")
if out_.shape != want_.shape or not np.allclose(out_, want_, rtol=0, atol=1e-9 * float(np.max(np.abs(H_)))):
    badrows = np.nonzero(np.max(np.abs(out_ - want_), axis=1) > 1e-9 * float(np.max(np.abs(H_))))[0] if out_.shape == want_.shape else [0]
    chk.violation("tf:large-request", f"a request of {numscat_} x {numtt_} timetraces: {len(badrows)} timetraces do not hold their echoes at their "
                  "own delays", {"num_cycles": cyc, "centre_freq": f, "dt": dt, "numscatterers": numscat_, "numtimetraces": numtt_,
                                 "toneburst_len": n, "first_bad_timetrace": int(badrows[0]),
                                 "how": "sample-aligned random delays and complex coefficients; seed and tier replay it"})

# model side: delay split on the exact rational value of the float inputs (NumQ)
lits, keep = [], []
for i, (rel, dt, q_obs, info) in enumerate(ds_cases):
    if q_obs is None:
        continue
    pos = fractions.Fraction(rel) / fractions.Fraction(dt)
    fl_ = pos.numerator // pos.denominator
    margin = abs((pos - fl_) - fractions.Fraction(1, 2))
    if margin < fractions.Fraction(1, 10 ** 9):
        chk.count(delay_split="ambiguous (within 1e-9 of a half-sample boundary: either neighbour accepted)")
        continue
    chk.count(delay_split="decided")
    lits.append(cpair(cQ(rel), cQ(dt), cZ(q_obs)))
    keep.append(i)
if len(lits) > (1500 if Q else 20000):
    sel = sorted(rng.choice(len(lits), size=(1500 if Q else 20000), replace=False))
    lits, keep = [lits[i] for i in sel], [keep[i] for i in sel]
fails = chk.coq_failing(
    "cases_delay_split", "From Coq Require Import ZArith QArith List.\nFrom Arim Require Import Base.Num Base.NumQ Model.Signal.",
    "Q * Q * Z", lits, "fun c => let '(d, dt, q) := c in Z.eqb (delay_idx NumQ d dt) q")
for j in fails[:5]:
    rel, dt, q_obs, info = ds_cases[keep[j]]
    chk.violation("tf:delay_idx", "the slice written by transfer_func_to_timetraces does not start at round(d/dt) - t0",
                  dict(info, delay_rel=rel, dt=dt, observed_q=q_obs, correspondence="Model.Signal.delay_idx (NumQ)"),
                  failing_input_found=False)

samples.append({"transfer_func_to_timetraces": {"num_cycles": cfgs[0][0], "centre_freq": cfgs[0][1], "dt": cfgs[0][2],
                                                "aligned_delays_checked": n_aligned, "fractional": n_frac}})
# ---- the glue model of the public functions (Model files added later, see manifest text) tied to the library on every run:
#      inputs generated here, the library run on them, the model evaluated on the same inputs by vm_compute inside coqc
import ties.tie_C11 as _tie_glue  # noqa: E402
_tie_n = _tie_glue.run(chk, arim, rng, Q)
chk.cov["glue_model_tie_comparisons"] = int(_tie_n or 0)

chk.finish(
    evaluations=evaluations,
    distinct_nontrivial=len(nontrivial),
    rule=("cases: (toneburst parameters, num_samples, wrap) incl. rejected arguments; make_toneburst2 paddings; Hilbert "
          "weights for n=1..17,32,33,64,100,101(+random); spectral shifts by whole samples for n<=64; and one echo per "
          "(toneburst, window origin, delay) with delays on EVERY fitting sample k*dt, k*dt +- 1 ulp and random "
          "fractional delays, single/multi-frequency transfer functions, 1-3 scatterers; distinct = distinct parameter "
          "tuples; non-trivial = accepted arguments"),
    samples=samples,
    extra={"aligned_delays": n_aligned, "fractional_delays": n_frac, "misplaced": n_mis, "exhaustive": False},
    assumptions=["FFT routines are oracles for the finite Fourier sums (checked against the definition on small sizes)",
                 "theorems are exact-arithmetic; sample comparisons use 1e-9 of the echo amplitude"],
)
