"""C07 — Receive-side (reverse) terms equal transmit-side terms of the reversed path.

Proof side : Props/C07.v (reverse transmission/reflection product = direct product on the
             reversed path, factor by factor identical calls, both units, complex
             coefficients; reverse beamspread = beamspread of the reversed path under Snell;
             attenuation symmetric).
Tie        : Snell-exact single-ray immersion geometries (harness/snellexact.py: analytic
             ray through tilted walls, real arim Interfaces/Path/Rays/Materials with 1..3
             block legs and any L/T mode word, incidence on both sides of the critical
             angles).  The extracted model (OCaml floats, complex = pairs) is fed with the
             ANALYTICALLY computed incidence angles and leg lengths and compared with
             arim.model.transmission_reflection_for_path, reverse_..., beamspread (both),
             material_attenuation_for_path.
Spec on impl: reverse_*(p, RayGeometry(p)) == direct(p.reverse(), RayGeometry(p.reverse()))
             ray for ray, in both units; attenuation equal in both directions.
"""
import math
import warnings
import numpy as np

from common import Check, close
import arimgen
import snellexact
from arimgen import fhex, unhex

chk = Check("C07", design_ref="DESIGN.md §5 C07")
chk.proofs(extra_trusted=[
    "extraction: ExtrOcamlBasic only (Extract/C07.v); ocaml/common/numf.ml and ocaml/C07/driver.ml hand-written, trusted",
    "the hypothesis 'the reversed ray's incidence angle is the Snell image of the forward one' is discharged on analytically traced rays only (arim's discrete ray tracing satisfies it approximately: not part of this property)",
])
arim = chk.import_arim()
import arim.model as model
import arim.ray

drv = arimgen.Driver(chk.ocaml_driver("C07"))
rng = chk.rng
# second tie: the scalar kernels are re-translated from the current source and checked
# convertible with the model; a broken tie deepens the correspondence run (thorough sizes)
_ties = chk.translation_tie()
Q = chk.tier == "quick" and all(v == "ok" for v in _ties.values())
FREQ = 2.0e6
WARMUP = ["conventional_out_angle", "out_leg_polar", "out_leg_azimuth", "signed_out_angle", "out_leg_radius",
          "out_leg_cartesian", "conventional_inc_angle", "inc_leg_polar", "inc_leg_azimuth", "signed_inc_angle",
          "inc_leg_radius", "inc_leg_cartesian", "inc_leg_size", "leg_points", "orientations_of_legs_points"]
want = 1500 if Q else 15000
lines, meta = [], []
tries = 0
while len(meta) < want and tries < 40 * want:
    tries += 1
    library = False
    if tries % 12 == 0:
        geom = snellexact.grazing_geometry(rng)      # a block leg within 2 degrees of grazing
        chk.count(near_grazing_leg=geom is not None)
    elif tries % 12 == 5:
        # every wall met exactly along its normal (walls tilted by a whole number of degrees)
        geom = snellexact.normal_incidence_geometry(rng)
        chk.count(normal_incidence_on_tilted_walls=geom is not None)
    elif tries % 6 == 2:
        # flat walls: the interfaces, their normal-side flags and kinds and the paths come from the LIBRARY
        # (block_in_immersion.make_interfaces / make_paths, 0..2 wall reflections), only the rays are set by hand
        geom = snellexact.random_geometry(rng, max_tilt_deg=0.0, max_inc_deg=86.0)
        library = geom is not None and geom["immersion"] and geom["nlegs"] >= 2
    else:
        geom = snellexact.random_geometry(rng, max_inc_deg=86.0)
    if geom is None or not geom["immersion"] or geom["nlegs"] < 2:
        continue
    att = (float(rng.uniform(0, 3)), float(rng.uniform(0, 8)), float(rng.uniform(0, 12))) if rng.random() < 0.7 else None
    if att is not None and rng.random() < 0.4:
        att = att + ("polynomial", FREQ / 1e6)      # frequency-dependent laws with these values at FREQ
    chk.count(attenuation_law="none" if att is None else "polynomial" if len(att) > 3 else "constant")
    # half of the set-ups are moved as a whole by a rigid rotation (about z: the rays leave the plane y = 0 while flat walls
    # keep their normals; or any yaw-pitch-roll): lengths and angles to the local normals are unchanged
    rigid = None
    u_ = rng.random()
    if u_ < 0.3:
        rigid = arim.geometry.rotation_matrix_z(float(rng.uniform(-np.pi, np.pi)))
    elif u_ < 0.5:
        rigid = arim.geometry.rotation_matrix_ypr(*rng.uniform(-np.pi, np.pi, 3))
    chk.count(rigid_rotation=("none" if rigid is None else "about z" if u_ < 0.3 else "yaw-pitch-roll"))
    spin = rng.uniform(-np.pi, np.pi, geom["nlegs"] + 1) if rng.random() < 0.5 else None
    chk.count(local_frames="spun about their normals" if spin is not None else "tangent in the plane of incidence")
    if library:
        path = snellexact.library_path(geom, arim, attenuation=att)
        chk.count(interfaces_built_by="block_in_immersion.make_interfaces / make_paths", rays_replaced_on_the_same_path=False)
    elif rng.random() < 0.3:
        # HISTORY on the Path object: a first (coarse) ray tracing through wrongly placed wall samples is looked at, then
        # the rays of the SAME path are replaced by the exact ones; every term must be that of the current rays
        path = snellexact.arim_path(geom, arim, physical=True, attenuation=att, decoy=float(rng.uniform(0.3e-3, 3e-3)), rigid=rigid, spin=spin)
        exact_rays, path.rays = path.rays, path.decoy_rays
        g0 = arim.ray.RayGeometry.from_path(path)
        for k_ in range(1, g0.numinterfaces):
            g0.inc_leg_size(k_)
            g0.conventional_inc_angle(k_) if k_ < g0.numinterfaces - 1 else None
        model.beamspread_2d_for_path(arim.ray.RayGeometry.from_path(path))
        path.rays = exact_rays
        chk.count(rays_replaced_on_the_same_path=True)
    else:
        crowd = 71 if (tries % 4 == 1 and rigid is None) else None      # finely sampled walls, the crossing point at an odd index
        from_end = crowd is not None and tries % 8 == 1                  # ... designated by k - numpoints (counted from the end)
        path = snellexact.arim_path(geom, arim, physical=True, attenuation=att, rigid=rigid, spin=spin, crowd=crowd, from_end=from_end)
        chk.count(rays_replaced_on_the_same_path=False, finely_sampled_wall_with_local_normal=crowd is not None,
                  wall_sample_counted_from_the_end=from_end)
    rg = arim.ray.RayGeometry.from_path(path)
    rpath = path.reverse()
    rrg = arim.ray.RayGeometry.from_path(rpath)
    impl = {}
    # history: the RayGeometry objects handed to the model functions may have been queried before, in any
    # order (TFM angle limits, Snell checks, ...); the cached object must answer as a fresh one does
    if rng.random() < 0.5:
        nq = 0
        for g_ in (rg, rrg):
            for _ in range(int(rng.integers(1, 6))):
                meth = str(rng.choice(WARMUP))
                k = int(rng.integers(-g_.numinterfaces, g_.numinterfaces))
                try:
                    getattr(g_, meth)(k)
                    nq += 1
                except Exception:          # noqa: BLE001  (queries undefined at the first/last interface)
                    pass
        chk.count(ray_geometry_queried_before=True)
    else:
        chk.count(ray_geometry_queried_before=False)
    # the unit strings are documented case-insensitively by the interface-level functions (unit.lower())
    spell = {"stress": str(rng.choice(["stress", "stress", "Stress", "STRESS"])),
             "displacement": str(rng.choice(["displacement", "displacement", "Displacement", "DISPLACEMENT"]))}
    chk.count(unit_spelling="lower-case" if (spell["stress"], spell["displacement"]) == ("stress", "displacement") else "capitalised")
    # the library-wide precision settings (arim.settings.FLOAT / COMPLEX) at non-default values while the terms of a
    # double-precision geometry are evaluated: the same terms
    import arim.settings as _st
    _keep = (_st.FLOAT, _st.COMPLEX)
    low_settings = tries % 9 == 4
    if low_settings:
        _st.FLOAT, _st.COMPLEX = np.float32, np.complex64
    chk.count(precision_settings="FLOAT=float32 COMPLEX=complex64" if low_settings else "default")
    for unit in ("stress", "displacement"):
        impl[("fwd", unit)] = complex(model.transmission_reflection_for_path(path, rg, unit=spell[unit])[0, 0])
        impl[("rev", unit)] = complex(model.reverse_transmission_reflection_for_path(path, rg, unit=spell[unit])[0, 0])
        impl[("fwd_of_reversed", unit)] = complex(model.transmission_reflection_for_path(rpath, rrg, unit=spell[unit])[0, 0])
        # ... and the same statement for the path written the other way round (target -> walls -> front wall -> couplant -> probe:
        # its transmission is NOT at its first interface): its receive-side term is the transmit-side term of ITS reversed path
        impl[("rev_of_reversed", unit)] = complex(model.reverse_transmission_reflection_for_path(rpath, rrg, unit=spell[unit])[0, 0])
    # the non-default real-arithmetic option (force_complex=False): where a refracted wave is evanescent both sides are
    # undefined (NaN) together; everywhere else they agree as above
    with np.errstate(all="ignore"), warnings.catch_warnings():
        warnings.simplefilter("ignore")
        try:
            impl[("rev_real", "stress")] = complex(np.asarray(model.reverse_transmission_reflection_for_path(path, rg, force_complex=False))[0, 0])
            impl[("fwd_of_reversed_real", "stress")] = complex(np.asarray(model.transmission_reflection_for_path(rpath, rrg, force_complex=False))[0, 0])
        except Exception as e_:      # noqa: BLE001
            impl[("rev_real", "stress")] = impl[("fwd_of_reversed_real", "stress")] = complex("nan")
            impl["real_option_error"] = repr(e_)
    impl["bs"] = float(model.beamspread_2d_for_path(rg)[0, 0])
    impl["rbs"] = float(model.reverse_beamspread_2d_for_path(rg)[0, 0])
    impl["bs_of_reversed"] = float(model.beamspread_2d_for_path(rrg)[0, 0])
    # the frequency as a Python float, a 0-d or a one-element float64 array (the caller's array must come back untouched)
    fkind = int(rng.integers(0, 3))
    freq_arg = [FREQ, np.array(FREQ), np.array([FREQ])][fkind]
    chk.count(frequency_argument=["float", "0-d float64 array", "one-element float64 array"][fkind])
    impl["att"] = float(np.asarray(model.material_attenuation_for_path(path, rg, freq_arg)).reshape(-1)[0])
    impl["att_of_reversed"] = float(np.asarray(model.material_attenuation_for_path(rpath, rrg, freq_arg)).reshape(-1)[0])
    impl["freq_after"] = float(np.asarray(freq_arg).reshape(-1)[0])
    _st.FLOAT, _st.COMPLEX = _keep
    # model input from the analytic geometry (independent of RayGeometry)
    n = geom["nlegs"] - 1
    toks = ["P"] + [fhex(geom[k]) for k in ("rho_f", "c_f", "rho_s", "c_l", "c_t")] + [str(n)]
    for i in range(n):
        kind = geom["walls"][i][2]
        if kind == "T":
            toks += ["0", "1", "f", "s", "f"]
        else:
            toks += ["1", "0", "s", "s", "f"]
        toks += [geom["modes"][i], geom["modes"][i + 1], fhex(geom["inc"][i])]
    toks += [fhex(x) for x in geom["legs"]] + [fhex(x) for x in geom["vels"]]
    if att is None:
        toks += ["none"] * geom["nlegs"]
    else:
        toks += [fhex(att[0])] + [fhex(att[1] if m == "L" else att[2]) for m in geom["modes"][1:]]
    lines.append(" ".join(toks))
    # which regime: any coefficient beyond a critical angle?
    crit = any(geom["c_l"] / v * np.sin(a) > 1 for v, a in zip(geom["vels"], geom["inc"]))
    chk.count(modes="".join(geom["modes"][1:]), beyond_L_critical=bool(crit), attenuation=att is not None)
    meta.append(dict(normal_family="tilt_degrees" in geom,
                     geom={k: geom[k] for k in ("src", "phi", "vels", "legs", "inc", "out", "modes", "rho_f", "rho_s",
                                                 "c_f", "c_l", "c_t", "last_len")},
                     walls=[(list(w[0]), w[1], w[2]) for w in geom["walls"]], att=att, impl=impl, unit_spelling=spell))

outs = drv.run(lines)
nontrivial = set()
TOL = 1e-9
# coefficients are O(1); mode-conversion factors vanish like theta at normal incidence, where arim's polar
# angle acos(z/r) carries an absolute error up to ~1e-16/theta (<= ~1.5e-8 at theta ~ 1e-8; measured 4e-7
# relative at theta = 1.7e-5): an absolute floor avoids comparing that conditioning noise
ATOL = 2e-7
for m, o in zip(meta, outs):
    tok = o.split()
    impl = m["impl"]
    nontrivial.add(("".join(m["geom"]["modes"]), tuple(m["geom"]["legs"])))

    def cplx(i):
        return None if tok[i] in ("raise", "none") else complex(unhex(tok[i]), unhex(tok[i + 1]))
    mod = {("fwd", "stress"): cplx(0), ("rev", "stress"): cplx(2), ("fwd", "displacement"): cplx(4), ("rev", "displacement"): cplx(6)}
    mbs, mrbs, matt = unhex(tok[8]), unhex(tok[9]), unhex(tok[10])
    m["model"] = {f"{k[0]}:{k[1]}": v for k, v in mod.items()}
    m["model"].update(beamspread=mbs, reverse_beamspread=mrbs, attenuation=matt)
    # --- spec predicates on the implementation: reverse(p) == direct(reverse p) ---------
    spec_ok = True
    for unit in ("stress", "displacement"):
        if not close(impl[("rev", unit)], impl[("fwd_of_reversed", unit)], TOL, ATOL):
            spec_ok = False
            chk.violation(f"transrefl:{unit}", f"reverse transmission-reflection product ({unit}) differs from the direct "
                          "product on the reversed path", dict(m, unit=unit, impl={str(k): v for k, v in impl.items()}))
        if not close(impl[("rev_of_reversed", unit)], impl[("fwd", unit)], TOL, ATOL):
            spec_ok = False
            chk.violation(f"transrefl-backwards:{unit}", f"for the path written from the target to the probe, the reverse transmission-reflection "
                          f"product ({unit}) differs from the direct product on its reversed path (the original path)",
                          dict(m, unit=unit, impl={str(k): v for k, v in impl.items()}))
    if m.get("normal_family"):
        # a ray along the normals of all its walls: every term is defined (finite) in both directions
        undefined_ = [str(k) for k, v in impl.items() if isinstance(v, (float, complex)) and v != v]
        if undefined_:
            spec_ok = False
            chk.violation("normal-incidence:undefined", f"terms {undefined_} are NaN on a ray that meets every wall exactly along its normal",
                          dict(m, impl={str(k): v for k, v in impl.items()}))
    a_, b_ = impl[("rev_real", "stress")], impl[("fwd_of_reversed_real", "stress")]
    if "real_option_error" in impl or (a_ != a_) != (b_ != b_) or (a_ == a_ and not close(a_, b_, TOL, ATOL)):
        spec_ok = False
        chk.violation("transrefl:force_complex=False", "with force_complex=False the reverse transmission-reflection product and the direct "
                      "product on the reversed path differ (one undefined and the other not, or different values)",
                      dict(m, impl={str(k): v for k, v in impl.items()}))
    if not close(impl["rbs"], impl["bs_of_reversed"], TOL):
        spec_ok = False
        chk.violation("beamspread", "reverse beamspread differs from the beamspread of the reversed path",
                      dict(m, impl={str(k): v for k, v in impl.items()}))
    if not close(impl["att"], impl["att_of_reversed"], 1e-12):
        spec_ok = False
        chk.violation("attenuation", "material attenuation differs between the two directions",
                      dict(m, impl={str(k): v for k, v in impl.items()}))
    if impl.get("freq_after", FREQ) != FREQ:
        spec_ok = False
        chk.violation("attenuation:frequency-argument", "material_attenuation_for_path changed the caller's frequency array",
                      dict(m, frequency_before=FREQ, frequency_after=impl["freq_after"], impl={str(k): v for k, v in impl.items()}))
    # the attenuation against its definition exp(-sum a_k(f) d_k) on the analytic leg lengths (a spec predicate: the
    # coefficients at FREQ are the ones the materials were built from)
    if m["att"] is not None:
        a_ = [m["att"][0]] + [m["att"][1] if md_ == "L" else m["att"][2] for md_ in m["geom"]["modes"][1:]]
        want_att = math.exp(-sum(ak_ * dk_ for ak_, dk_ in zip(a_, m["geom"]["legs"])))
        if not close(impl["att"], want_att, 1e-10):
            spec_ok = False
            chk.violation("attenuation:definition", "material attenuation is not exp(-sum a_k(f) d_k) on the legs of the ray",
                          dict(m, expected=want_att, impl={str(k): v for k, v in impl.items()}))
    # --- correspondence with the extracted model -----------------------------------------
    for key, mv in mod.items():
        if mv is None or not close(impl[key], mv, TOL, ATOL):
            if spec_ok:
                chk.violation(f"model:{key[0]}:{key[1]}", f"{key[0]} transmission-reflection product ({key[1]}) differs from the model",
                              dict(m, which=key, impl_value=impl[key], model_value=mv,
                                   impl={str(k): v for k, v in impl.items()},
                                   correspondence="Model.Weights.(reverse_)transrefl_for_path (extracted)"),
                              failing_input_found=False)
    for name, iv, mv, tol in (("beamspread", impl["bs"], mbs, TOL), ("reverse_beamspread", impl["rbs"], mrbs, TOL),
                              ("attenuation", impl["att"], matt, 1e-12)):
        if not close(iv, mv, tol) and spec_ok:
            chk.violation(f"model:{name}", f"{name} differs from the model", dict(m, impl_value=iv, model_value=mv,
                          impl={str(k): v for k, v in impl.items()}), failing_input_found=False)

samples = [{"modes": m["geom"]["modes"], "inc": m["geom"]["inc"], "legs": m["geom"]["legs"],
            "rev_displacement_impl": m["impl"][("rev", "displacement")], "model": m["model"]["rev:displacement"]}
           for m in meta[:3]]
# ---- the glue model of the public functions (Model files added later, see manifest text) tied to the library on every run:
#      inputs generated here, the library run on them, the model evaluated on the same inputs by vm_compute inside coqc
import ties.tie_C07 as _tie_glue  # noqa: E402
_tie_n = _tie_glue.run(chk, arim, rng, Q)
chk.cov["glue_model_tie_comparisons"] = int(_tie_n or 0)

chk.finish(
    evaluations=len(meta) * 11,
    distinct_nontrivial=len(nontrivial),
    rule=("one case = one analytically traced Snell-exact immersion ray (2..4 legs, random L/T mode word, tilted walls, "
          "incidence up to 86 deg incl. beyond the L critical angle, optional attenuation); 11 observables per ray "
          "(forward/reverse products in 2 units, on the path and on the reversed path; beamspread x3; attenuation x2); "
          "distinct = distinct (mode word, leg lengths); all are non-trivial (>= 1 interface)"),
    samples=samples,
    extra={"rays": len(meta), "tolerance": TOL},
    assumptions=["theorems are exact-arithmetic; comparisons at 1e-9 relative (the two routes evaluate arcsin/sin chains differently)"],
)
