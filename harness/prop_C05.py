"""C05 — Ray geometry: leg lengths, travel time and angle conventions are as documented.

Proof side : Props/C05.v (leg size = Euclidean distance of consecutive ray points; radius
             in an orthonormal frame = leg size; polar angle is the arccos of the local z
             direction cosine, in [0, pi]; conventional angle = theta or pi - theta by the
             normal-side flag, ValueError when it is None; signed angle = +theta iff
             -pi/2 < phi <= pi/2; incoming quantities at interface k = outgoing quantities
             at n-1-k of the reversed path with reversed rays; sum of leg/velocity = time of
             the solver's ray).
Tie        : real arim Interface / Path / Rays / RayGeometry objects vs the extracted model
             (OCaml floats + libm), all 17 query methods, every interface index in
             -n-1 .. n, every ray (i, j): outcome kinds (array / None / IndexError /
             ValueError) exactly, gathered points and frames exactly, numbers within 1e-11
             (conditioning of arccos / arctan2 accounted for), the SIGN of the signed angle
             under class D (azimuth within 1e-9 of +-pi/2 excluded and counted) on random
             floats and exactly on the dyadic boundary family (phi on the axes / diagonals).
             The same for path.reverse() against the model's own reversal.
Spec on impl: leg size = distance between the ray points (gathered independently); radius =
             size; polar / azimuth recomputed from the third / first two ROWS of the frame;
             documented sign rule on the implementation's own polar and azimuth; conventional
             = polar or pi - polar; negative index == positive index; inc at k == out at
             n-1-k of path.reverse(); sum leg/velocity == rays.times for rays traced by arim
             (arimgen.immersion_setup); analytic incidence / refraction angles and leg
             lengths of Snell-exact tilted geometries (snellexact.py), also after an arbitrary
             rigid 3-D rotation of the whole scene.
"""
import glob
import json
import math
import os

import numpy as np

from common import Check, close, VERIF
import arimgen
import snellexact
from arimgen import fhex, unhex

chk = Check("C05", design_ref="DESIGN.md §5 C05")
chk.proofs(extra_trusted=[
    "extraction: ExtrOcamlBasic only (Extract/C05.v); ocaml/common/numf.ml (float record from OCaml floats + libm) and ocaml/C05/driver.ml hand-written, trusted",
    "modelled, not verified: numpy take/einsum/arccos/arctan2 and the numba vectorize kernel _signed_leg_angle compute what Model/RayGeom.v says (sampled by the tie); result cache is C14; Interface.kind reversal is not part of C05",
    "legs_sum_to_time relies on Model/Fermat.v + Proofs/FermatProofs.v (C01) for the solver",
])
# the numba 'parallel' ufunc _signed_leg_angle spins up its whole thread pool on every call
# (tens of ms on a busy 16-core machine for arrays of <= 36 rays): two threads are enough
os.environ.setdefault("NUMBA_NUM_THREADS", "2")
arim = chk.import_arim()
import arim.ray
import arim.geometry as g

drv = arimgen.Driver(chk.ocaml_driver("C05"))
rng = chk.rng
# second tie: the scalar kernels are re-translated from the current source and checked
# convertible with the model; a broken tie deepens the correspondence run (thorough sizes)
_ties = chk.translation_tie()
Q = chk.tier == "quick" and all(v == "ok" for v in _ties.values())
TOL = 1e-11
PI = math.pi

METHODS = ["leg_points", "orientations_of_legs_points", "inc_leg_size", "inc_leg_cartesian",
           "inc_leg_radius", "inc_leg_polar", "inc_leg_azimuth", "inc_angle", "signed_inc_angle",
           "conventional_inc_angle", "out_leg_cartesian", "out_leg_radius", "out_leg_polar",
           "out_leg_azimuth", "out_angle", "signed_out_angle", "conventional_out_angle"]
WIDTH = {0: 3, 1: 9, 3: 3, 10: 3}          # floats per ray; default 1
M_INC = dict(size=2, cart=3, radius=4, polar=5, az=6, angle=7, signed=8, conv=9, margin=17)
M_OUT = dict(cart=10, radius=11, polar=12, az=13, angle=14, signed=15, conv=16, margin=18)

evaluations = 0
nontrivial = set()
samples = []
ambiguous = 0
stats = dict(values_compared=0, sign_decisions=0, sign_boundary_exact=0)


# ---------------------------------------------------------------------------
# geometry descriptions (plain data) -> arim objects / driver lines
# ---------------------------------------------------------------------------
def rot_ypr(yaw, pitch, roll):
    """own yaw-pitch-roll rotation (not arim's)"""
    cz, sz, cy, sy, cx, sx = math.cos(yaw), math.sin(yaw), math.cos(pitch), math.sin(pitch), math.cos(roll), math.sin(roll)
    rz = np.array([[cz, -sz, 0], [sz, cz, 0], [0, 0, 1.0]])
    ry = np.array([[cy, 0, sy], [0, 1.0, 0], [-sy, 0, cy]])
    rx = np.array([[1.0, 0, 0], [0, cx, -sx], [0, sx, cx]])
    return rz @ ry @ rx


def random_frame(rng):
    """rows = local axes; arbitrary orthonormal, possibly improper (tangents flipped)"""
    B = rot_ypr(*rng.uniform(-PI, PI, 3))
    u = rng.random()
    if u < 0.2:
        B[0] *= -1
    elif u < 0.4:
        B[1] *= -1
    elif u < 0.5:
        B[0] *= -1
        B[1] *= -1
    elif u < 0.55:
        B[2] *= -1
    return B


def random_flag(rng, p_none=0.15):
    u = rng.random()
    return None if u < p_none else bool(u < p_none + (1 - p_none) / 2)


def random_geometry(rng, nif=None, maxpts=6):
    nif = int(nif or rng.integers(2, 6))
    scale = float(10 ** rng.uniform(-3, 1))
    ifs = []
    for k in range(nif):
        npts = int(rng.integers(1, maxpts + 1))
        pts = rng.uniform(-1, 1, (npts, 3)) * scale
        frames = np.stack([random_frame(rng) for _ in range(npts)])
        ifs.append(dict(points=pts, frames=frames, inc=random_flag(rng), out=random_flag(rng)))
    n, m = len(ifs[0]["points"]), len(ifs[-1]["points"])
    interior = np.stack([rng.integers(0, len(ifs[k]["points"]), (n, m)) for k in range(1, nif - 1)]) \
        if nif > 2 else np.zeros((0, n, m), int)
    vels = [float(rng.uniform(900, 7000)) for _ in range(nif - 1)]
    return dict(interfaces=ifs, interior=interior, vels=vels, family="random")


PERMS = [(0, 1, 2), (0, 2, 1), (1, 0, 2), (1, 2, 0), (2, 0, 1), (2, 1, 0)]


def signed_perm_frame(rng):
    p = PERMS[int(rng.integers(0, 6))]
    B = np.zeros((3, 3))
    for r in range(3):
        B[r, p[r]] = float(rng.choice([-1.0, 1.0]))
    return B


# Pythagorean quadruples: |(a, b, c)| is an integer
QUADS = [(1, 2, 2), (2, 3, 6), (1, 4, 8), (4, 4, 7), (2, 6, 9), (6, 6, 7), (3, 4, 12), (2, 10, 11),
         (3, 4, 0), (5, 12, 0), (0, 0, 1), (0, 0, 5), (8, 15, 0), (1, 0, 0), (0, 3, 0)]


def boundary_geometry(rng, nif=None):
    """dyadic-exact: one point per interface... plus extra points; frames are signed
    permutation matrices, consecutive points differ by local-axis / diagonal / Pythagorean
    vectors, so every product, sum and square root of the kernel is exact and phi falls
    exactly on the axes, the diagonals or in a definite quadrant."""
    nif = int(nif or rng.integers(2, 6))
    unit = 2.0 ** int(rng.integers(-8, 3))
    ifs = []
    cur = np.array([float(rng.integers(-8, 9)) for _ in range(3)]) * unit
    for k in range(nif):
        npts = int(rng.integers(1, 5))
        frames = np.stack([signed_perm_frame(rng) for _ in range(npts)])
        pts = np.zeros((npts, 3))
        for p in range(npts):
            kind = rng.integers(0, 4)
            if kind == 0:      # along one axis
                d = np.zeros(3)
                d[int(rng.integers(0, 3))] = float(rng.choice([-1, 1])) * float(rng.integers(1, 6))
            elif kind == 1:    # in a coordinate plane, on a diagonal, plus a third component
                d = np.array([float(rng.choice([-1, 1])), float(rng.choice([-1, 1])), float(rng.integers(-3, 4))])
                d = d[list(PERMS[int(rng.integers(0, 6))])] * float(rng.integers(1, 4))
            elif kind == 2:    # Pythagorean quadruple with random signs and order
                q = np.array(QUADS[int(rng.integers(0, len(QUADS)))], float)
                d = (q * rng.choice([-1.0, 1.0], 3))[list(PERMS[int(rng.integers(0, 6))])]
            else:              # small-integer generic
                d = np.array([float(rng.integers(-4, 5)) for _ in range(3)])
                if not d.any():
                    d[0] = 1.0
            pts[p] = cur + d * unit
        ifs.append(dict(points=pts, frames=frames, inc=random_flag(rng), out=random_flag(rng)))
        cur = pts[int(rng.integers(0, npts))]
    n, m = len(ifs[0]["points"]), len(ifs[-1]["points"])
    interior = np.stack([rng.integers(0, len(ifs[k]["points"]), (n, m)) for k in range(1, nif - 1)]) \
        if nif > 2 else np.zeros((0, n, m), int)
    vels = [2.0 ** int(rng.integers(8, 13)) for _ in range(nif - 1)]
    return dict(interfaces=ifs, interior=interior, vels=vels, family="boundary")


_AGAINST = arim.Material(longitudinal_vel=1480.0, density=1000.0, state_of_matter="liquid")


def build(geom):
    """real arim objects of a geometry description"""
    interfaces = []
    for f in geom["interfaces"]:
        pts = g.Points(np.array(f["points"], float).reshape(-1, 3).copy())
        ori = g.Points(np.array(f["frames"], float).reshape(-1, 3, 3).copy())
        if f.get("same_as") is not None:          # the very same Points objects as an earlier interface
            pts, ori = interfaces[f["same_as"]].points, interfaces[f["same_as"]].orientations
        # the declared role of the interface (none / transmission / reflection against a material) does not enter the
        # geometry: it is drawn at random so that role-dependent shortcuts (e.g. in Interface.reverse) are exercised
        role = f.get("role")
        if role is None:
            role = f["role"] = int(rng.integers(0, 3))
        kw = [dict(), dict(kind="fluid_solid", transmission_reflection="transmission"),
              dict(kind="solid_fluid", transmission_reflection="reflection", reflection_against=_AGAINST)][role]
        interfaces.append(arim.Interface(pts, ori, are_normals_on_inc_rays_side=f["inc"],
                                         are_normals_on_out_rays_side=f["out"], **kw))
        if rng.random() < 0.25 and (f["inc"] is not None or f["out"] is not None):
            # the declared sides computed by the caller from a NumPy comparison (np.dot(leg, normal) > 0): numpy.bool_ values.
            # The library at present refuses them (constructor assertion); a library that accepts them must honour them
            try:
                itf_ = arim.Interface(pts, ori, are_normals_on_inc_rays_side=None if f["inc"] is None else np.bool_(f["inc"]),
                                      are_normals_on_out_rays_side=None if f["out"] is None else np.bool_(f["out"]), **kw)
                itf_.reverse()
                interfaces[-1] = itf_
                chk.count(normal_side_flags="numpy.bool_ accepted by the constructor")
            except (AssertionError, TypeError, ValueError):
                chk.count(normal_side_flags="numpy.bool_ refused by the constructor")
    mats = [arim.Material(longitudinal_vel=float(v)) for v in geom["vels"]]
    path = arim.Path(tuple(interfaces), tuple(mats), tuple(["L"] * len(mats)))
    interior = np.array(geom["interior"], dtype=arim.settings.INT).reshape(
        len(interfaces) - 2, len(interfaces[0].points), len(interfaces[-1].points))
    if interior.size and rng.random() < 0.25:
        # some wall samples designated by their position counted from the END of the wall (k - numpoints): the same points
        interior = interior.copy()
        for k_ in range(interior.shape[0]):
            neg_ = rng.random(interior.shape[1:]) < 0.5
            interior[k_][neg_] -= len(interfaces[k_ + 1].points)
        chk.count(ray_index_spelling="some counted from the end")
    if geom.get("fortran"):
        interior = np.asfortranarray(interior)
    times = np.zeros(interior.shape[1:], float, order="F" if geom.get("fortran") else "C")
    path.rays = arim.ray.Rays(times, interior, path.to_fermat_path())
    return path


def describe(path, vels=None, family="from-arim"):
    """geometry description read back from real arim objects (Path with rays)"""
    ifs = []
    for itf in path.interfaces:
        ifs.append(dict(points=np.array(itf.points.coords, float).reshape(-1, 3),
                        frames=np.array(itf.orientations.coords, float).reshape(-1, 3, 3),
                        inc=itf.are_normals_on_inc_rays_side, out=itf.are_normals_on_out_rays_side))
    interior = np.array(path.rays.interior_indices)
    return dict(interfaces=ifs, interior=interior, vels=list(vels if vels is not None else path.velocities), family=family)


def flagc(f):
    return "N" if f is None else ("T" if f else "F")


def driver_line(geom, kind="G"):
    t = [kind, str(len(geom["interfaces"]))]
    for f in geom["interfaces"]:
        pts, frames = np.asarray(f["points"], float), np.asarray(f["frames"], float)
        t += [str(len(pts)), flagc(f["inc"]), flagc(f["out"])]
        for p, B in zip(pts, frames):
            t += [fhex(x) for x in p] + [fhex(x) for x in B.ravel()]
    interior = np.asarray(geom["interior"])
    d, n, m = interior.shape
    t += [str(n), str(m), str(d)] + [str(int(x)) for x in interior.ravel()]
    t += [fhex(v) for v in geom["vels"]]
    return " ".join(t)


def parse_driver(out, nif, n, m):
    """-> table[(method, idx)] = ('N'|'I'|'V'|'X'|'mixed', None) or ('val', array (n, m, w)), times (n, m)"""
    toks = out.split()
    pos = 0
    table = {}
    for k in range(19):
        w = WIDTH.get(k, 1)
        for idx in range(-nif - 1, nif + 1):
            kinds, vals = set(), np.full((n, m, w), np.nan)
            for i in range(n):
                for j in range(m):
                    t = toks[pos]
                    if t in ("N", "I", "V", "X"):
                        kinds.add(t)
                        pos += 1
                    else:
                        kinds.add("val")
                        vals[i, j] = [unhex(x) for x in toks[pos:pos + w]]
                        pos += w
            if kinds == {"val"}:
                table[(k, idx)] = ("val", vals)
            elif len(kinds) == 1:
                table[(k, idx)] = (kinds.pop(), None)
            else:
                table[(k, idx)] = ("mixed:" + "".join(sorted(kinds)), None)
    times = np.full((n, m), np.nan)
    for i in range(n):
        for j in range(m):
            t = toks[pos]
            pos += 1
            times[i, j] = np.nan if t == "X" else unhex(t)
    assert pos == len(toks), (pos, len(toks))
    return table, times


def query(rg, k, idx):
    try:
        r = getattr(rg, METHODS[k])(idx)
    except IndexError:
        return ("I", None)
    except ValueError:
        return ("V", None)
    if r is None:
        return ("N", None)
    a = np.asarray(r.coords if isinstance(r, g.Points) else r, dtype=float)
    n, m = a.shape[0], a.shape[1]
    return ("val", a.reshape(n, m, -1))


def query_all(path, rng, use_cache=None, shuffle=True):
    use_cache = bool(rng.integers(0, 2)) if use_cache is None else use_cache
    rg = arim.ray.RayGeometry.from_path(path, use_cache=use_cache)
    nif = rg.numinterfaces
    keys = [(k, idx) for k in range(17) for idx in range(-nif - 1, nif + 1)]
    if shuffle:
        keys = [keys[t] for t in rng.permutation(len(keys))]
    return {key: query(rg, *key) for key in keys}


def geom_replay(geom):
    return dict(family=geom.get("family"), vels=[float(v) for v in geom["vels"]],
                interior=np.asarray(geom["interior"]).tolist(),
                interfaces=[dict(points=np.asarray(f["points"]).tolist(), frames=np.asarray(f["frames"]).tolist(),
                                 inc=f["inc"], out=f["out"],
                                 role=["none", "transmission fluid_solid", "reflection solid_fluid against a liquid"][f.get("role") or 0])
                            for f in geom["interfaces"]])


# ---------------------------------------------------------------------------
# the spec predicates, evaluated on the implementation's outputs only
# ---------------------------------------------------------------------------
def ray_tables(geom):
    """points and frames of every ray at every interface, gathered here (not by arim):
    P[k][i, j] (3,), F[k][i, j] (3, 3)"""
    ifs = geom["interfaces"]
    interior = np.asarray(geom["interior"])
    nif = len(ifs)
    n, m = len(ifs[0]["points"]), len(ifs[-1]["points"])
    P, F = [], []
    for k in range(nif):
        pk, fk = np.zeros((n, m, 3)), np.zeros((n, m, 3, 3))
        for i in range(n):
            for j in range(m):
                p = i if k == 0 else (j if k == nif - 1 else int(interior[k - 1, i, j]))
                pk[i, j] = np.asarray(ifs[k]["points"], float)[p]
                fk[i, j] = np.asarray(ifs[k]["frames"], float)[p]
        P.append(pk)
        F.append(fk)
    return P, F


def angle_tol(theta_like_sin):
    return TOL + 4e-15 / np.maximum(theta_like_sin, 1e-12)


def spec_checks(geom, impl, exact=False):
    """returns list of (key, what, detail) failures of the documented property on `impl`"""
    fails = []
    ifs = geom["interfaces"]
    nif = len(ifs)
    P, F = ray_tables(geom)
    n, m = P[0].shape[:2]

    def val(k, idx):
        kind, a = impl[(k, idx)]
        return a if kind == "val" else None

    def fail(key, what, **detail):
        fails.append((key, what, detail))

    for a in range(nif):
        # --- gathered points and frames -------------------------------------------------
        lp, lo = val(0, a), val(1, a)
        if lp is None or not np.array_equal(lp, P[a]):
            fail("spec:leg_points", "leg_points is not the gather of the interface points by the ray indices", interface=a)
        if lo is None or not np.array_equal(lo.reshape(n, m, 3, 3), F[a]):
            fail("spec:orientations", "orientations_of_legs_points is not the gather of the frames by the ray indices", interface=a)
        for side, M, other in (("inc", M_INC, a - 1), ("out", M_OUT, a + 1)):
            has_leg = 0 <= other < nif
            flag = ifs[a][side]
            names = ["cart", "radius", "polar", "az", "angle", "signed"] + (["size"] if side == "inc" else [])
            if not has_leg:
                for nm in names + ["conv"]:
                    if impl[(M[nm], a)][0] != "N":
                        fail(f"spec:none:{side}", f"{side}_* at the {'first' if side == 'inc' else 'last'} interface is not None",
                             method=METHODS[M[nm]], interface=a, got=impl[(M[nm], a)][0])
                continue
            leg = P[other] - P[a]                                   # vector from the interface point to the other end
            dist = np.sqrt((leg ** 2).sum(-1))
            tol_len = (0.0 if exact else TOL) * np.maximum(dist, 1e-300)
            got = {nm: val(M[nm], a) for nm in names}
            if any(v is None for v in got.values()):
                fail(f"spec:kind:{side}", f"{side}_* raises / returns None where a leg exists", interface=a,
                     kinds={nm: impl[(M[nm], a)][0] for nm in names})
                continue
            if side == "inc" and not np.all(np.abs(got["size"][..., 0] - dist) <= tol_len):
                fail("spec:leg_size", "inc_leg_size is not the Euclidean distance between consecutive ray points",
                     interface=a, got=got["size"][..., 0], want=dist)
            if not np.all(np.abs(got["radius"][..., 0] - dist) <= tol_len):
                fail(f"spec:radius:{side}", f"{side}_leg_radius is not the leg length (orthonormal frame)",
                     interface=a, got=got["radius"][..., 0], want=dist)
            local = np.einsum("abrc,abc->abr", F[a], leg)           # components along the ROWS of the frame
            if not np.all(np.abs(got["cart"] - local) <= ((0.0 if exact else TOL) * np.maximum(dist, 1e-300))[..., None]):
                fail(f"spec:cartesian:{side}", f"{side}_leg_cartesian is not B.(other - here) with the local axes as ROWS of B",
                     interface=a, got=got["cart"], want=local)
            with np.errstate(all="ignore"):
                cosz = np.clip(local[..., 2] / dist, -1, 1)
                theta = np.arccos(cosz)
                rho = np.hypot(local[..., 0], local[..., 1])
                phi = np.arctan2(local[..., 1], local[..., 0])
            ok = dist > 0
            pol, az, sg = got["polar"][..., 0], got["az"][..., 0], got["signed"][..., 0]
            if not np.all((np.abs(pol - theta) <= angle_tol(np.sin(theta)))[ok]):
                fail(f"spec:polar:{side}", f"{side}_leg_polar is not arccos of the leg's cosine with the third ROW of the frame",
                     interface=a, got=pol, want=theta)
            if not np.all(((pol >= 0) & (pol <= PI))[ok]):
                fail(f"spec:polar_range:{side}", f"{side}_leg_polar outside [0, pi]", interface=a, got=pol)
            dphi = np.abs(az - phi)
            dphi = np.minimum(dphi, 2 * PI - dphi)
            okz = ok & (rho > 0)
            if not np.all((dphi <= TOL + 4e-15 * dist / np.maximum(rho, 1e-300))[okz]):
                fail(f"spec:azimuth:{side}", f"{side}_leg_azimuth is not atan2 of the components along the second and first ROWS",
                     interface=a, got=az, want=phi)
            if not np.array_equal(got["angle"][..., 0][ok], pol[ok]):
                fail(f"spec:angle:{side}", f"{side}_angle is not {side}_leg_polar", interface=a)
            # documented sign rule on the implementation's own polar and azimuth
            want_sg = np.where((-PI / 2 < az) & (az <= PI / 2), pol, -pol)
            if not np.array_equal(sg[ok], want_sg[ok]):
                t = np.argwhere(ok & (sg != want_sg))[0]
                fail(f"spec:signed_rule:{side}", f"signed_{side}_angle is not +theta iff -pi/2 < phi <= pi/2 (else -theta)",
                     interface=a, ray=t.tolist(), polar=float(pol[tuple(t)]), azimuth=float(az[tuple(t)]),
                     signed=float(sg[tuple(t)]), want=float(want_sg[tuple(t)]))
            # conventional angle
            ckind, cv = impl[(M["conv"], a)]
            if flag is None:
                if ckind != "V":
                    fail(f"spec:conv_none:{side}", f"conventional_{side}_angle does not raise ValueError when the flag is None",
                         interface=a, got=ckind)
            elif ckind != "val":
                fail(f"spec:conv_kind:{side}", f"conventional_{side}_angle does not answer although the flag is set", interface=a, got=ckind)
            else:
                want_c = pol if flag else PI - pol
                if not np.all((np.abs(cv[..., 0] - want_c) <= 4e-16 * PI)[ok]):
                    t = np.argwhere(ok & ~(np.abs(cv[..., 0] - want_c) <= 4e-16 * PI))[0]
                    fail(f"spec:conventional:{side}", f"conventional_{side}_angle is not theta (normals on the {side} side) / pi - theta (other side)",
                         interface=a, flag=flag, ray=t.tolist(), polar=float(pol[tuple(t)]), got=float(cv[..., 0][tuple(t)]))
    # --- negative indices, out-of-range indices ---------------------------------------------
    for k in range(17):
        for a in range(nif):
            ka, va = impl[(k, a)]
            kb, vb = impl[(k, a - nif)]
            if ka != kb or (ka == "val" and not np.array_equal(va, vb, equal_nan=True)):
                fail("spec:negative_index", f"{METHODS[k]}({a - nif}) differs from {METHODS[k]}({a}) with {nif} interfaces",
                     method=METHODS[k], index=a - nif, kinds=[ka, kb])
        for idx in (-nif - 1, nif):
            if impl[(k, idx)][0] != "I":
                fail("spec:out_of_range", f"{METHODS[k]}({idx}) with {nif} interfaces does not raise IndexError",
                     method=METHODS[k], index=idx, got=impl[(k, idx)][0])
    return fails


def reverse_checks(geom, impl, impl_rev):
    """inc_* at k of the path == out_* at n-1-k of path.reverse() (rays reversed: [i, j] <-> [j, i]);
    same relation as for the model: lengths within TOL of the leg, angles within the conditioning of
    arccos / arctan2, azimuth modulo 2 pi, sign of the signed angle unless phi is within 1e-9 of +-pi/2"""
    fails = []
    nif = len(geom["interfaces"])
    for a in range(nif):
        got = {}
        kinds_ok = True
        for nm in ("cart", "radius", "polar", "az", "signed", "conv", "angle"):
            k1, v1 = impl[(M_INC[nm], a)]
            k2, v2 = impl_rev[(M_OUT[nm], nif - 1 - a)]
            if k1 != k2:
                kinds_ok = False
                fails.append(("spec:inc_is_out_of_reverse",
                              f"{METHODS[M_INC[nm]]}({a}) is {k1} but {METHODS[M_OUT[nm]]}({nif - 1 - a}) of path.reverse() is {k2}",
                              dict(interface=a, kinds=[k1, k2])))
            elif k1 == "val":
                got[nm] = (v1, np.swapaxes(v2, 0, 1))
        if not kinds_ok or "cart" not in got:
            continue
        r = got["radius"][0][..., 0]
        with np.errstate(all="ignore"):
            sin_t = np.nan_to_num(np.sin(got["polar"][0][..., 0]), nan=1.0)
        atol = angle_tol(np.abs(sin_t))
        for nm, (v1, v2) in got.items():
            nan2 = np.isnan(v1) & np.isnan(v2)
            d = np.abs(v1 - v2)
            if nm in ("cart", "radius"):
                ok = (d <= (TOL * r)[..., None]) | nan2
            elif nm == "az":
                ok = (np.minimum(d, np.abs(2 * PI - d)) <= atol[..., None]) | nan2
            elif nm == "signed":
                az = got["az"][0][..., 0]
                decided = (np.minimum(np.abs(az - PI / 2), np.abs(az + PI / 2)) >= 1e-9)[..., None]
                ok = ((np.abs(np.abs(v1) - np.abs(v2)) <= atol[..., None]) & (~decided | (d <= atol[..., None]))) | nan2
            else:
                ok = (d <= atol[..., None]) | nan2
            if not np.all(ok):
                t = tuple(np.argwhere(~ok)[0][:2])
                fails.append(("spec:inc_is_out_of_reverse",
                              f"{METHODS[M_INC[nm]]}({a}) differs from {METHODS[M_OUT[nm]]}({nif - 1 - a}) of path.reverse()",
                              dict(interface=a, ray=list(t), inc=v1[t], out_of_reverse=v2[t])))
    return fails


# ---------------------------------------------------------------------------
# implementation vs model
# ---------------------------------------------------------------------------
def model_compare(geom, impl, model, exact=False, tag=""):
    """-> list of (key, what, detail) correspondence failures"""
    global ambiguous
    fails = []
    nif = len(geom["interfaces"])
    for k in range(17):
        for idx in range(-nif - 1, nif + 1):
            ik, iv = impl[(k, idx)]
            mk, mv = model[(k, idx)]
            if ik != mk:
                fails.append((f"model:kind:{METHODS[k]}", f"{tag}{METHODS[k]}({idx}): implementation {ik}, model {mk}",
                              dict(method=METHODS[k], index=idx, impl=ik, model=mk)))
                continue
            if ik != "val":
                continue
            if iv.shape != mv.shape:
                fails.append((f"model:shape:{METHODS[k]}", f"{tag}{METHODS[k]}({idx}): shape {iv.shape} vs model {mv.shape}",
                              dict(method=METHODS[k], index=idx)))
                continue
            stats["values_compared"] += iv.size
            both_nan = np.isnan(iv) & np.isnan(mv)
            if k in (0, 1):
                ok = (iv == mv) | both_nan
            else:
                side_inc = k <= 9
                a = idx % nif
                M = M_INC if side_inc else M_OUT
                # scale and conditioning from the MODEL's cartesian / radius
                cart = model[(M["cart"], idx)][1]
                r = model[(M["radius"], idx)][1][..., 0]
                rho = np.hypot(cart[..., 0], cart[..., 1])
                with np.errstate(all="ignore"):
                    sin_t = np.nan_to_num(rho / r, nan=1.0)    # zero-length leg: 0/0 on both sides
                if k in (2, 3, 4, 10, 11):
                    tol = ((0.0 if exact else TOL) * r)[..., None]
                    ok = (np.abs(iv - mv) <= tol) | both_nan
                elif k in (5, 7, 9, 12, 14, 16):
                    ok = (np.abs(iv - mv) <= angle_tol(sin_t)[..., None]) | both_nan
                elif k in (6, 13):
                    d = np.abs(iv - mv)
                    d = np.minimum(d, np.abs(2 * PI - d))          # the seam phi = +-pi (mod 2 pi)
                    ok = (d <= (TOL + 4e-15 / np.maximum(sin_t, 1e-12))[..., None]) | both_nan
                else:                                              # signed angles: class D
                    margin = model[(M["margin"], idx)][1]
                    pol_tol = angle_tol(sin_t)[..., None]
                    magnitude_ok = (np.abs(np.abs(iv) - np.abs(mv)) <= pol_tol) | both_nan
                    if exact:
                        decided = np.ones_like(magnitude_ok)
                        stats["sign_boundary_exact"] += int(np.sum(margin == 0))
                    else:
                        decided = margin >= 1e-9
                        ambiguous += int(np.sum(~decided))
                    stats["sign_decisions"] += int(np.sum(decided))
                    ok = magnitude_ok & (~decided | (np.abs(iv - mv) <= pol_tol) | both_nan)
            if not np.all(ok):
                t = tuple(np.argwhere(~ok)[0])
                fails.append((f"model:{METHODS[k]}", f"{tag}{METHODS[k]}({idx}) differs from the model at ray {t[:2]}",
                              dict(method=METHODS[k], index=idx, ray=list(t[:2]), impl=iv[t[0], t[1]], model=mv[t[0], t[1]],
                                   correspondence=f"Model.RayGeom.{METHODS[k]} (extracted)")))
    return fails


def report(geom, spec_fails, model_fails, extra=None):
    """spec failure => failing input found; model-only failure => no failing input"""
    seen = set()
    for key, what, detail in spec_fails:
        if key in seen:
            continue
        seen.add(key)
        chk.violation(key, what, dict(geometry=geom_replay(geom), detail=detail, **(extra or {})), failing_input_found=True)
    for key, what, detail in model_fails:
        if key in seen:
            continue
        seen.add(key)
        chk.violation(key, what, dict(geometry=geom_replay(geom), detail=detail,
                                      theorem_or_correspondence=detail.get("correspondence", "Model.RayGeom (extracted) vs arim.ray.RayGeometry"),
                                      **(extra or {})), failing_input_found=bool(spec_fails))


def run_batch(geoms, with_reverse=True):
    """implementation, model, spec predicates for a list of geometry descriptions"""
    global evaluations
    lines = []
    for gm in geoms:
        lines.append(driver_line(gm, "G"))
        if with_reverse:
            lines.append(driver_line(gm, "R"))
    outs = drv.run(lines, timeout=3000)
    per = 2 if with_reverse else 1
    for t, gm in enumerate(geoms):
        exact = gm.get("family") == "boundary"
        nif = len(gm["interfaces"])
        n, m = len(gm["interfaces"][0]["points"]), len(gm["interfaces"][-1]["points"])
        path = gm.get("_path") or build(gm)
        if nif >= 3 and rng.random() < 0.3:
            # HISTORY on the Path object: other rays over the same points (an earlier, different ray tracing) are
            # attached and looked at through from_path first; then the rays under test are attached
            final_rays = path.rays
            other = np.array(final_rays.interior_indices, copy=True)
            for k_ in range(other.shape[0]):
                other[k_] = rng.integers(0, len(gm["interfaces"][k_ + 1]["points"]), size=other.shape[1:])
            path.rays = arim.ray.Rays(np.array(final_rays.times, copy=True), other, final_rays.fermat_path)
            g0_ = arim.ray.RayGeometry.from_path(path)
            for k_ in range(1, nif):
                g0_.inc_leg_size(k_)
            g0_.leg_points(1)
            path.rays = final_rays
            chk.count(rays_replaced_on_the_same_path=True)
        impl = query_all(path, rng)
        # the velocities carried by the rays (used by the model code) are those of the path's legs, in leg order
        for tag_, p_, want_v in (("", path, list(gm["vels"])),) + ((("path.reverse(): ", path.reverse(), list(reversed(gm["vels"]))),) if with_reverse else ()):
            got_v = [float(v) for v in p_.rays.fermat_path.velocities]
            if got_v != [float(v) for v in want_v] or [float(v) for v in p_.to_fermat_path().velocities] != got_v:
                chk.violation("spec:ray_velocities", tag_ + "the velocities held by the rays (rays.fermat_path.velocities) are not the "
                              "velocities of the path's legs in leg order",
                              dict(geometry=geom_replay(gm), rays_velocities=got_v, leg_velocities=[float(v) for v in want_v]))
        model, mtimes = parse_driver(outs[per * t], nif, n, m)
        sf = spec_checks(gm, impl, exact=exact)
        mf = model_compare(gm, impl, model, exact=exact)
        # travel time: model's left-nested sum vs the implementation's own leg sizes
        legs = [impl[(2, a)] for a in range(1, nif)]
        if all(k == "val" for k, _ in legs):
            acc = legs[0][1][..., 0] / gm["vels"][0]
            for (kk, l), v in zip(legs[1:], gm["vels"][1:]):
                acc = acc + l[..., 0] / v
            if not np.all((np.abs(acc - mtimes) <= TOL * np.abs(mtimes)) | (np.isnan(acc) & np.isnan(mtimes))):
                mf.append(("model:legs_time", "sum of inc_leg_size/velocity differs from the model's legs_time",
                           dict(impl=acc, model=mtimes, correspondence="Model.RayGeom.legs_time (extracted)")))
            gm["_legs_time"] = acc
        evaluations += 17 * (2 * nif + 2) * n * m
        if with_reverse:
            rpath = path.reverse()
            impl_rev = query_all(rpath, rng)
            model_rev, _ = parse_driver(outs[per * t + 1], nif, m, n)
            sf += reverse_checks(gm, impl, impl_rev)
            # the reversed path must itself satisfy the documented conventions
            rgeom = describe(rpath, vels=list(reversed(gm["vels"])), family=gm.get("family"))
            want_flags = [(f["out"], f["inc"]) for f in reversed(gm["interfaces"])]
            got_flags = [(f["inc"], f["out"]) for f in rgeom["interfaces"]]
            if want_flags != got_flags:
                sf.append(("spec:reverse_flags", "Path.reverse does not swap the normal-side flags / reverse the interfaces",
                           dict(want=want_flags, got=got_flags)))
            want_int = np.swapaxes(np.asarray(gm["interior"]), 1, 2)[::-1]
            # (an index may be spelled k or k - numpoints: compared as the points they designate)
            npts_rev = np.array([len(f["points"]) for f in rgeom["interfaces"]][1:-1]).reshape(-1, 1, 1)
            got_int = np.asarray(rgeom["interior"])
            if got_int.shape != want_int.shape or (got_int.size and not np.array_equal(np.mod(got_int, npts_rev), np.mod(want_int, npts_rev))):
                sf.append(("spec:reverse_rays", "Rays.reverse: indices[k, i, j] of the path is not indices[d-1-k, j, i] of the reversed rays",
                           dict(want=want_int, got=np.asarray(rgeom["interior"]))))
            else:
                sf += [(k + ":reversed", "on path.reverse(): " + w, d) for k, w, d in spec_checks(rgeom, impl_rev, exact=exact)]
            mf += model_compare(rgeom, impl_rev, model_rev, exact=exact, tag="path.reverse(): ")
            evaluations += 17 * (2 * nif + 2) * n * m
        report(gm, sf, mf)
        chk.count(family=gm.get("family"), interfaces=nif, rays=n * m)
        for f in gm["interfaces"]:
            chk.count(inc_flag=f["inc"], out_flag=f["out"])
        nontrivial.add((gm.get("family"), nif, n, m, hash(np.asarray(gm["interior"]).tobytes()),
                        hash(np.asarray(gm["interfaces"][0]["points"]).tobytes())))


# ---------------------------------------------------------------------------
# 0. corpus (past failures / witnesses), replayed first
# ---------------------------------------------------------------------------
corpus = []
for fn in sorted(glob.glob(os.path.join(VERIF, "corpus", "C05", "*.json"))):
    c = json.load(open(fn))
    gm = dict(interfaces=[dict(points=np.array(f["points"], float), frames=np.array(f["frames"], float),
                               inc=f["inc"], out=f["out"]) for f in c["interfaces"]],
              interior=np.array(c["interior"], int).reshape(len(c["interfaces"]) - 2, len(c["interfaces"][0]["points"]),
                                                            len(c["interfaces"][-1]["points"])),
              vels=c["vels"], family="corpus:" + os.path.basename(fn))
    corpus.append((gm, c))
run_batch([gm for gm, _ in corpus])
for gm, c in corpus:
    # optional expected values recorded with the corpus entry
    for e in c.get("expect", []):
        path = build(gm)
        rg = arim.ray.RayGeometry.from_path(path)
        got = np.asarray(getattr(rg, e["method"])(e["index"]))[tuple(e["ray"])]
        evaluations += 1
        if not close(got, e["value"], 1e-12):
            chk.violation("corpus:" + gm["family"], f"{e['method']}({e['index']}) = {got}, documented value {e['value']} ({c.get('what', '')})",
                          dict(geometry=geom_replay(gm), expect=e, got=float(got)))
samples.append({"corpus": [gm["family"] for gm, _ in corpus]})

# ---------------------------------------------------------------------------
# 1. random 3-D geometries, arbitrary orthonormal frames
# ---------------------------------------------------------------------------
NRANDOM = 500 if Q else 8000
batch = []
for t in range(NRANDOM):
    gm = random_geometry(rng)
    if rng.random() < 0.15:
        gm["fortran"] = True
    if t % 10 == 7 and len(gm["interfaces"]) in (3, 5):      # (odd: two consecutive interfaces are never the same set)
        # a mirror-image (pulse-echo like) path: interface k and interface nif-1-k are the SAME point set (the same Points
        # object in arim) with the same frames, the velocities read the same both ways; the rays are arbitrary index tables
        ifs_ = gm["interfaces"]
        nif_ = len(ifs_)
        for k_ in range(nif_ // 2):
            ifs_[nif_ - 1 - k_] = dict(ifs_[k_], inc=ifs_[nif_ - 1 - k_]["inc"], out=ifs_[nif_ - 1 - k_]["out"], same_as=k_)
        gm["vels"] = [gm["vels"][min(k_, nif_ - 2 - k_)] for k_ in range(nif_ - 1)]
        n_, m_ = len(ifs_[0]["points"]), len(ifs_[-1]["points"])
        gm["interior"] = np.stack([rng.integers(0, len(ifs_[k_]["points"]), (n_, m_)) for k_ in range(1, nif_ - 1)]) \
            if nif_ > 2 else np.zeros((0, n_, m_), int)
        gm["family"] = "mirror-image"
    batch.append(gm)
    if len(batch) == 200:
        run_batch(batch)
        batch = []
if batch:
    run_batch(batch)
samples.append({"random": "2..5 interfaces, 1..6 points each, positions uniform in a cube of side 2*10^U(-3,1), frames from "
                          "yaw-pitch-roll with tangent/normal flips, flags True/False/None, C- and F-ordered index arrays"})

# ---------------------------------------------------------------------------
# 2. dyadic boundary family: phi exactly on the axes / diagonals, exact arithmetic
# ---------------------------------------------------------------------------
NBOUND = 250 if Q else 3000
batch = [boundary_geometry(rng) for _ in range(NBOUND)]
for s in range(0, len(batch), 200):
    run_batch(batch[s:s + 200])
samples.append({"boundary": "signed-permutation frames, dyadic points, legs along local axes, diagonals and Pythagorean "
                            "quadruples: sizes/cartesian/radius compared bit for bit, sign decided exactly on phi = 0, +-pi/2, pi"})

# ---------------------------------------------------------------------------
# 2b. legs nearly along the local axes: theta close to 0, pi/2, pi; phi close to 0, +-pi/2, pi
# ---------------------------------------------------------------------------
def near_axis_geometry(rng):
    nif = int(rng.integers(2, 5))
    scale = float(10 ** rng.uniform(-3, 0))
    ifs = [dict(points=rng.uniform(-1, 1, (1, 3)) * scale, frames=random_frame(rng)[None], inc=random_flag(rng, 0.05),
                out=random_flag(rng, 0.05))]
    for k in range(1, nif):
        npts = int(rng.integers(1, 4))
        frames = np.stack([random_frame(rng) for _ in range(npts)])
        prev = ifs[-1]["points"][0]
        pts = np.zeros((npts, 3))
        for p in range(npts):
            # direction (towards the previous point) in the local frame of this point
            ax = int(rng.integers(0, 3))
            d = np.zeros(3)
            d[ax] = float(rng.choice([-1.0, 1.0]))
            eps = float(10 ** rng.uniform(-10, -2))
            if rng.random() < 0.5:
                # in the plane x = 0 plus a tiny x: phi close to +-pi/2
                d = np.array([eps * float(rng.choice([-1.0, 1.0])), float(rng.choice([-1.0, 1.0])), float(rng.uniform(-1, 1))])
            else:
                d = d + eps * rng.uniform(-1, 1, 3)
            length = scale * float(rng.uniform(0.1, 2.0))
            leg_gcs = frames[p].T @ (d / np.linalg.norm(d) * length)      # local -> global (rows = axes)
            pts[p] = prev - leg_gcs
        ifs.append(dict(points=pts, frames=frames, inc=random_flag(rng, 0.05), out=random_flag(rng, 0.05)))
    n, m = 1, len(ifs[-1]["points"])
    interior = np.stack([rng.integers(0, len(ifs[k]["points"]), (n, m)) * int(rng.random() < 0.3) for k in range(1, nif - 1)]) \
        if nif > 2 else np.zeros((0, n, m), int)
    return dict(interfaces=ifs, interior=interior, vels=[float(rng.uniform(900, 7000)) for _ in range(nif - 1)], family="near-axis")


NNEAR = 250 if Q else 3000
batch = [near_axis_geometry(rng) for _ in range(NNEAR)]
for s in range(0, len(batch), 200):
    run_batch(batch[s:s + 200])
samples.append({"near-axis": "incoming legs within 1e-10..1e-2 of a local axis / of the plane x = 0 (theta near 0, pi/2, pi; phi near 0, +-pi/2, pi)"})

# ---------------------------------------------------------------------------
# 3. Snell-exact tilted geometries with analytic angles (also rigidly rotated in 3-D)
# ---------------------------------------------------------------------------
NSNELL = 120 if Q else 1500
snell_done = 0
attempts = 0
batch, expect = [], []
while snell_done < NSNELL and attempts < 40 * NSNELL:
    attempts += 1
    sg = snellexact.random_geometry(rng, nlegs=int(rng.integers(2, 5)))
    if sg is None:
        continue
    path = snellexact.arim_path(sg, arim)
    gm = describe(path, vels=sg["vels"], family="snell")
    if rng.random() < 0.6:
        # rotate the whole scene rigidly: p -> Q p, frame rows -> rows . Q^T; angles and lengths are invariant
        Qm = rot_ypr(*rng.uniform(-PI, PI, 3))
        shift = rng.uniform(-0.05, 0.05, 3)
        for f in gm["interfaces"]:
            f["points"] = f["points"] @ Qm.T + shift
            fr = f["frames"] @ Qm.T
            if rng.random() < 0.5:
                # spin the tangents about the normal and/or flip one: polar angles do not change
                a = rng.uniform(-PI, PI)
                S = np.array([[math.cos(a), math.sin(a), 0], [-math.sin(a), math.cos(a), 0], [0, 0, 1.0]])
                if rng.random() < 0.5:
                    S[0] *= -1
                fr = np.einsum("rs,psc->prc", S, fr)
            f["frames"] = fr
        gm["family"] = "snell-rotated"
    batch.append(gm)
    expect.append(sg)
    snell_done += 1
run_batch(batch)
for gm, sg in zip(batch, expect):
    path = build(gm)
    rg = arim.ray.RayGeometry.from_path(path)
    nl = sg["nlegs"]
    for a in range(1, nl):
        ci = float(np.asarray(rg.conventional_inc_angle(a))[0, 0])
        co = float(np.asarray(rg.conventional_out_angle(a))[0, 0])
        evaluations += 2
        if not (abs(ci - sg["inc"][a - 1]) <= 1e-9 and abs(co - sg["out"][a - 1]) <= 1e-9):
            chk.violation("snell:angles", "conventional incidence/refraction angle differs from the analytic angle between the leg and the wall normal",
                          dict(geometry=geom_replay(gm), interface=a, conventional_inc=ci, conventional_out=co,
                               analytic_inc=sg["inc"][a - 1], analytic_out=sg["out"][a - 1]))
            break
        # Snell's law holds for these rays: sin(out)/v_out == sin(inc)/v_in
        if abs(math.sin(co) / sg["vels"][a] - math.sin(ci) / sg["vels"][a - 1]) > 1e-9 / min(sg["vels"]):
            chk.violation("snell:law", "angles reported for a Snell-exact ray do not satisfy Snell's law",
                          dict(geometry=geom_replay(gm), interface=a, conventional_inc=ci, conventional_out=co, vels=sg["vels"]))
            break
    for a in range(1, nl + 1):
        ls = float(np.asarray(rg.inc_leg_size(a))[0, 0])
        if not close(ls, sg["legs"][a - 1], 1e-9):
            chk.violation("snell:legs", "inc_leg_size differs from the analytic leg length",
                          dict(geometry=geom_replay(gm), interface=a, got=ls, want=sg["legs"][a - 1]))
            break
samples.append({"snell": f"{snell_done} analytic single-ray geometries with tilted walls (60% rigidly rotated in 3-D, tangents spun/flipped)"})

# ---------------------------------------------------------------------------
# 4. rays traced by arim: sum of leg / velocity == rays.times
# ---------------------------------------------------------------------------
NIMM = 8 if Q else 50
nt = 0
for s_i in range(NIMM):
    # (some scenes are described far from the origin of the GCS: site coordinates, tens to hundreds of metres)
    far_ = None if s_i % 3 != 1 else rng.uniform(-900.0, 900.0, 3) * float(rng.choice([0.02, 0.2, 1.0]))
    chk.count(immersion_scene="at the origin" if far_ is None else "translated by tens to hundreds of metres")
    scat_y_ = 0.0 if s_i % 4 != 2 else float(rng.uniform(2e-3, 9e-3)) * float(rng.choice([-1, 1]))
    chk.count(immersion_targets="in the plane of the array" if scat_y_ == 0.0 else "in another slice y = const")
    setup = arimgen.immersion_setup(rng, max_refl=int(rng.integers(0, 3)), wall_points=int(rng.integers(30, 120)), offset=far_, scat_y=scat_y_)
    batch, refs = [], []
    for name, path in setup["paths"].items():
        if rng.random() > (0.5 if Q else 0.35):
            continue
        gm = describe(path, family="immersion")
        gm["_path"] = path
        batch.append(gm)
        refs.append((name, path))
    run_batch(batch, with_reverse=True)
    for gm, (name, path) in zip(batch, refs):
        times = np.asarray(path.rays.times)
        acc = gm.get("_legs_time")
        nt += times.size
        if acc is None or not np.all(np.abs(acc - times) <= 1e-11 * np.abs(times)):
            chk.violation("spec:legs_sum_to_time", f"sum of inc_leg_size(k)/velocity differs from rays.times on path {name}",
                          dict(path=name, velocities=list(path.velocities), sum_of_legs=acc, times=times,
                               geometry=geom_replay(gm) if times.size <= 12 else "immersion set-up (too large to inline); seed and tier replay it"))
samples.append({"immersion": f"{NIMM} set-ups, {nt} traced rays: sum leg/velocity == rays.times"})

# 4b. LARGE first/last point sets (more points than a 16-bit index can address): the rays traced by arim
#     (default solver options) are read back through RayGeometry and compared with the definition
#     evaluated directly with numpy on the interface coordinates and on Rays.indices promoted to int64.
def large_set_case(numscat, c_order):
    setup = arimgen.immersion_setup(rng, numelements=2, numscat=numscat, max_refl=1, wall_points=40, trace=False)
    arim.ray.ray_tracing_for_paths(list(setup["paths"].values()), convert_to_fortran_order=not c_order)
    name = str(rng.choice(sorted(setup["paths"])))
    path = setup["paths"][name]
    rg = arim.ray.RayGeometry.from_path(path)
    idx = [np.asarray(a).astype(np.int64) for a in path.rays.indices]
    nif = len(path.interfaces)
    why = None
    for k in range(nif):
        npts = len(path.interfaces[k].points)
        if idx[k].min() < 0 or idx[k].max() >= npts:
            why = f"Rays.indices[{k}] outside 0..{npts - 1}: min {int(idx[k].min())} max {int(idx[k].max())}"
            break
    if why is None and not np.array_equal(idx[-1], np.broadcast_to(np.arange(numscat), idx[-1].shape)):
        why = "Rays.indices[-1][i, j] != j"
    tot = 0.0
    if why is None:
        pts = [np.asarray(path.interfaces[k].points.coords)[idx[k]] for k in range(nif)]
        for k in range(1, nif):
            want = np.linalg.norm(pts[k] - pts[k - 1], axis=-1)
            got = np.asarray(rg.inc_leg_size(k))
            if not np.allclose(got, want, rtol=1e-12, atol=0):
                bad = np.argwhere(~np.isclose(got, want, rtol=1e-12, atol=0))[0]
                why = (f"inc_leg_size({k}) of ray {tuple(int(b) for b in bad)} is {got[tuple(bad)]!r}, the distance between "
                       f"the ray's consecutive points is {want[tuple(bad)]!r}")
                break
            if not np.array_equal(np.asarray(rg.leg_points(k).coords), pts[k]):
                why = f"leg_points({k}) differs from interface coordinates taken at Rays.indices"
                break
            tot = tot + want / float(path.velocities[k - 1])
    if why is None and not np.allclose(tot, np.asarray(path.rays.times), rtol=1e-11, atol=0):
        why = "sum of leg lengths / velocities differs from rays.times"
    return name, why, idx[-1].size


# 4c. several Path objects that describe the SAME path (same interfaces, materials, modes: a copy kept by another view,
#     the same path built twice) traced in ONE call together with their mode-converted siblings: every Path object ends
#     with the rays of ITS OWN velocities (rays.fermat_path, sum leg/velocity == times)
import copy as _copy
for t in range(3 if Q else 20):
    setup = arimgen.immersion_setup(rng, max_refl=int(rng.integers(0, 2)), wall_points=int(rng.integers(30, 90)), trace=False)
    base = list(setup["paths"].items())
    lst = []
    for name, pth in base:
        lst.append((name, pth))
        if rng.random() < 0.5:
            twin = _copy.copy(pth) if rng.random() < 0.5 else arim.Path(pth.interfaces, pth.materials, pth.modes, name=pth.name + " (again)")
            twin.rays = None
            lst.append((name + "#twin", twin))
    order = rng.permutation(len(lst))
    lst = [lst[i] for i in order]
    if not any(n.endswith("#twin") for n, _ in lst):
        continue
    arim.ray.ray_tracing_for_paths([pth for _, pth in lst])
    evaluations += len(lst)
    stats["twin_paths"] = stats.get("twin_paths", 0) + len(lst)
    for name, pth in lst:
        why = None
        if pth.rays is None:
            why = "Path.rays is None after ray_tracing_for_paths"
        elif pth.rays.fermat_path != pth.to_fermat_path():
            why = "Path.rays.fermat_path is not the path's own to_fermat_path() (rays of another path)"
        else:
            rg = arim.ray.RayGeometry.from_path(pth)
            tot = 0.0
            for k in range(1, len(pth.interfaces)):
                tot = tot + np.asarray(rg.inc_leg_size(k)) / float(pth.velocities[k - 1])
            if not np.allclose(tot, np.asarray(pth.rays.times), rtol=1e-11, atol=0):
                why = "sum of inc_leg_size(k)/velocity differs from rays.times"
        if why:
            chk.violation("spec:twin_paths", f"path {name} traced in one call with an equal Path object: {why}",
                          dict(path=name, call_order=[n for n, _ in lst], velocities=[float(v) for v in pth.velocities],
                               how="arimgen.immersion_setup(trace=False); equal Path objects (copy.copy / built again) appended; "
                                   "one arim.ray.ray_tracing_for_paths call; seed and tier replay it"))
            break
samples.append({"twin paths": f"{stats.get('twin_paths', 0)} Path objects traced in calls that contain equal Path objects"})

NLARGE = 1 if Q else 4
nl = 0
for t in range(NLARGE):
    numscat = int(rng.integers(33000, 40000)) if t % 2 == 0 else int(rng.integers(66000, 70000))
    c_order = bool(t % 4 < 2)
    name, why, nr = large_set_case(numscat, c_order)
    nl += nr
    stats["large_set_rays"] = stats.get("large_set_rays", 0) + nr
    if why:
        chk.violation("spec:large_point_set", f"path {name}, last point set of {numscat} points: {why}",
                      dict(path=name, numscat=numscat, c_order=c_order, numelements=2, wall_points=40,
                           how="arimgen.immersion_setup(rng, numelements=2, numscat=numscat, max_refl=1, wall_points=40) "
                               "then arim.ray.ray_tracing_for_paths; seed and tier replay it"))
evaluations += nl
samples.append({"large sets": f"{NLARGE} set-ups with 33000..70000 target points, {nl} rays: indices in range, legs, points, times"})

# ---------------------------------------------------------------------------
# 5. the extracted driver against the same terms evaluated by vm_compute inside coqc (binary64
#    primitive floats; libm-free observables bit for bit, outcome kinds of the others)
# ---------------------------------------------------------------------------
COQ_IMPORTS = """From Coq Require Import ZArith List Bool PrimFloat.
From Arim Require Import Base.Num Base.NumF Base.ListX Model.Vec3 Model.RayGeom.
Import ListNotations.
Definition feq (a b : float) : bool := PrimFloat.eqb a b || (negb (PrimFloat.eqb a a) && negb (PrimFloat.eqb b b)).
Definition enc {A} (conv : A -> list float) (r : res A) : Z * list float :=
  match r with Val a => (0%Z, conv a) | NoLeg => (1%Z, []) | IndexErr => (2%Z, []) | ValueErr => (3%Z, []) end.
Definition c1 (x : float) : list float := [x].
Definition c3 (v : vec3 float) : list float := [vx v; vy v; vz v].
Definition c0 (x : float) : list float := [].
Definition same (a b : Z * list float) : bool := Z.eqb (fst a) (fst b) && list_eqb feq (snd a) (snd b).
Definition v3_of (l : list float) : vec3 float := (nth 0 l zero, nth 1 l zero, nth 2 l zero).
Definition mk_iface (x : list (list float) * option bool * option bool) : iface (T:=float) :=
  let '(rows, fi, fo) := x in
  mkIface (map (fun r => v3_of r) rows)
          (map (fun r => (v3_of (skipn 3 r), v3_of (skipn 6 r), v3_of (skipn 9 r))) rows) fi fo.
Definition natl (l : list Z) : list nat := map Z.to_nat l.
(* case: interfaces, (n, m), interior index arrays, (i, j), first index, expected answers per index *)
Definition check_case (c : list (list (list float) * option bool * option bool) * (Z * Z) * list (list (list Z))
                           * (Z * Z) * Z * list (list (Z * list float))) : bool :=
  let '(ifl, nm, interior, ij, idx0, expected) := c in
  let ifs := map mk_iface ifl in
  match ray_column (make_indices (Z.to_nat (fst nm)) (Z.to_nat (snd nm)) (map (map natl) interior))
                   (Z.to_nat (fst ij)) (Z.to_nat (snd ij)) with
  | None => false
  | Some ray =>
      let answers (idx : Z) : list (Z * list float) :=
        [ enc c3 (leg_points ifs ray idx); enc c1 (inc_leg_size NumF ifs ray idx);
          enc c3 (inc_leg_cartesian NumF ifs ray idx); enc c1 (inc_leg_radius NumF ifs ray idx);
          enc c3 (out_leg_cartesian NumF ifs ray idx); enc c1 (out_leg_radius NumF ifs ray idx);
          enc c0 (inc_leg_polar NumF ifs ray idx); enc c0 (signed_inc_angle NumF ifs ray idx);
          enc c0 (conventional_inc_angle NumF ifs ray idx); enc c0 (out_leg_azimuth NumF ifs ray idx);
          enc c0 (signed_out_angle NumF ifs ray idx); enc c0 (conventional_out_angle NumF ifs ray idx) ] in
      list_eqb (list_eqb same) (map (fun k => answers (idx0 + Z.of_nat k)%Z) (seq 0 (length expected))) expected
  end.
"""
from common import cZ, cfloat, clist, cbool, copt
VM_METHODS = [(0, True), (2, True), (3, True), (4, True), (10, True), (11, True),
              (5, False), (8, False), (9, False), (13, False), (15, False), (16, False)]
KCODE = {"val": 0, "N": 1, "I": 2, "V": 3}
vm_geoms = [boundary_geometry(rng, nif=int(rng.integers(2, 5))) for _ in range(20 if Q else 60)] + \
           [random_geometry(rng, nif=int(rng.integers(2, 5)), maxpts=3) for _ in range(20 if Q else 60)]
vm_outs = drv.run([driver_line(gm) for gm in vm_geoms])
lits = []
for gm, out in zip(vm_geoms, vm_outs):
    nif = len(gm["interfaces"])
    n, m = len(gm["interfaces"][0]["points"]), len(gm["interfaces"][-1]["points"])
    table, _ = parse_driver(out, nif, n, m)
    i, j = int(rng.integers(0, n)), int(rng.integers(0, m))
    exp = []
    for idx in range(-nif - 1, nif + 1):
        row = []
        for k, with_values in VM_METHODS:
            kind, v = table[(k, idx)]
            vals = list(v[i, j]) if (kind == "val" and with_values) else []
            row.append(f"({cZ(KCODE[kind])}, {clist(vals, cfloat)})")
        exp.append(clist(row))
    ifl = clist([f"({clist([clist(list(p) + list(np.asarray(B).ravel()), cfloat) for p, B in zip(f['points'], f['frames'])])}, "
                 f"{copt(f['inc'], cbool)}, {copt(f['out'], cbool)})" for f in gm["interfaces"]])
    interior_l = clist([clist([clist(list(r), cZ) for r in lay]) for lay in np.asarray(gm["interior"])])
    lits.append(f"({ifl}, ({cZ(n)}, {cZ(m)}), {interior_l}, ({cZ(i)}, {cZ(j)}), {cZ(-nif - 1)}, {clist(exp)})")
bad_vm = chk.coq_failing("rg_vm", COQ_IMPORTS, "list (list (list float) * option bool * option bool) * (Z * Z) * list (list (list Z)) * (Z * Z) * Z * list (list (Z * list float))",
                         lits, "check_case", shard=10, jobs=8)
evaluations += len(lits) * 12
for b in bad_vm[:3]:
    chk.violation("extraction-vs-vm_compute", "the extracted OCaml driver and vm_compute (binary64 primitive floats) disagree on the ray-geometry model",
                  dict(geometry=geom_replay(vm_geoms[b]), correspondence="extracted Model.RayGeom (OCaml) vs the same terms under vm_compute on NumF",
                       theorem_or_correspondence="Extract/C05.v + ocaml/C05/driver.ml"), failing_input_found=False)
samples.append({"vm_compute": f"{len(lits)} (geometry, ray) cases: leg_points / sizes / cartesian legs / radii bit for bit, outcome kinds of the angle methods, for every index -n-1..n"})

chk.cov["ambiguous_sign_cases_excluded"] = ambiguous
chk.cov.update(stats)
# ---- the glue model of the public functions (Model files added later, see manifest text) tied to the library on every run:
#      inputs generated here, the library run on them, the model evaluated on the same inputs by vm_compute inside coqc
import ties.tie_C05 as _tie_glue  # noqa: E402
_tie_n = _tie_glue.run(chk, arim, rng, Q)
chk.cov["glue_model_tie_comparisons"] = int(_tie_n or 0)

chk.finish(
    evaluations=evaluations,
    distinct_nontrivial=len(nontrivial),
    rule=("one evaluation = one (method, interface index, ray) answer compared with the model; distinct = distinct "
          "(family, #interfaces, ray-table shape, index arrays, first point set) geometries; each is queried through all 17 methods "
          "for every index -n-1..n, directly and on path.reverse()"),
    samples=samples,
    extra={"tolerance": TOL, "exhaustive": False},
    assumptions=["orthonormal frames (the documented requirement on Interface.orientations)",
                 "ray point indices are non-negative (as produced by the solver)",
                 "theorems are exact-arithmetic (NumR); float executions sampled within the stated tolerances"],
)
