"""C10 — Scattering matrices faithfully represent, interpolate and rotate the functions.

Proof side : Props/C10.v (layout [j,i]; interpolation = entries at nodes, bilinear in
             between with wrap, 2P-periodic, seam; rotation by whole steps = index shift,
             also through the 2-D Fourier route; linear frequency interpolation).
Tie        : extracted model (OCaml floats, P = pi) vs arim.scat.interpolate_matrix on real
             and complex matrices (n = 2..33) for angles over +-3 periods, on nodes, on the
             seam, node +- ulp (values are continuous across nodes, so no decision margin is
             needed: tolerance 1e-11 of max|M|); make_angles vs model angles; model of
             shifted matrix vs rotate_matrix; lerp vs ScatFromData frequency interpolation.
Spec on impl: nodes reproduce entries, periodicity, seam, rotate = roll of both indices,
             layout of as_single/multi_freq_matrices, data reproduced at sampled
             frequencies and linear in between, MAT-file round trip for every key subset.
"""
import itertools
import os
import warnings

import numpy as np

from common import Check, close
import arimgen
from arimgen import fhex, unhex

chk = Check("C10", design_ref="DESIGN.md §5 C10")
chk.proofs(extra_trusted=[
    "extraction: ExtrOcamlBasic only (Extract/C10.v); ocaml/common/numf.ml and ocaml/C10/driver.ml hand-written, trusted",
    "oracles: numpy.fft.fft2/ifft2 (finite Fourier sums of Model/Dft.v), scipy.interpolate.interp1d (lerp on the bracketing pair), scipy.io MAT files",
    "Python float // and % are modelled by their exact-arithmetic meaning (floor(x/d), x - d*floor(x/d)); the interpolant is continuous so the difference is inside the tolerance",
])
arim = chk.import_arim()
import arim.scat as scat
import arim.io

drv = arimgen.Driver(chk.ocaml_driver("C10"))
rng = chk.rng
# second tie: the interpolation kernel is re-translated from the current source (typed translator) and checked
# convertible with Model.ScatMatrix.interp; a broken tie deepens the correspondence run (thorough sizes)
_ties = chk.translation_tie()
Q = chk.tier == "quick" and all(v == "ok" for v in _ties.values())
evaluations = 0
nontrivial = set()
samples = []
TOL = 1e-11


def interp_impl(M, inc, out):
    return np.asarray(scat.interpolate_matrix(M)(np.asarray(inc, float), np.asarray(out, float)))


def model_interp(M, k, inc, out):
    """extracted model on the real and imaginary parts (the kernel is linear with real
    weights, and complex*real in numba multiplies componentwise)."""
    n = M.shape[0]
    res = []
    for part in ((M.real, M.imag) if np.iscomplexobj(M) else (M,)):
        line = f"I {n} {k} " + " ".join(fhex(v) for v in part.ravel()) + f" {len(inc)} " + \
               " ".join(f"{fhex(a)} {fhex(b)}" for a, b in zip(inc, out))
        res.append(np.array([unhex(x) for x in drv.run([line])[0].split()]))
    return res[0] + 1j * res[1] if len(res) == 2 else res[0]


# ---------------------------------------------------------------------------
# 1. angles and interpolation
# ---------------------------------------------------------------------------
sizes = [2, 3, 4, 5, 8, 9, 16, 33] if Q else list(range(2, 34)) + [64, 100]
outs = drv.run([f"A {n}" for n in sizes])
for n, o in zip(sizes, outs):
    ma = np.array([unhex(x) for x in o.split()])
    ia = scat.make_angles(n)
    evaluations += 1
    if not np.allclose(ia, ma, rtol=0, atol=4e-16 * np.pi * 2):
        chk.violation("angles", "make_angles differs from the model", {"n": n, "impl": ia, "model": ma},
                      failing_input_found=not np.allclose(ia, -np.pi + 2 * np.pi * np.arange(n) / n, atol=1e-14))
    inc_g, out_g = scat.make_angles_grid(n)
    if not (np.array_equal(inc_g, np.tile(ia, (n, 1))) and np.array_equal(out_g, np.tile(ia[:, None], (1, n)))):
        chk.violation("angles_grid", "make_angles_grid is not [j,i] = (inc i, out j)", {"n": n})

for n in sizes:
    for cplx in (False, True):
        M = rng.standard_normal((n, n))
        if cplx:
            M = M + 1j * rng.standard_normal((n, n))
        # storage of the matrix: single precision, Fortran order and integer entries are the same numbers
        _st = ["single", "default", "fortran"] if cplx else ["default", "single", "integer", "fortran"]
        storage = _st[sizes.index(n) % len(_st)]
        if storage == "single":
            M = M.astype(np.complex64 if cplx else np.float32)
        elif storage == "fortran":
            M = np.asfortranarray(M)
        elif storage == "integer" and not cplx:
            M = np.round(M * 8).astype(np.int64)
        chk.count(matrix_storage=f"{M.dtype}{' F-order' if storage == 'fortran' else ''}")
        M_impl, M = M, (np.array(M, dtype=complex) if cplx else np.array(M, dtype=float))
        nodes = scat.make_angles(n)
        dth = 2 * np.pi / n
        inc = list(rng.uniform(-3 * np.pi * 2, 3 * np.pi * 2, size=12 if Q else 60))
        out = list(rng.uniform(-3 * np.pi * 2, 3 * np.pi * 2, size=len(inc)))
        # nodes, seam, node +- ulp, shifted by periods
        fam_inc, fam_out = [], []
        for i in range(n):
            j = int(rng.integers(0, n))
            for a, b in ((nodes[i], nodes[j]), (np.nextafter(nodes[i], 10), nodes[j]), (np.nextafter(nodes[i], -10), nodes[j]),
                         (nodes[i] + 2 * np.pi, nodes[j] - 4 * np.pi), (nodes[i] + 0.25 * dth, nodes[j] + 0.5 * dth)):
                fam_inc.append(float(a))
                fam_out.append(float(b))
        fam_inc += [np.pi, -np.pi, np.pi, np.nextafter(np.pi, 0), 0.0, 3 * np.pi]
        fam_out += [0.3, 0.3, np.pi, -np.pi, 0.0, -3 * np.pi]
        qi, qo = np.array(inc + fam_inc), np.array(out + fam_out)
        impl = interp_impl(M_impl, qi, qo)
        mod = model_interp(M, 0, qi, qo)
        scale = np.max(np.abs(M))
        evaluations += len(qi)
        nontrivial.add(("interp", n, cplx))
        chk.count(matrix=("complex" if cplx else "real"), n=n)
        bad = np.nonzero(np.abs(impl - mod) > TOL * scale)[0]
        # spec predicates on the implementation
        at_nodes = interp_impl(M_impl, np.repeat(nodes, n), np.tile(nodes, n)).reshape(n, n)   # [i, j] = S(inc i, out j)
        spec = {
            "nodes": np.allclose(at_nodes, M.T, rtol=0, atol=1e-9 * scale),
            "periodic": np.allclose(interp_impl(M_impl, qi + 2 * np.pi, qo - 2 * np.pi), impl, rtol=0, atol=1e-9 * scale),
            "seam": np.allclose(interp_impl(M_impl, [np.pi] * n, nodes), interp_impl(M_impl, [-np.pi] * n, nodes), rtol=0, atol=1e-9 * scale),
        }
        # bilinear in between: midpoint of a cell is the mean of its 4 corners (with wrap)
        ii, jj = int(rng.integers(0, n)), int(rng.integers(0, n))
        mid = interp_impl(M_impl, [nodes[ii] + dth / 2], [nodes[jj] + dth / 2])[0]
        corners = (M[jj, ii] + M[jj, (ii + 1) % n] + M[(jj + 1) % n, ii] + M[(jj + 1) % n, (ii + 1) % n]) / 4
        spec["bilinear_midpoint"] = bool(abs(mid - corners) <= 1e-9 * scale)
        for name, ok in spec.items():
            if not ok:
                chk.violation(f"interp:{name}", f"interpolation property '{name}' fails on the implementation",
                              {"n": n, "complex": cplx, "stored_dtype": str(M_impl.dtype), "storage": storage, "matrix": M, "cell": [ii, jj]})
        if len(bad) and all(spec.values()):
            t = int(bad[0])
            chk.violation("interp:model", "interpolate_matrix differs from the model",
                          {"n": n, "complex": cplx, "stored_dtype": str(M_impl.dtype), "storage": storage, "matrix": M, "inc": float(qi[t]), "out": float(qo[t]),
                           "impl": impl[t], "model": mod[t], "correspondence": "Model.ScatMatrix.interp (extracted)"},
                          failing_input_found=False)
        elif len(bad):
            t = int(bad[0])
            chk.violation("interp:model", "interpolate_matrix differs from the model",
                          {"n": n, "complex": cplx, "stored_dtype": str(M_impl.dtype), "storage": storage, "matrix": M, "inc": float(qi[t]), "out": float(qo[t]),
                           "impl": impl[t], "model": mod[t]})
samples.append({"interp": {"n": 4, "query": "nodes, node+-ulp, seam, +-3 periods, random"}})

# ---------------------------------------------------------------------------
# 2. rotation by whole grid steps
# ---------------------------------------------------------------------------
for n in ([2, 3, 4, 7, 8] if Q else list(range(2, 20))):
    M = rng.standard_normal((n, n)) + 1j * rng.standard_normal((n, n))
    nodes = scat.make_angles(n)
    for k in ([0, 1, -1, 2, n, n + 1] if Q else list(range(-n, 2 * n))):
        phi = k * 2 * np.pi / n
        R = scat.rotate_matrix(M, phi)
        want = np.roll(np.roll(M, k, axis=0), k, axis=1)       # [j, i] = M[(j-k)%n, (i-k)%n]
        evaluations += 1
        nontrivial.add(("rotate", n, k))
        if not np.allclose(R, want, rtol=0, atol=1e-9 * np.max(np.abs(M))):
            chk.violation("rotate:shift", "rotate_matrix by k grid steps is not the shift of both indices by k",
                          {"n": n, "k": k, "matrix": M, "got": R, "want": want})
            continue
        # model: interp of the shifted matrix == interp of M at rotated-back angles (implementation too)
        qi = rng.uniform(-np.pi, np.pi, 6)
        qo = rng.uniform(-np.pi, np.pi, 6)
        a = interp_impl(np.ascontiguousarray(R), qi, qo)
        b = interp_impl(M, qi - phi, qo - phi)
        mod = model_interp(M, k, qi, qo)
        if not (np.allclose(a, b, atol=1e-9 * np.max(np.abs(M))) and np.allclose(a, mod, atol=1e-9 * np.max(np.abs(M)))):
            chk.violation("rotate:commutes", "interp(rotate(M, phi))(a, b) != interp(M)(a - phi, b - phi)",
                          {"n": n, "k": k, "matrix": M, "inc": qi, "out": qo, "impl_rotated": a, "impl_shifted_args": b, "model": mod})
    # the dict version at EVERY whole number of grid steps (several turns, both signs): the shift of both indices by m
    for m_ in range(-2 * n - 1, 2 * n + 2):
        dm_ = scat.rotate_matrices({"LT": M}, m_ * 2 * np.pi / n)["LT"]
        want_ = np.roll(np.roll(M, m_, axis=0), m_, axis=1)
        evaluations += 1
        if not np.allclose(dm_, want_, rtol=0, atol=1e-9 * np.max(np.abs(M))):
            chk.violation("rotate:dict-steps", f"rotate_matrices by {m_} grid steps (n = {n}) is not the shift of both indices by {m_}",
                          {"n": n, "steps": m_, "phi": m_ * 2 * np.pi / n, "matrix": M})
            break
    d = scat.rotate_matrices({"LL": M, "TT": 2 * M}, 2 * np.pi / n)
    if not (np.allclose(d["LL"], scat.rotate_matrix(M, 2 * np.pi / n)) and np.allclose(d["TT"], 2 * d["LL"])):
        chk.violation("rotate:dict", "rotate_matrices differs from rotate_matrix per key", {"n": n})

# ---------------------------------------------------------------------------
# 3. layout of matrices produced from functions; frequency interpolation; data objects
# ---------------------------------------------------------------------------
block_vl, block_vt = 6300.0, 3100.0
for n in ([2, 5, 8] if Q else [2, 3, 5, 8, 13, 21]):
    ps = scat.PointSourceScat(block_vl, block_vt)
    sdh = scat.SdhScat(0.5e-3, block_vl, block_vt)
    for obj, name in ((ps, "point"), (sdh, "sdh")):
        freqs = [1e6, 2.5e6] if name == "sdh" else [1e6]
        mats = obj.as_single_freq_matrices(freqs[0], n)
        th = scat.make_angles(n)
        evaluations += 1
        nontrivial.add(("layout", name, n))
        for key in ("LL", "LT", "TL", "TT"):
            i, j = int(rng.integers(0, n)), int(rng.integers(0, n))
            direct = obj(np.array([th[i]]), np.array([th[j]]), freqs[0], to_compute={key})[key][0]
            if not close(mats[key][j, i], direct, 1e-10, 1e-300):
                chk.violation("layout", "matrix[j, i] is not the function value for (incident i, scattered j)",
                              {"scatterer": name, "n": n, "key": key, "i": i, "j": j, "matrix_entry": mats[key][j, i], "direct": direct})
        multi = obj.as_multi_freq_matrices(np.array(freqs), n)
        for fi, fr in enumerate(freqs):
            single = obj.as_single_freq_matrices(fr, n)
            for key in single:
                if not np.allclose(multi[key][fi], single[key], rtol=1e-12, atol=0):
                    chk.violation("layout:multi", "as_multi_freq_matrices[f] differs from as_single_freq_matrices(f)",
                                  {"scatterer": name, "n": n, "key": key})

for nf in ([1, 2, 3] if Q else [1, 2, 3, 4, 5]):
    n = int(rng.integers(2, 9))
    freqs = np.sort(rng.uniform(1e6, 10e6, nf))
    if nf >= 3 or (nf >= 2 and rng.random() < 0.6):
        # the sampled frequencies may be listed in any order (e.g. high to low in a data file)
        freqs = freqs[rng.permutation(nf)] if rng.random() < 0.5 else freqs[::-1].copy()
        chk.count(frequency_order="not increasing")
    else:
        chk.count(frequency_order="increasing")
    data = {k: rng.standard_normal((nf, n, n)) + 1j * rng.standard_normal((nf, n, n)) for k in ("LL", "LT", "TL", "TT")}
    for keys in ([("LL",), ("LL", "TT"), ("LL", "LT", "TL", "TT")] if Q else
                 [c for r in range(1, 5) for c in itertools.combinations(("LL", "LT", "TL", "TT"), r)]):
        sub = {k: data[k] for k in keys}
        obj = scat.ScatFromData.from_dict(freqs, sub)
        th = scat.make_angles(n)
        inc_g, out_g = scat.make_angles_grid(n)
        evaluations += 1
        nontrivial.add(("data", nf, n, keys))
        chk.count(num_frequencies=nf, keys=len(keys))
        # reproduces the data at the sampled frequencies and at the nodes
        for fi, fr in enumerate(freqs):
            with warnings.catch_warnings():
                warnings.simplefilter("ignore")
                res = obj(inc_g, out_g, float(fr))
            if set(res) != set(keys):
                chk.violation("data:keys", "ScatFromData returns keys that were not provided / drops keys",
                              {"keys": keys, "returned": sorted(res)})
                continue
            for k in keys:
                if not np.allclose(res[k], sub[k][fi], rtol=0, atol=1e-9 * np.max(np.abs(sub[k]))):
                    chk.violation("data:nodes", "ScatFromData does not reproduce its data at a sampled frequency",
                                  {"numfreq": nf, "n": n, "key": k, "freq_index": fi})
        # linear in frequency (between, and extrapolated beyond, the samples); single frequency: constant
        fq = [float(rng.uniform(0.5e6, 12e6)) for _ in range(3)]
        for fr in fq:
            with warnings.catch_warnings():
                warnings.simplefilter("ignore")
                res = obj(inc_g, out_g, fr)
            for k in keys:
                if nf == 1:
                    want = sub[k][0]
                else:
                    order = np.argsort(freqs)
                    fs_ = freqs[order]
                    hi = int(np.clip(np.searchsorted(fs_, fr), 1, nf - 1))
                    lo = hi - 1
                    line = " ".join(fhex(x) for x in (fs_[lo], fs_[hi], 0.0, 1.0, fr))
                    w = unhex(drv.run([f"L {line}"])[0])            # model weight of the upper sample
                    want = sub[k][order[lo]] * (1 - w) + sub[k][order[hi]] * w
                if not np.allclose(res[k], want, rtol=0, atol=1e-9 * np.max(np.abs(sub[k]))):
                    chk.violation("data:freq_interp", "ScatFromData is not linear in frequency between its samples",
                                  {"numfreq": nf, "n": n, "key": k, "frequency": fr, "frequencies": freqs})
        # HISTORY on the same object: all keys at one frequency, then a SUBSET of the keys at another frequency (what a
        # model run restricted to some views does), then the other keys at that frequency: as from a fresh object
        if len(keys) >= 2 and nf >= 2:
            f_a = float(freqs[0])
            f_b = float(0.5 * (freqs[0] + freqs[1])) if rng.random() < 0.5 else float(freqs[1])
            first, last = {keys[0]}, {keys[-1]}
            with warnings.catch_warnings():
                warnings.simplefilter("ignore")
                obj(inc_g, out_g, f_a)
                if rng.random() < 0.5:
                    obj(inc_g, out_g, f_b, to_compute=first)
                else:
                    obj.as_multi_freq_matrices(np.array([f_b]), n, to_compute=first)
                got_h = obj(inc_g, out_g, f_b, to_compute=last)
                fresh_h = scat.ScatFromData.from_dict(freqs, sub)(inc_g, out_g, f_b, to_compute=last)
            evaluations += 1
            chk.count(data_history="all keys @f_a, subset @f_b, other key @f_b")
            k_ = keys[-1]
            if k_ not in got_h or not np.allclose(got_h[k_], fresh_h[k_], rtol=0, atol=1e-9 * np.max(np.abs(sub[k_]))):
                chk.violation("data:history", "ScatFromData asked for a key at a frequency at which it was first asked for OTHER keys "
                              "returns the values of the previous frequency",
                              {"numfreq": nf, "n": n, "keys": keys, "frequencies": freqs, "f_a": f_a, "f_b": f_b, "asked_first_at_f_b": sorted(first),
                               "asked_then": k_, "got": got_h.get(k_), "fresh_object": fresh_h[k_]})
        # HISTORY: matrices handed to the caller are the caller's own; normalising them in place must not change the data
        # the object answers with afterwards (single- and multi-frequency data alike)
        f_h = float(freqs[0])
        pristine_h = {k_: np.array(sub[k_], copy=True) for k_ in keys}     # (the object may hold `sub`'s arrays themselves)
        with warnings.catch_warnings():
            warnings.simplefilter("ignore")
            got1 = obj.as_single_freq_matrices(f_h, n)
            for k_ in list(got1):
                try:
                    got1[k_] *= 0.0
                    got1[k_] += 17.0
                except ValueError:
                    pass
            got2 = obj.as_single_freq_matrices(f_h, n)
            res2 = obj(inc_g, out_g, f_h)
        evaluations += 1
        chk.count(data_history="matrices returned to the caller edited in place")
        for k_ in keys:
            sc_ = np.max(np.abs(pristine_h[k_]))
            if not np.allclose(got2[k_], pristine_h[k_][0], rtol=0, atol=1e-9 * sc_) or \
                    not np.allclose(res2[k_], pristine_h[k_][0], rtol=0, atol=1e-9 * sc_):
                chk.violation("data:caller-edit", "ScatFromData no longer reproduces its data after the caller edited in place the matrices "
                              "returned by as_single_freq_matrices", {"numfreq": nf, "n": n, "key": k_, "frequency": f_h})
                break
        for k_ in keys:                      # whatever happened, go on with the pristine data
            sub[k_][...] = pristine_h[k_]
        # MAT round trip
        import scipy.io as sio
        for shape in ("row", "col", "flat"):
            fn = os.path.join(chk.work, "scat_roundtrip.mat")
            fsave = {"row": freqs.reshape(1, -1), "col": freqs.reshape(-1, 1), "flat": freqs}[shape]
            sio.savemat(fn, dict({f"scattering_{k}": sub[k] for k in keys}, frequencies=fsave))
            # (the library-wide precision settings may be at non-default values while a double-precision file is loaded: a file
            #  is loaded with the values it stores)
            import arim.settings as _st
            _keep = (_st.FLOAT, _st.COMPLEX)
            if shape == "col":
                _st.FLOAT, _st.COMPLEX = np.float32, np.complex64
                chk.count(matfile_loaded_with_settings="FLOAT=float32 COMPLEX=complex64")
            try:
                loaded = arim.io.load_scat(fn)
            finally:
                _st.FLOAT, _st.COMPLEX = _keep
            ok = (np.array_equal(loaded.frequencies, freqs) and set(loaded.orig_matrices) == set(keys)
                  and all(np.array_equal(loaded.orig_matrices[k], sub[k]) for k in keys))
            evaluations += 1
            if not ok:
                chk.violation("matfile", "scattering matrices stored to and loaded from a MAT file are changed",
                              {"keys": keys, "numfreq": nf, "n": n, "frequencies_shape": shape})
            os.remove(fn)

# ---- two (and then three) data-backed scatterers alive together: the documented customisation of ONE object's frequency
#      interpolation (obj.interp_freq_kwargs edited in place) must not change how the OTHERS interpolate
for t_ in range(3 if Q else 20):
    n = int(rng.integers(2, 6))
    fs_ = np.sort(rng.uniform(1e6, 10e6, 3))
    mk_ = lambda: {k: rng.standard_normal((3, n, n)) + 1j * rng.standard_normal((3, n, n)) for k in ("LL", "LT", "TL", "TT")}
    dA, dB, dC = mk_(), mk_(), mk_()
    oA = scat.ScatFromData.from_dict(fs_, dA)
    oB = scat.ScatFromData.from_dict(fs_, dB) if t_ % 2 == 0 else scat.ScatFromData(fs_, *(dB[k] for k in ("LL", "LT", "TL", "TT")))
    if t_ % 3 == 0:
        oA.interp_freq_kwargs["kind"] = "nearest"
    elif t_ % 3 == 1:
        oA.interp_freq_kwargs.update(kind="nearest")
    else:
        oA.interp_freq_kwargs["fill_value"] = 0.0
        oA.interp_freq_kwargs["bounds_error"] = False
    oC = scat.ScatFromData.from_dict(fs_, dC)           # created after the edit
    fr = float(0.3 * fs_[0] + 0.7 * fs_[1]) if t_ % 3 != 2 else float(fs_[2] * 1.1)
    inc_g, out_g = scat.make_angles_grid(n)
    evaluations += 2
    nontrivial.add(("two-objects", t_))
    chk.count(two_data_scatterers="one object's interp_freq_kwargs edited in place")
    for nm_, o_, d_ in (("alive at the time of the edit", oB, dB), ("created after the edit", oC, dC)):
        with warnings.catch_warnings():
            warnings.simplefilter("ignore")
            res = o_(inc_g, out_g, fr)
        lo_, hi_ = (0, 1) if t_ % 3 != 2 else (1, 2)
        w_ = (fr - fs_[lo_]) / (fs_[hi_] - fs_[lo_])
        bad_ = [k for k in d_ if not np.allclose(res[k], d_[k][lo_] * (1 - w_) + d_[k][hi_] * w_, rtol=0, atol=1e-9 * np.max(np.abs(d_[k])))]
        if bad_:
            chk.violation("data:two-objects", f"a ScatFromData object ({nm_}) no longer interpolates linearly in frequency after ANOTHER object's "
                          "interp_freq_kwargs was edited in place", {"n": n, "frequencies": fs_, "frequency": fr, "keys": bad_,
                                                                    "edit": ["['kind'] = 'nearest'", ".update(kind='nearest')", "['fill_value'] = 0.0"][t_ % 3]})
            break

# ---- keys of mixed data types (a real-valued LL next to complex LT / TL / TT, as a data file may hold): the multi-frequency
#      matrices are, key by key, the single-frequency ones (imaginary parts included), for every requested subset
for t_ in range(3 if Q else 20):
    n = int(rng.integers(2, 6))
    fs_ = np.sort(rng.uniform(1e6, 10e6, 2))
    real_keys = [("LL",), ("LL", "LT"), ("LT",)][t_ % 3]
    dM = {k: (rng.standard_normal((2, n, n)) if k in real_keys else rng.standard_normal((2, n, n)) + 1j * rng.standard_normal((2, n, n)))
          for k in ("LL", "LT", "TL", "TT")}
    oM = scat.ScatFromData.from_dict(fs_, dM)
    fq_ = np.array([float(fs_[0]), float(0.5 * (fs_[0] + fs_[1])), float(fs_[1])])
    for tc_ in (None, {"LL", "TT"}, {"LT", "TL"}, {"LT", "TT"}):
        with warnings.catch_warnings():
            warnings.simplefilter("ignore")
            multi = oM.as_multi_freq_matrices(fq_, n) if tc_ is None else oM.as_multi_freq_matrices(fq_, n, to_compute=tc_)
            singles = [oM.as_single_freq_matrices(float(f_), n) for f_ in fq_]
        evaluations += 1
        nontrivial.add(("mixed-dtypes", t_, None if tc_ is None else tuple(sorted(tc_))))
        chk.count(mixed_dtype_keys="real " + "+".join(real_keys))
        bad_ = [(k, fi) for k in (tc_ or dM) for fi in range(3)
                if k not in multi or not np.allclose(np.asarray(multi[k][fi]), np.asarray(singles[fi][k]), rtol=0, atol=1e-12 * np.max(np.abs(dM[k])))]
        if bad_:
            k, fi = bad_[0]
            chk.violation("layout:multi:mixed-dtypes", "as_multi_freq_matrices[f] differs from as_single_freq_matrices(f) for a scatterer whose keys have mixed data types",
                          {"n": n, "real_keys": list(real_keys), "to_compute": None if tc_ is None else sorted(tc_), "key": k, "freq_index": fi,
                           "multi": None if k not in multi else np.asarray(multi[k][fi]), "single": np.asarray(singles[fi][k])})
            break

# ---- the glue model of the public functions (Model files added later, see manifest text) tied to the library on every run:
#      inputs generated here, the library run on them, the model evaluated on the same inputs by vm_compute inside coqc
import ties.tie_C10 as _tie_glue  # noqa: E402
_tie_n = _tie_glue.run(chk, arim, rng, Q)
chk.cov["glue_model_tie_comparisons"] = int(_tie_n or 0)

chk.finish(
    evaluations=evaluations,
    distinct_nontrivial=len(nontrivial),
    rule=("interpolation queries on random real/complex matrices n=2..33 (random angles over +-3 periods, every node, "
          "node +- 1 ulp, seam, period-shifted nodes); rotations by every/selected multiples of 2pi/n; layout of "
          "point-source and SDH matrices; ScatFromData with 1..5 frequencies and every subset of keys, MAT round trip "
          "with three 'frequencies' shapes; distinct = distinct (kind, n, dtype/k/keys) tuples"),
    samples=samples,
    extra={"tolerance": TOL, "exhaustive": False},
    assumptions=["FFT, interp1d and MAT I/O are oracles", "theorems are exact-arithmetic with the half period a parameter"],
)
