"""C16 — Probe motions are rigid and keep the probe coordinate system attached.

Proof side : Props/C16.v — for every history of translate / rotate(centre) / flip /
             translate_to_point_O / set_reference_element / reset_position starting from
             make_matrix_probe (any numx, numy >= 1, any pitches), with proper rotations
             (R R^T = I, det R = 1): no operation raises, pairwise distances are invariant,
             locations_pcs / orientations_pcs change only under set_reference_element (by a
             common vector that puts the chosen element at the origin), (i, j, k) stays
             orthonormal and right-handed, normals stay unit, the exported oriented points
             carry rows (i, j, k) at every element, reset_position gives PCS = GCS and
             locations = locations_pcs.
Tie        : extracted model (Model/Probe.v, OCaml floats) vs real arim.Probe objects driven
             through the public API, state by state after EVERY operation: locations,
             orientations, pcs origin / i / j / k, locations_pcs, orientations_pcs,
             to_oriented_points(); error outcomes (non-normalised axes after a non-orthogonal
             matrix, index out of range, numx < 1, wrong number of orientations) must agree.
             Class T: 1e-10 x extent on random histories; class E (bit exact) on dyadic
             histories (cube-group rotations, dyadic pitches / translations / centres); a
             shard of the dyadic histories is also evaluated by vm_compute (NumF) inside coqc,
             which cross-checks extraction + driver.
Spec on impl: the closed-form rigid motion accumulated independently in numpy
             (locations = R_tot loc0 + t_tot, axes = R_tot e_k, origin = R_tot o_ref + t_tot,
             locations_pcs = loc0 - o_ref, orientations_pcs = ori0), pairwise distances,
             orthonormality / right-handedness, unit normals, set_reference_element shift,
             reset gives GCS, frame condition on the other attributes.
"""
import glob
import json
import os

import numpy as np

from common import Check, cZ, cfloat, clist, cpair, copt, cbool
import arimgen
from arimgen import fhex, unhex

chk = Check("C16", design_ref="DESIGN.md §5 C16")
chk.proofs(extra_trusted=[
    "extraction: ExtrOcamlBasic only (Extract/C16.v); ocaml/common/numf.ml and ocaml/C16/driver.ml hand-written, trusted "
    "(cross-checked per run against vm_compute of the same model on binary64 inside coqc, dyadic shard)",
    "numpy einsum / matmul / mean summation order and FMA use are not modelled: class T tolerance on random floats, "
    "class E only where every operation is exact",
])
arim = chk.import_arim()
import arim.geometry as g

drv = arimgen.Driver(chk.ocaml_driver("C16"))
rng = chk.rng
# second tie: geometry.norm2 / rotation_matrix_x,y,z / spherical coordinates are re-translated from the current
# source and checked convertible with the model; a broken tie deepens the correspondence run (thorough sizes)
_ties = chk.translation_tie()
Q = chk.tier == "quick" and all(v == "ok" for v in _ties.values())
evaluations = 0
nontrivial = set()
samples = []
TOL = 1e-10
FREQ = 1e6


# ---------------------------------------------------------------------------
# histories: plain Python structures (JSON-able with floats as hex)
#   probe: ["M", numx, px, numy, py] | ["G", [[x,y,z], ...]]
#   ori  : None | [x,y,z] | [[x,y,z], ...]
#   ops  : ["R", [9 floats], centre|None] | ["Y", yaw, pitch, roll, centre|None] | ["T", [x,y,z]]
#          | ["F"] | ["O"] | ["Z"] | ["S", "first"|"last"|"mean"|int]
# ---------------------------------------------------------------------------
def hx(v):
    return " ".join(fhex(x) for x in np.asarray(v, float).ravel())


def centre_tok(c):
    return "N" if c is None else "C " + hx(c)


def history_line(h):
    p = h["probe"]
    if p[0] == "M":
        s = f"M {int(p[1])} {fhex(p[2])} {int(p[3])} {fhex(p[4])}"
    else:
        s = f"G {len(p[1])} " + hx(p[1])
    o = h["ori"]
    if o is None:
        s += " N"
    elif np.ndim(o) == 1:
        s += " O " + hx(o)
    else:
        s += f" E {len(o)} " + hx(o) if len(o) else " E 0"
    s += f" {len(h['ops'])}"
    for op in h["ops"]:
        k = op[0]
        if k == "R":
            s += " R " + hx(op[1]) + " " + centre_tok(op[2])
        elif k == "Y":
            s += " Y " + hx(op[1:4]) + " " + centre_tok(op[4])
        elif k == "T":
            s += " T " + hx(op[1])
        elif k == "S":
            s += f" S {op[1]}"
        else:
            s += " " + k
    return s


def jsonable(h):
    def f(x):
        if isinstance(x, (float, np.floating)):
            return float(x).hex()
        if isinstance(x, (np.integer,)):
            return int(x)
        if isinstance(x, np.ndarray):
            return f(x.tolist())
        if isinstance(x, (list, tuple)):
            return [f(y) for y in x]
        if isinstance(x, dict):
            return {k: f(v) for k, v in x.items()}
        return x
    return f(h)


def unjson(h):
    def f(x):
        if isinstance(x, str) and (x.startswith("0x") or x.startswith("-0x") or x in ("nan", "inf", "-inf")):
            return float.fromhex(x) if "x" in x else float(x)
        if isinstance(x, list):
            return [f(y) for y in x]
        return x
    return {"probe": f(h["probe"]), "ori": f(h["ori"]), "ops": f(h["ops"]), "kind": h.get("kind", "corpus"),
            "exact": h.get("exact", False), "proper": h.get("proper", True)}


# ---------------------------------------------------------------------------
# implementation side
# ---------------------------------------------------------------------------
_storage = [0]


def make_probe(h):
    p, o = h["probe"], h["ori"]
    kw = {} if o is None else {"orientations": np.array(o, float)}
    _storage[0] += 1
    if o is not None and np.array_equal(np.array(o, float), np.round(np.array(o, float))) and _storage[0] % 2 == 0:
        # normals written with integers, e.g. orientations=(0, 0, 1): the same vectors
        kw["orientations"] = np.array(o, float).astype(np.int64) if _storage[0] % 4 == 0 else [int(v) for v in o] \
            if np.ndim(o) == 1 else [[int(v) for v in r_] for r_ in o]
        chk.count(probe_storage="integer-typed normals")
    if p[0] == "M":
        px, py = p[2], p[4]
        if _storage[0] % 3 == 0 and all(np.isnan(v) or float(np.float32(v)) == float(v) for v in (px, py)):
            px, py = np.float32(px), np.float32(py)            # single-precision pitches that hold the same numbers
            chk.count(probe_storage="float32 pitches")
        return arim.Probe.make_matrix_probe(p[1], px, p[3], py, FREQ, **kw)
    return arim.Probe(np.array(p[1], float).reshape(-1, 3), FREQ, **kw)


def matrix_of(op):
    if op[0] == "R":
        return np.array(op[1], float).reshape(3, 3)
    return g.rotation_matrix_ypr(op[1], op[2], op[3])


def as_arg(v):
    """a vector argument as ndarray, list or tuple (deterministic in the value)"""
    sel = int(abs(float(v[0])) * 4096) % 3
    return np.array(v, float) if sel == 0 else ([float(x) for x in v] if sel == 1 else tuple(float(x) for x in v))


def apply_impl(probe, op):
    k = op[0]
    if k in ("R", "Y"):
        c = op[2] if k == "R" else op[4]
        ret = probe.rotate(matrix_of(op), None if c is None else as_arg(c))
        assert ret is probe
    elif k == "T":
        ret = probe.translate(as_arg(op[1]))
        assert ret is probe
    elif k == "F":
        probe.flip_probe_around_axis_Oz()
    elif k == "O":
        probe.translate_to_point_O()
    elif k == "Z":
        probe.reset_position()
    elif k == "S":
        probe.set_reference_element(op[1])
    else:
        raise KeyError(k)


def observe(probe):
    """flat vector in the driver's layout + the pieces"""
    n = probe.numelements
    locs = np.asarray(probe.locations.coords, float)
    oris = None if probe.orientations is None else np.asarray(probe.orientations.coords, float)
    pcs = probe.pcs
    lp = np.asarray(probe.locations_pcs.coords, float)
    op_ = probe.orientations_pcs
    opc = None if op_ is None else np.asarray(op_.coords, float)
    ori_pts = probe.to_oriented_points()
    exported = np.asarray(ori_pts.orientations.coords, float)
    d = dict(locs=locs, oris=oris, o=np.asarray(pcs.origin, float), i=np.asarray(pcs.i_hat, float),
             j=np.asarray(pcs.j_hat, float), k=np.asarray(pcs.k_hat, float), lp=lp, opc=opc, exported=exported,
             exported_points=np.asarray(ori_pts.points.coords, float))
    parts = [locs.ravel()]
    if oris is not None:
        parts.append(oris.ravel())
    parts += [d["o"], d["i"], d["j"], d["k"], lp.ravel()]
    if opc is not None:
        parts.append(opc.ravel())
    parts.append(exported.ravel())
    d["flat"] = np.concatenate(parts)
    assert locs.shape == (n, 3) and lp.shape == (n, 3) and exported.shape == (n, 3, 3), (locs.shape, exported.shape)
    return d


def frame_condition(probe):
    return (probe.numelements, probe.frequency, None if probe.dimensions is None else probe.dimensions.coords.tobytes(),
            probe.dead_elements.tobytes(), probe.bandwidth, tuple(sorted((k, repr(v)) for k, v in probe.metadata.items())))


def run_impl(h):
    """list of states: dict | ("E", exception class name)"""
    try:
        probe = make_probe(h)
    except (ValueError, AssertionError, IndexError) as e:
        return [("E", type(e).__name__)], None
    states = [observe(probe)]
    fc0 = frame_condition(probe)
    for op in h["ops"]:
        try:
            apply_impl(probe, op)
        except (ValueError, IndexError) as e:
            states.append(("E", type(e).__name__))
            break
        states.append(observe(probe))
    return states, (fc0 == frame_condition(probe))


# ---------------------------------------------------------------------------
# model side
# ---------------------------------------------------------------------------
def parse_model(line):
    out = []
    for st in line.split(";"):
        t = st.split()
        if t[0] == "E":
            out.append("E")
        else:
            assert t[0] == "P"
            out.append(t[1:])
    return out


def model_flat(tokens):
    """-> (flat array, orientations_pcs_raises)"""
    if "X" in tokens:
        return np.array([unhex(x) for x in tokens if x != "X"]), True
    return np.array([unhex(x) for x in tokens]), False


# ---------------------------------------------------------------------------
# independent closed-form specification (numpy), accumulated over the history
# ---------------------------------------------------------------------------
class RigidSpec:
    def __init__(self, st0):
        self.loc0 = st0["locs"].copy()
        self.ori0 = None if st0["oris"] is None else st0["oris"].copy()
        self.R = np.eye(3)
        self.t = np.zeros(3)
        self.oref = np.zeros(3)

    def step(self, op):
        k = op[0]
        if k in ("R", "Y", "F"):
            if k == "F":
                R, c = np.diag([-1.0, -1.0, 1.0]), None
            else:
                R = matrix_of(op) if k == "R" else ypr_reference(op[1], op[2], op[3])
                c = op[2] if k == "R" else op[4]
            c = np.zeros(3) if c is None else np.array(c, float)
            self.R = R @ self.R
            self.t = R @ (self.t - c) + c
        elif k == "T":
            self.t = self.t + np.array(op[1], float)
        elif k == "O":
            self.t = self.t - (self.R @ self.oref + self.t)
        elif k == "Z":
            self.R = np.eye(3)
            self.t = -self.oref
        elif k == "S":
            r = op[1]
            if r == "first":
                self.oref = self.loc0[0]
            elif r == "last":
                self.oref = self.loc0[-1]
            elif r == "mean":
                self.oref = self.loc0.mean(axis=0)
            else:
                self.oref = self.loc0[int(r)]

    def expected(self):
        R, t = self.R, self.t
        return dict(locs=self.loc0 @ R.T + t, oris=None if self.ori0 is None else self.ori0 @ R.T,
                    o=R @ self.oref + t, i=R[:, 0], j=R[:, 1], k=R[:, 2], lp=self.loc0 - self.oref, opc=self.ori0)


def ypr_reference(yaw, pitch, roll):
    """intrinsic z-y'-x'' rotation written out entry by entry (not via arim)"""
    cy, sy, cp, sp, cr, sr = np.cos(yaw), np.sin(yaw), np.cos(pitch), np.sin(pitch), np.cos(roll), np.sin(roll)
    return np.array([[cy * cp, cy * sp * sr - sy * cr, cy * sp * cr + sy * sr],
                     [sy * cp, sy * sp * sr + cy * cr, sy * sp * cr - cy * sr],
                     [-sp, cp * sr, cp * cr]])


def pair_d2(x):
    d = x[:, None, :] - x[None, :, :]
    return np.einsum("abk,abk->ab", d, d)


def spec_checks(h, states, scale):
    """evaluate the property on the implementation's states. returns list of (key, message, step)"""
    bad = []
    st0 = states[0]
    spec = RigidSpec(st0)
    n = len(st0["locs"])
    tol = TOL * scale
    d0 = pair_d2(st0["locs"])
    prev = st0
    # initial state: PCS = GCS, locations_pcs = locations
    for step, st in enumerate(states):
        if isinstance(st, tuple):
            break
        op = h["ops"][step - 1] if step > 0 else None
        if op is not None:
            spec.step(op)
        # --- rigid
        if np.max(np.abs(pair_d2(st["locs"]) - d0), initial=0.0) > tol * scale:
            bad.append(("rigid", "pairwise element distances changed", step))
        # --- frame orthonormal, right-handed; normals unit
        B = np.stack([st["i"], st["j"], st["k"]])
        if np.max(np.abs(B @ B.T - np.eye(3))) > TOL * max(1.0, scale) or abs(np.linalg.det(B) - 1) > TOL * max(1.0, scale):
            bad.append(("frame_orthonormal", "(i_hat, j_hat, k_hat) is not orthonormal right-handed", step))
        if st["oris"] is not None and h.get("unit_normals", True):
            if np.max(np.abs(np.einsum("ak,ak->a", st["oris"], st["oris"]) - 1)) > TOL * max(1.0, scale):
                bad.append(("normals_unit", "element normals are not unit vectors", step))
        # --- exported oriented points carry (i, j, k) as rows at every element, points are the locations
        if not (np.array_equal(st["exported"], np.broadcast_to(B, (n, 3, 3))) and np.array_equal(st["exported_points"], st["locs"])):
            bad.append(("oriented_points_axes", "to_oriented_points does not export rows (i_hat, j_hat, k_hat) at the element locations", step))
        # --- PCS attached
        if op is not None and op[0] != "S":
            if np.max(np.abs(st["lp"] - prev["lp"]), initial=0.0) > tol:
                bad.append(("pcs_attached", f"locations_pcs changed under {op[0]}", step))
        if op is not None and op[0] == "S":
            shift = prev["lp"] - st["lp"]
            if np.max(np.abs(shift - shift[0]), initial=0.0) > tol:
                bad.append(("set_reference_shift", "set_reference_element did not shift locations_pcs by a common vector", step))
            r = op[1]
            zero = st["lp"].mean(axis=0) if r == "mean" else st["lp"][{"first": 0, "last": -1}.get(r, r)]
            if np.max(np.abs(zero)) > tol:
                bad.append(("set_reference_origin", "the reference element is not at the PCS origin", step))
            if not (np.array_equal(st["locs"], prev["locs"]) and np.array_equal(st["i"], prev["i"]) and np.array_equal(st["j"], prev["j"])):
                bad.append(("set_reference_frame", "set_reference_element moved elements or axes", step))
        if (st["opc"] is None) != (st["oris"] is None):
            bad.append(("orientations_pcs_none", "orientations_pcs is None iff orientations is None fails", step))
        if op is not None and st["opc"] is not None and np.max(np.abs(st["opc"] - prev["opc"])) > TOL * max(1.0, scale):
            bad.append(("pcs_attached", f"orientations_pcs changed under {op[0]}", step))
        # --- reset
        if op is not None and op[0] == "Z":
            if (np.max(np.abs(st["o"])) > tol or np.max(np.abs(B - np.eye(3))) > TOL * max(1.0, scale)
                    or np.max(np.abs(st["locs"] - st["lp"]), initial=0.0) > tol
                    or (st["oris"] is not None and np.max(np.abs(st["oris"] - st["opc"])) > TOL * max(1.0, scale))):
                bad.append(("reset_restores", "after reset_position PCS != GCS or locations != locations_pcs", step))
        if op is not None and op[0] == "O" and np.max(np.abs(st["o"])) > tol:
            bad.append(("to_point_O", "after translate_to_point_O the PCS origin is not O", step))
        # --- closed form
        ex = spec.expected()
        for name, t_ in (("locs", tol), ("o", tol), ("lp", tol), ("i", TOL * max(1.0, scale)), ("j", TOL * max(1.0, scale)),
                         ("k", TOL * max(1.0, scale)), ("oris", TOL * max(1.0, scale)), ("opc", TOL * max(1.0, scale))):
            if ex[name] is None:
                continue
            if np.max(np.abs(ex[name] - st[name]), initial=0.0) > t_:
                bad.append((f"closed_form:{name}", f"{name} is not the accumulated rigid motion of the initial probe", step))
        prev = st
    return bad


# ---------------------------------------------------------------------------
# generators
# ---------------------------------------------------------------------------
CUBE = []
for perm in ((0, 1, 2), (0, 2, 1), (1, 0, 2), (1, 2, 0), (2, 0, 1), (2, 1, 0)):
    for sx in (1, -1):
        for sy in (1, -1):
            for sz in (1, -1):
                M = np.zeros((3, 3))
                for r, (c, s) in enumerate(zip(perm, (sx, sy, sz))):
                    M[r, c] = s
                if round(np.linalg.det(M)) == 1:
                    CUBE.append(M)
assert len(CUBE) == 24


def dyadic(rng, bits, span):
    """k * 2^-bits with |value| <= span"""
    return float(rng.integers(-span * 2 ** bits, span * 2 ** bits + 1)) / 2 ** bits


def gen_probe(rng, exact, scale, nmax):
    shape = rng.choice(["linear_x", "linear_y", "matrix", "single", "generic"], p=[0.3, 0.15, 0.35, 0.05, 0.15])
    if exact:
        sizes = [1, 2, 4, 8]
        pitch = lambda: (dyadic(rng, 4, 4) or 0.5)
    else:
        sizes = list(range(1, nmax + 1))
        pitch = lambda: float(rng.choice([-1, 1]) * rng.uniform(0.2, 2.0) * scale)
    if shape == "generic" and not exact:
        n = int(rng.integers(1, nmax + 1))
        return ["G", (rng.standard_normal((n, 3)) * scale).tolist()], n
    if shape in ("generic",):
        shape = "matrix"
    if shape == "single":
        nx, ny = 1, 1
    elif shape == "linear_x":
        nx, ny = int(rng.choice(sizes)), 1
    elif shape == "linear_y":
        nx, ny = 1, int(rng.choice(sizes))
    else:
        nx = int(rng.choice([s for s in sizes if s <= 8]))
        ny = int(rng.choice([s for s in sizes if s <= 8]))
    px, py = pitch(), pitch()
    if rng.random() < 0.15:          # arguments of other numeric types: integer pitches, float / numpy sizes
        px = int(px) if float(px).is_integer() and px != 0 else px
        py = int(py) if float(py).is_integer() and py != 0 else py
        nxa, nya = (float(nx), np.int64(ny)) if rng.random() < 0.5 else (np.int32(nx), float(ny))
        return ["M", nxa, px, nya, py], nx * ny
    return ["M", nx, px, ny, py], nx * ny


def unit_random(rng):
    v = rng.standard_normal(3)
    return (v / np.linalg.norm(v)).tolist()


def gen_ori(rng, exact, n):
    k = rng.choice(["none", "one_z", "one", "each"], p=[0.15, 0.35, 0.2, 0.3])
    if k == "none":
        return None
    if k == "one_z":
        return [0.0, 0.0, 1.0]
    if exact:
        axes = [[1.0, 0, 0], [0, 1.0, 0], [0, 0, 1.0], [-1.0, 0, 0], [0, -1.0, 0], [0, 0, -1.0]]
        if k == "one":
            return axes[int(rng.integers(6))]
        return [axes[int(rng.integers(6))] for _ in range(n)]
    if k == "one":
        return unit_random(rng)
    return [unit_random(rng) for _ in range(n)]


def gen_ops(rng, exact, scale, n, nops):
    ops = []
    means = 0
    # some histories only ever tilt the probe by tiny angles (mis-alignments of 1e-5 .. 5e-3 rad): the accumulated
    # rotation stays small, and reset_position must still undo it exactly
    small_only = (not exact) and rng.random() < 0.2
    for _ in range(nops):
        k = rng.choice(["rot", "tr", "flip", "toO", "ref", "reset"], p=[0.32, 0.22, 0.08, 0.1, 0.2, 0.08])
        if k == "rot":
            if exact:
                c = None if rng.random() < 0.3 else [dyadic(rng, 6, 16) for _ in range(3)]
                ops.append(["R", CUBE[int(rng.integers(24))].ravel().tolist(), c])
            else:
                far = rng.choice([1.0, 1.0, 30.0])
                c = None if rng.random() < 0.25 else (rng.standard_normal(3) * scale * far).tolist()
                if small_only:
                    ang = [float(rng.choice([-1, 1]) * 10 ** rng.uniform(-5, -2.3)) for _ in range(3)]
                elif rng.random() < 0.12:      # angles on special values
                    ang = [float(rng.choice([0.0, np.pi / 2, -np.pi / 2, np.pi, -np.pi, 2 * np.pi, np.pi / 4])) for _ in range(3)]
                else:
                    ang = [float(rng.uniform(-2 * np.pi, 2 * np.pi)) for _ in range(3)]
                    m = rng.random()
                    if m < 0.1:
                        ang[1] = ang[2] = 0.0        # pure yaw
                    elif m < 0.2:
                        ang[0] = ang[2] = 0.0        # pure pitch
                    elif m < 0.3:
                        ang[0] = ang[1] = 0.0        # pure roll
                if rng.random() < 0.2:
                    ops.append(["R", g.rotation_matrix_ypr(*ang).ravel().tolist(), c])
                else:
                    ops.append(["Y", ang[0], ang[1], ang[2], c])
        elif k == "tr":
            if exact:
                ops.append(["T", [dyadic(rng, 6, 16) for _ in range(3)]])
            else:
                ops.append(["T", (rng.standard_normal(3) * scale * rng.choice([0.1, 1.0, 10.0])).tolist()])
        elif k == "flip":
            if exact:
                ops.append(["R", [-1.0, 0, 0, 0, -1.0, 0, 0, 0, 1.0], None])
            else:
                ops.append(["F"])
        elif k == "toO":
            ops.append(["O"])
        elif k == "reset":
            ops.append(["Z"])
        else:
            r = rng.choice(["first", "last", "mean", "idx", "negidx"], p=[0.2, 0.2, 0.25, 0.25, 0.1])
            if r == "mean" and exact:
                means += 1
                if means > 2:
                    r = "idx"
            if r == "idx":
                r = int(rng.integers(0, n))
            elif r == "negidx":
                r = -int(rng.integers(1, n + 1))
            else:
                r = str(r)
            ops.append(["S", r])
    if small_only:
        ops = [(["Z"] if o[0] == "F" else o) for o in ops] + [["Z"]]     # no half-turn flips; always end on a reset
    return ops


def history_scale(h):
    vals = [1e-300]
    p = h["probe"]
    if p[0] == "M":
        vals += [abs(p[2]) * p[1], abs(p[4]) * p[3]]
    else:
        vals.append(np.max(np.abs(p[1]), initial=0.0))
    acc = max(vals)
    tot = acc
    for op in h["ops"]:
        if op[0] == "T":
            tot += np.max(np.abs(op[1]))
        elif op[0] in ("R", "Y"):
            c = op[2] if op[0] == "R" else op[4]
            if c is not None:
                tot += 2 * np.max(np.abs(c))
    return float(tot)


def gen_history(rng, exact, nmax):
    scale = 1.0 if exact else float(10 ** rng.uniform(-3, 3))
    probe, n = gen_probe(rng, exact, scale, nmax)
    nops = int(rng.integers(1, 21))
    return {"probe": probe, "ori": gen_ori(rng, exact, n), "ops": gen_ops(rng, exact, scale, n, nops),
            "exact": exact, "proper": True, "kind": "exact" if exact else "random"}


def gen_malformed(rng):
    """histories whose last operation (or construction) must raise, or that use improper matrices"""
    kind = rng.choice(["index", "scaled", "nearly", "numx", "oricount", "shear", "nonunit_normals", "reflection"])
    h = gen_history(rng, False, 6)
    h["kind"] = "malformed:" + kind
    h["ops"] = h["ops"][:int(rng.integers(0, 5))]
    n = int(h["probe"][1]) * int(h["probe"][3]) if h["probe"][0] == "M" else len(h["probe"][1])
    if kind == "index":
        h["ops"].append(["S", int(rng.choice([n, n + 3, -n - 1, -n - 5]))])
        h["expect_error"] = True
    elif kind in ("scaled", "nearly", "shear", "reflection"):
        R = g.rotation_matrix_ypr(*rng.uniform(-3, 3, 3))
        if kind == "scaled":
            R = R * float(rng.choice([0.5, 0.99, 1.01, 2.0]))
            h["expect_error"] = True
        elif kind == "nearly":
            R = R * (1 + float(rng.choice([-1, 1])) * 1e-7)       # inside the isclose tolerance: accepted
        elif kind == "reflection":
            R = R @ np.diag([1.0, 1.0, -1.0])                      # improper, accepted by the code
        else:
            # raises iff the sheared image of the current i_hat or j_hat is not unit (depends on the state)
            R = R @ np.array([[1.0, 0.3, 0], [0, 1.0, 0], [0, 0, 1.0]])
        h["proper"] = False
        c = None if rng.random() < 0.5 else rng.standard_normal(3).tolist()
        h["ops"].append(["R", R.ravel().tolist(), c])
        if not h.get("expect_error"):
            h["ops"] += [["T", rng.standard_normal(3).tolist()], ["S", "mean"], ["Y", 0.3, -0.2, 1.0, None]]
    elif kind == "numx":
        h["probe"] = ["M", int(rng.choice([0, -1, 1])), 1.0, int(rng.choice([0, -2])), 1.0]
        h["ori"] = None
        h["expect_error"] = True
    elif kind == "oricount":
        h["ori"] = [unit_random(rng) for _ in range(n + int(rng.choice([1, 2])))] if rng.random() < 0.6 or n == 1 else \
            [unit_random(rng) for _ in range(n - 1)]
        h["expect_error"] = True
    elif kind == "nonunit_normals":
        h["ori"] = (rng.standard_normal(3) * 2).tolist()
        h["unit_normals"] = False
        h["ops"] += [["Y", 1.0, 0.5, -0.3, [0.1, 0.2, 0.3]], ["Z"]]
    return h


BOUNDARY = [
    # translate -> rotate about a far centre -> reference last -> reset (the shape of tests/test_core.py, longer)
    {"probe": ["M", 5, 1e-3, 1, 0.5], "ori": [0.0, 0.0, 1.0],
     "ops": [["T", [0.01, 0.02, -0.03]], ["Y", 0.3, 0.0, 0.0, [1.0, 1.0, 1.0]], ["S", "last"], ["O"], ["Y", 0.0, 1.1, 0.0, None],
             ["S", "mean"], ["F"], ["Z"], ["T", [1.0, 0.0, 0.0]], ["S", -2], ["Z"]]},
    # single element; pitches irrelevant (nan inside arim)
    {"probe": ["M", 1, 7.0, 1, -7.0], "ori": None, "ops": [["S", "mean"], ["Y", 1.0, 2.0, 3.0, [1.0, 2.0, 3.0]], ["S", 0], ["Z"]]},
    # negative pitches, matrix probe, rotation centre = an element location
    {"probe": ["M", 3, -2.0, 2, -0.5], "ori": [[0.0, 0.0, 1.0]] * 6,
     "ops": [["Y", np.pi / 2, 0.0, 0.0, [2.0, 0.25, 0.0]], ["S", 4], ["O"], ["F"], ["S", "first"], ["Z"]]},
    # two flips = identity; reset twice
    {"probe": ["M", 4, 0.25, 2, 0.5], "ori": [0.0, 0.0, 1.0], "ops": [["F"], ["F"], ["Z"], ["Z"], ["O"], ["O"]]},
    # reset directly after changing the reference element of a rotated probe
    {"probe": ["M", 2, 1.0, 3, -1.0], "ori": [0.6, 0.0, 0.8], "ops": [["Y", 0.1, 0.2, 0.3, None], ["S", "last"], ["Z"], ["S", "mean"], ["Z"]]},
]
# LARGE arrays (2-D matrix arrays of more than a thousand elements, counts that are not multiples of a thousand or of a power
# of two; a long linear array): every element and every normal moves with the probe
BOUNDARY += [
    {"probe": ["M", 32, 0.3e-3, 32, -0.3e-3], "ori": [0.0, 0.0, 1.0],
     "ops": [["Y", 0.3, -0.2, 0.1, None], ["T", [0.01, 0.0, -0.02]], ["S", "last"], ["F"], ["Z"]]},
    {"probe": ["M", 40, 0.5e-3, 30, 0.4e-3], "ori": [0.6, 0.0, 0.8],
     "ops": [["T", [0.002, 0.001, -0.03]], ["Y", 1.1, 0.4, -0.7, [0.01, 0.0, 0.02]], ["S", 1199], ["O"], ["S", "mean"], ["Z"]]},
    {"probe": ["M", 2051, 0.1e-3, 1, 1.0], "ori": None,
     "ops": [["Y", 0.0, 0.5, 0.0, None], ["S", -1], ["Z"], ["F"], ["T", [0.0, 0.0, -0.01]]]},
]
for b in BOUNDARY:
    b.update(exact=False, proper=True, kind="boundary")


# ---------------------------------------------------------------------------
# the comparison of one batch
# ---------------------------------------------------------------------------
def judge(h, out):
    """compare one history (driver answer `out`) -> (number of states, findings);
    finding = (key, what, extra replay fields, failing_input_found)"""
    states, fc_ok = run_impl(h)
    mstates = parse_model(out)
    scale = history_scale(h)
    finds = []
    # ---- spec predicates on the implementation
    spec_bad = []
    if h["proper"] and not isinstance(states[0], tuple):
        spec_bad = spec_checks(h, states, scale)
        if h["probe"][0] == "M":
            spec_bad += matrix_probe_spec(h, states[0], scale)
        for key, msg, step in spec_bad[:3]:
            finds.append(("spec:" + key, f"{msg} (after operation {step} of the history)", dict(step=step, predicate=key), True))
    if fc_ok is False:
        finds.append(("spec:frame_condition", "a motion changed frequency / dimensions / dead_elements / metadata", {}, True))
    if h["proper"] and not h.get("expect_error") and isinstance(states[-1], tuple):
        # theorem history_never_raises: an admissible history runs to its end
        spec_bad.append(("never_raises", "an admissible operation raised", len(states) - 1))
        finds.append(("spec:never_raises", f"an admissible operation raised {states[-1][1]} (operation {len(states) - 1} of the history)",
                      dict(step=len(states) - 1, predicate="history_never_raises"), True))
    if h.get("expect_error") and not isinstance(states[-1], tuple):
        spec_bad.append(("error_expected", "", len(states) - 1))
        finds.append(("spec:error_expected", "an invalid operation (index out of range / non-normalised axes / bad sizes) did not raise",
                      {}, True))
    # ---- correspondence
    found = bool(spec_bad)
    if len(states) != len(mstates):
        finds.append(("tie:length", "implementation and model stop at different operations",
                      dict(impl_steps=len(states), model_steps=len(mstates),
                           impl_last=states[-1] if isinstance(states[-1], tuple) else "state",
                           correspondence="Model.Probe.trace_ops (extracted)"), found))
        return len(states), finds
    for step, (st, mt) in enumerate(zip(states, mstates)):
        if isinstance(st, tuple) or mt == "E":
            if not (isinstance(st, tuple) and mt == "E"):
                finds.append(("tie:error", "implementation and model disagree on whether an operation raises",
                              dict(step=step, impl=st if isinstance(st, tuple) else "state", model=mt if mt == "E" else "state",
                                   correspondence="Model.Probe.apply_op (extracted)"), found))
            break
        mf, raises = model_flat(mt)
        if raises or mf.shape != st["flat"].shape:
            finds.append(("tie:shape", "model state has a different layout (orientations_pcs raises in the model?)",
                          dict(step=step, correspondence="Model.Probe.orientations_pcs"), found))
            break
        if h["exact"]:
            ok = np.array_equal(mf, st["flat"])
        else:
            ok = bool(np.all(np.abs(mf - st["flat"]) <= TOL * max(scale, 1.0)))      # unit vectors: absolute 1e-10
            if ok:
                n3 = 3 * len(st["locs"])
                ok = bool(np.all(np.abs(mf[:n3] - st["flat"][:n3]) <= TOL * scale))
        if not ok:
            idx = int(np.argmax(np.abs(mf - st["flat"])))
            finds.append(("tie:state" + (":exact" if h["exact"] else ""),
                          "implementation state differs from the model state after an operation",
                          dict(step=step, op=jsonable(h["ops"][step - 1]) if step else "construction", flat_index=idx,
                               impl=float(st["flat"][idx]).hex(), model=float(mf[idx]).hex(),
                               layout="locs, oris?, origin, i, j, k, locs_pcs, oris_pcs?, exported(n,3,3)",
                               correspondence="Model.Probe.trace_ops (extracted)"), found))
            break
    return len(states), finds


SHRUNK = [0]


def shrink(h, key):
    """greedy deletion of operations (then of trailing elements' worth of history) while a finding with
    the same key persists; bounded effort"""
    cur = dict(h, ops=list(h["ops"]))
    changed = True
    budget = 200
    while changed and budget > 0:
        changed = False
        for i in range(len(cur["ops"]) - 1, -1, -1):
            cand = dict(cur, ops=cur["ops"][:i] + cur["ops"][i + 1:])
            budget -= 1
            try:
                _, f = judge(cand, drv.run([history_line(cand)])[0])
            except Exception:
                continue
            if any(k == key for k, *_ in f):
                cur = cand
                changed = True
            if budget <= 0:
                break
    return cur


def check_batch(hists):
    global evaluations
    lines = [history_line(h) for h in hists]
    outs = drv.run(lines)
    for h, line, out in zip(hists, lines, outs):
        nstates, finds = judge(h, out)
        evaluations += nstates
        chk.count(kind=h["kind"], nops=len(h["ops"]))
        if h["probe"][0] == "M":
            chk.count(numx=int(h["probe"][1]), numy=int(h["probe"][3]), pitch_signs=f"{np.sign(h['probe'][2]):+.0f}{np.sign(h['probe'][4]):+.0f}")
        for op in h["ops"]:
            chk.count(op=op[0] if op[0] != "S" else "S:" + (op[1] if isinstance(op[1], str) else ("idx" if op[1] >= 0 else "negidx")))
        if finds:
            rep = {"history": jsonable({k: h[k] for k in ("probe", "ori", "ops")}), "kind": h["kind"], "driver_line": line}
            if SHRUNK[0] < 3 and len(h["ops"]) > 1:
                SHRUNK[0] += 1
                small = shrink(h, finds[0][0])
                rep["shrunk_history_for_first_finding"] = jsonable({k: small[k] for k in ("probe", "ori", "ops")})
                rep["shrunk_driver_line"] = history_line(small)
            for key, what, extra, found in finds:
                chk.violation(key, what, dict(rep, **extra), failing_input_found=found)
        nontrivial.add(json.dumps(jsonable([h["probe"][:1] + ([int(h["probe"][1]), int(h["probe"][3])] if h["probe"][0] == "M" else [len(h["probe"][1])]),
                                            [op[0] if op[0] != "S" else str(op[1]) for op in h["ops"]]])))


def matrix_probe_spec(h, st0, scale):
    """make_matrix_probe: element iy*numx+ix at ((ix-(numx-1)/2) px, (iy-(numy-1)/2) py, 0); PCS = GCS"""
    _, nx, px, ny, py = h["probe"]
    nx, ny = int(nx), int(ny)
    px = 0.0 if nx == 1 else px
    py = 0.0 if ny == 1 else py
    want = np.array([[(ix - (nx - 1) / 2) * px, (iy - (ny - 1) / 2) * py, 0.0] for iy in range(ny) for ix in range(nx)])
    bad = []
    if st0["locs"].shape != want.shape or np.max(np.abs(st0["locs"] - want)) > TOL * scale:
        bad.append(("matrix_probe_locations", "make_matrix_probe element positions are not the centred grid", 0))
    if not (np.array_equal(st0["o"], np.zeros(3)) and np.array_equal(st0["i"], [1, 0, 0]) and np.array_equal(st0["j"], [0, 1, 0])
            and np.array_equal(st0["lp"], st0["locs"])):
        bad.append(("initial_pcs", "a new probe's PCS is not the GCS", 0))
    return bad


# ---------------------------------------------------------------------------
# 0. corpus, boundary histories
# ---------------------------------------------------------------------------
corpus = []
for fn in sorted(glob.glob(os.path.join(os.path.dirname(__file__), "..", "corpus", "C16", "*.json"))):
    corpus.append(unjson(json.load(open(fn))["history"]))
check_batch(corpus + BOUNDARY)
samples.append({"boundary": history_line(BOUNDARY[0])})

# ---------------------------------------------------------------------------
# 0'. REFUSED requests inside a history (a matrix that is not a rotation, per-element translation vectors or centres): the
#     request raises and the probe is left exactly as it was (elements, normals AND PCS), so that the history can go on
# ---------------------------------------------------------------------------
def _probe_state(p_):
    return (np.array(p_.locations.coords, copy=True), None if p_.orientations is None else np.array(p_.orientations.coords, copy=True),
            np.array(p_.pcs.origin, copy=True), np.array(p_.pcs.i_hat, copy=True), np.array(p_.pcs.j_hat, copy=True), np.array(p_.pcs.k_hat, copy=True))


for t_ in range(12 if Q else 100):
    nx_, ny_ = int(rng.integers(1, 6)), int(rng.integers(1, 4))
    p_ = arim.Probe.make_matrix_probe(nx_, float(rng.uniform(0.3e-3, 2e-3)), ny_, float(rng.uniform(0.3e-3, 2e-3)), FREQ)
    p_.rotate(arim.geometry.rotation_matrix_ypr(*rng.uniform(-1, 1, 3)), np.array(rng.normal(size=3) * 1e-2))
    p_.translate(rng.normal(size=3) * 1e-2)
    n_ = p_.numelements
    R_ = arim.geometry.rotation_matrix_ypr(*rng.uniform(-1, 1, 3))
    attempts = [("rotate(1.5 * R)", lambda: p_.rotate(1.5 * R_)),
                ("rotate(R + 0.2)", lambda: p_.rotate(R_ + 0.2)),
                ("translate(one vector per element)", lambda: p_.translate(rng.normal(size=(n_, 3)) * 1e-3)),
                ("translate(shape (1, 3))", lambda: p_.translate(rng.normal(size=(1, 3)) * 1e-3)),
                ("rotate(R, one centre per element)", lambda: p_.rotate(R_, rng.normal(size=(n_, 3)) * 1e-3)),
                ("set_reference_element(out of range)", lambda: p_.set_reference_element(n_ + 3))]
    name_, fn_ = attempts[int(rng.integers(0, len(attempts)))]
    before_ = _probe_state(p_)
    try:
        fn_()
        outcome_ = "accepted"
    except Exception as e_:      # noqa: BLE001
        outcome_ = "raised " + type(e_).__name__
    after_ = _probe_state(p_)
    evaluations += 1
    chk.count(refused_request=f"{name_}: {outcome_}")
    if outcome_ != "accepted":
        same_ = all((a_ is None and b_ is None) or np.array_equal(a_, b_) for a_, b_ in zip(before_, after_))
        if not same_:
            what_ = [nm for nm, a_, b_ in zip(("locations", "orientations", "pcs.origin", "pcs.i_hat", "pcs.j_hat", "pcs.k_hat"), before_, after_)
                     if not ((a_ is None and b_ is None) or np.array_equal(a_, b_))]
            chk.violation("refused-request", f"the request {name_} was refused ({outcome_}) but changed {what_}: the PCS is no longer attached to the elements",
                          dict(request=name_, outcome=outcome_, changed=what_, numx=nx_, numy=ny_, locations_before=before_[0], locations_after=after_[0],
                               pcs_origin_before=before_[2], pcs_origin_after=after_[2]), True)
            break

# ---------------------------------------------------------------------------
# 1. random histories (class T), dyadic histories (class E), malformed stream
# ---------------------------------------------------------------------------
N_RANDOM = 1500 if Q else 24000
N_EXACT = 500 if Q else 6000
N_MALFORMED = 200 if Q else 2000
NMAX = 12 if Q else 16
BATCH = 400
todo = ([(False, "r")] * N_RANDOM) + ([(True, "e")] * N_EXACT) + ([(None, "m")] * N_MALFORMED)
exact_hists = []
batch = []
for exact, tag in todo:
    h = gen_malformed(rng) if tag == "m" else gen_history(rng, exact, NMAX)
    if tag == "e":
        exact_hists.append(h)
    batch.append(h)
    if len(batch) == BATCH:
        check_batch(batch)
        batch = []
if batch:
    check_batch(batch)
samples.append({"random": history_line(gen_history(np.random.default_rng(1), False, 3))[:400]})


# ---------------------------------------------------------------------------
# 2. a shard of the dyadic histories evaluated by vm_compute (NumF) inside coqc:
#    implementation's final state vs Model.Probe.run_ops on binary64, bit exact
#    (cross-checks extraction + OCaml driver against the Coq terms themselves)
# ---------------------------------------------------------------------------
def cvec(v):
    return cpair(*[cfloat(x) for x in v])


def cmat(m):
    m = np.asarray(m, float).reshape(3, 3)
    return cpair(*[cvec(r) for r in m])


def cop(op):
    k = op[0]
    if k == "R":
        return f"(OpRotate {cmat(op[1])} {copt(op[2], cvec)})"
    if k == "T":
        return f"(OpTranslate {cvec(op[1])})"
    if k == "O":
        return "OpToO"
    if k == "Z":
        return "OpReset"
    if k == "S":
        r = op[1]
        return "(OpSetRef " + {"first": "RefFirst", "last": "RefLast", "mean": "RefMean"}.get(r, f"(RefIdx {cZ(r) if not isinstance(r, str) else 0})") + ")"
    raise KeyError(k)


def cori(o):
    if o is None:
        return "OriNone"
    if np.ndim(o) == 1:
        return f"(OriOne {cvec(o)})"
    return f"(OriEach {clist([cvec(v) for v in o])})"


if not chk.args.no_proofs or os.environ.get("VERIF_C16_COQ_SHARD"):
    shard = [h for h in exact_hists if h["probe"][0] == "M" and int(h["probe"][1]) * int(h["probe"][3]) <= 8][:60 if Q else 200]
    cases = []
    for h in shard:
        states, _ = run_impl(h)
        st = states[-1]
        assert not isinstance(st, tuple)
        vecs = list(st["locs"]) + ([] if st["oris"] is None else list(st["oris"])) + [st["o"], st["i"], st["j"], st["k"]] + list(st["lp"])
        p = h["probe"]
        cases.append(cpair(cpair(cZ(p[1]), cfloat(p[2]), cZ(p[3]), cfloat(p[4])), cori(h["ori"]),
                           clist([cop(op) for op in h["ops"]]), clist([cvec(v) for v in vecs])))
    imports = ("From Coq Require Import ZArith List PrimFloat.\nFrom Arim Require Import Base.Num Base.NumF Base.ListX Model.Vec3 Model.Probe.\n"
               "Definition veqb (a b : vec3 float) : bool := (PrimFloat.eqb (vx a) (vx b) && PrimFloat.eqb (vy a) (vy b) && PrimFloat.eqb (vz a) (vz b))%bool.\n"
               "Definition final_vecs (p : probe (T:=float)) : list (vec3 float) :=\n"
               "  p_locs p ++ match p_oris p with None => nil | Some os => os end ++\n"
               "  cs_o (p_pcs p) :: cs_i (p_pcs p) :: cs_j (p_pcs p) :: cs_k NumF (p_pcs p) :: locations_pcs NumF p.\n"
               "Definition check_case (c : (Z * float * Z * float) * ori_arg (T:=float) * list (op (T:=float)) * list (vec3 float)) : bool :=\n"
               "  match c with (((nx, px, ny, py), oa), ops, want) =>\n"
               "    match make_matrix_probe NumF nx px ny py oa with None => false | Some p0 =>\n"
               "      match run_ops NumF ops p0 with None => false | Some p => list_eqb veqb (final_vecs p) want end end end.\n")
    bad = chk.coq_failing("probe_cases", imports,
                          "(Z * float * Z * float) * ori_arg (T:=float) * list (op (T:=float)) * list (vec3 float)",
                          cases, "check_case", shard=50)
    evaluations += len(cases)
    for b in bad:
        h = shard[b]
        chk.violation("tie:coq_shard", "final state of a dyadic history differs from vm_compute of Model.Probe.run_ops on binary64",
                      {"history": jsonable({k: h[k] for k in ("probe", "ori", "ops")}), "driver_line": history_line(h),
                       "correspondence": "Model.Probe.run_ops NumF (vm_compute)"}, failing_input_found=False)

# ---- the glue model of the public functions (Model files added later, see manifest text) tied to the library on every run:
#      inputs generated here, the library run on them, the model evaluated on the same inputs by vm_compute inside coqc
import ties.tie_C16 as _tie_glue  # noqa: E402
_tie_n = _tie_glue.run(chk, arim, rng, Q)
chk.cov["glue_model_tie_comparisons"] = int(_tie_n or 0)

chk.finish(
    evaluations=evaluations,
    distinct_nontrivial=len(nontrivial),
    rule=("every state (after construction and after each of the 1..20 operations) of each generated history is one evaluation; "
          "distinct = distinct (probe shape numx x numy or generic size, sequence of operation kinds / reference choices)"),
    samples=samples,
    extra={"tolerance": "1e-10 x extent (class T); bit exact on dyadic histories (class E)",
           "histories": {"random": N_RANDOM, "dyadic_exact": N_EXACT, "malformed": N_MALFORMED, "boundary": len(BOUNDARY),
                         "corpus": len(corpus)}, "exhaustive": False},
    assumptions=["theorems are exact-arithmetic (NumR); rotations in theorems are arbitrary proper matrices, in executions "
                 "yaw-pitch-roll products and the 24 cube rotations",
                 "the state left behind by an exception raised inside reset_position is not modelled"],
)
