"""Tie of the NEW C10 model (coq/theories/Model/ScatData.v) to the real library, on every run of the check.

Every comparison evaluates the model INSIDE coqc (vm_compute on the NumF = binary64 instance, or on Z for the discrete
parts) on the very inputs handed to the real library; the library's answer is passed along as a literal and compared
there (floats with PrimFloat.eqb, i.e. bit for bit up to the sign of zero, both-NaN agreeing; angle interpolation through
pi within a tolerance computed here).  Streams (key of the violation in brackets):

  [lowlevel]   argsort / searchsorted / clip / pyget / take      vs numpy (mergesort argsort, searchsorted, clip, indexing)
  [interp1d]   interp1d NumF kw xs ys f                          vs scipy.interpolate.interp1d(xs, ys[:,None], axis=0, **kw)(f)
  [freq]       freq_interp_matrices + freq_interp_warns          vs arim.scat.ScatFromData.freq_interp_matrices (static)
  [call]       scat_from_data_call (kwargs = arim_default_kwargs when the object's dict is untouched)
                                                                 vs ScatFromData(...)(inc, out, f[, to_compute])
  [init]       sfd_init                                          vs ScatFromData.__init__ / from_dict
  [multi]      as_multi_freq_matrices / as_single_freq_matrices  vs the methods of a Scattering2d subclass built from a spec
  [multi-data] as_multi_freq_matrices over scat_from_data_call   vs ScatFromData.as_multi_freq_matrices
  [grid]       make_angles_grid (P = binary64 pi)                vs arim.scat.make_angles_grid
  [rotate]     rotate_matrices_steps                             vs arim.scat.rotate_matrices on dicts (integer matrices)
  [interpdict] dict_map_values (interp ...)                      vs arim.scat.interpolate_matrices on dicts
  [factory]    scat_factory                                      vs arim.scat.scat_factory (recorded constructor calls, and
                                                                    the real objects' class and _scat_kwargs)
"""
import warnings
from concurrent.futures import ThreadPoolExecutor

import numpy as np

from common import cZ, cfloat, clist, cpair, cbool, copt, cstr

KEYS = ("LL", "LT", "TL", "TT")
PI = float(np.pi)

PRE = r"""From Coq Require Import ZArith List Bool String Ascii PrimFloat.
From Arim Require Import Base.Num Base.NumF Base.ListX Model.ScatMatrix Model.ScatData.
Import ListNotations.
Local Open Scope Z_scope.
Definition fnan_b (a : float) : bool := negb (PrimFloat.eqb a a).
Definition feq (a b : float) : bool := PrimFloat.eqb a b || (fnan_b a && fnan_b b).
Definition fnear (tol a b : float) : bool := PrimFloat.leb (PrimFloat.abs (PrimFloat.sub a b)) tol || (fnan_b a && fnan_b b).
Fixpoint zrange_aux (k : nat) (i : Z) : list Z := match k with O => [] | S k' => i :: zrange_aux k' (i + 1) end.
Definition zrange (n : Z) : list Z := zrange_aux (Z.to_nat n) 0.
Fixpoint all2 {A B} (f : A -> B -> bool) (l : list A) (m : list B) : bool :=
  match l, m with [], [] => true | x :: l', y :: m' => f x y && all2 f l' m' | _, _ => false end.
Definition kidx (k : skey) : nat := match k with LL => 0 | LT => 1 | TL => 2 | TT => 3 end%nat.
Definition key_of (z : Z) : skey := match z with 0 => LL | 1 => LT | 2 => TL | _ => TT end.
Definition sd_of {A} (l : list (option A)) : sdict A := fun k => nth (kidx k) l None.
Definition fmat := mat (T:=float).
Definition mk_mat (cols : Z) (l : list float) : fmat := fun j i => nth (Z.to_nat (j * cols + i)) l PrimFloat.nan.
Definition flat (rows cols : Z) (M : fmat) : list float := map (fun t => M (t / cols) (t mod cols)) (zrange (rows * cols)).
Definition ferr_code (e : ferr) : Z :=
  match e with ErrTooFew => 1 | ErrExtrapolateAndRaise => 2 | ErrBelowRange => 3 | ErrAboveRange => 4 | ErrIndex => 5 end.
Definition fkw := i1kwargs (T:=float).
Definition mats_of (cols : Z) (D : list (option (list (list float)))) : sdict (list fmat) :=
  sd_of (map (option_map (map (mk_mat cols))) D).

(* ---- lowlevel *)
Definition caseL := (Z * list float * float * list Z * list Z)%type.
Definition chkL (c : caseL) : bool :=
  let '(tag, fl, v, zs, ex) := c in
  match tag with
  | 0 => list_eqb Z.eqb (map Z.of_nat (argsort NumF fl)) ex
  | 1 => list_eqb Z.eqb [searchsorted NumF fl v] ex
  | 2 => match zs with [a; lo; hi] => list_eqb Z.eqb [clip a lo hi] ex | _ => false end
  | 3 => match zs with i :: l => list_eqb Z.eqb [pyget (-777) l i] ex | _ => false end
  | _ => match zs with
         | m :: r => list_eqb Z.eqb (take (-777) (skipn (Z.to_nat m) r) (map Z.to_nat (firstn (Z.to_nat m) r))) ex
         | _ => false end
  end.

(* ---- interp1d *)
Definition caseI := (fkw * list float * list float * float * (Z * float))%type.
Definition chkI (c : caseI) : bool :=
  let '(kw, xs, ys, f, (code, v)) := c in
  match interp1d NumF kw xs ys f with inl e => code =? ferr_code e | inr r => (code =? 0) && feq r v end.

(* ---- freq_interp_matrices *)
Definition caseF := (fkw * list float * float * (Z * Z) * list (option (list (list float)))
                     * (Z * list (option (list float)) * bool))%type.
Definition chkF (c : caseF) : bool :=
  let '(kw, freqs, f, (rows, cols), D, (code, res, warn)) := c in
  match freq_interp_matrices NumF kw freqs f (mats_of cols D) with
  | inl e => code =? ferr_code e
  | inr d => (code =? 0)
             && list_eqb (option_eqb (list_eqb feq)) (map (fun k => option_map (flat rows cols) (d k)) SCAT_KEYS) res
             && Bool.eqb warn (freq_interp_warns NumF freqs f)
  end.

(* ---- ScatFromData.__call__ *)
Definition caseC := (Z * fkw * list float * float * list (option (list (list float))) * list (float * float)
                     * float * float * (Z * list (option (list float))))%type.
Definition chkC (c : caseC) : bool :=
  let '(n, kw, freqs, f, D, pts, P, tol, (code, res)) := c in
  let Dm := mats_of n D in
  let outs := map (fun p => scat_from_data_call NumF P n kw freqs Dm (fst p) (snd p) f) pts in
  match outs with
  | [] => false
  | inl e :: _ => code =? ferr_code e
  | inr _ :: _ =>
      (code =? 0) && forallb (fun k =>
        match nth (kidx k) res None with
        | None => forallb (fun o => match o with inr d => match d k with None => true | Some _ => false end
                                               | inl _ => false end) outs
        | Some vals => all2 (fun o v => match o with inr d => match d k with Some m => fnear tol m v | None => false end
                                                    | inl _ => false end) outs vals
        end) SCAT_KEYS
  end.

(* ---- ScatFromData.__init__ *)
Definition caseS := (list Z * list (option (list Z)) * (Z * Z * Z))%type.
Definition init_code (e : init_err) : Z :=
  match e with EFreqNot1d => 1 | ENoMatrix => 2 | EShapesDiffer => 3 | EWrongShape => 4 end.
Definition chkS (c : caseS) : bool :=
  let '(fs, shapes, (code, a, b)) := c in
  match sfd_init (map Z.to_nat fs) (sd_of (map (option_map (map Z.to_nat)) shapes)) with
  | inl e => code =? init_code e
  | inr (nf, na) => (code =? 0) && (Z.of_nat nf =? a) && (Z.of_nat na =? b)
  end.

(* ---- as_multi_freq_matrices / as_single_freq_matrices on a scatterer given by a spec *)
Definition coef := (float * float * float)%type.
Definition sspec := (Z * Z * coef * coef)%type.      (* presence mode, dtype rule, real part, imaginary part *)
Definition lin (c : coef) (x y f : float) : float :=
  let '(a, b, c0) := c in PrimFloat.add (PrimFloat.add (PrimFloat.mul a x) (PrimFloat.mul b y)) (PrimFloat.mul c0 f).
Definition z3 : coef := (PrimFloat.zero, PrimFloat.zero, PrimFloat.zero).
Definition S_of (specs : list sspec) (f0 : float) : scat_call (T:=float) := fun inc out f tc k =>
  let '(mode, rule, cr, ci) := nth (kidx k) specs (0, 0, z3, z3) in
  if (mode =? 0) || ((mode =? 1) && negb (existsb (skey_eqb k) tc)) then None else
  let cplx := match rule with 0 => false | 1 => true | 2 => negb (PrimFloat.eqb f f0) | _ => PrimFloat.eqb f f0 end in
  Some (if cplx then C128 else F64,
        fun j i => (lin cr (inc j i) (out j i) f, if cplx then lin ci (inc j i) (out j i) f else PrimFloat.zero)).
Definition dt_code (d : dtype) : Z := match d with F64 => 0 | C128 => 1 end.
Definition cpair_eq (a b : float * float) : bool := feq (fst a) (fst b) && feq (snd a) (snd b).
Definition flat3 (len n : Z) (a : arr3 (T:=float)) : list (float * float) :=
  map (fun t => a (Z.to_nat (t / (n * n))) ((t mod (n * n)) / n) (t mod n)) (zrange (len * n * n)).
Definition flatc (n : Z) (a : cmat (T:=float)) : list (float * float) := map (fun t => a (t / n) (t mod n)) (zrange (n * n)).
Definition res_eq (eqv : float * float -> float * float -> bool) :=
  list_eqb (option_eqb (fun x y : Z * list (float * float) => (fst x =? fst y) && list_eqb eqv (snd x) (snd y))).
(* n, specs, f0, P, freqs, to_compute, single?, (code, key, res): code 0 dict, 1 None, 2 KeyError (key -1 = any) *)
Definition caseM := (Z * list sspec * float * float * list float * list Z * bool
                     * (Z * Z * list (option (Z * list (float * float)))))%type.
Definition chkM (c : caseM) : bool :=
  let '(n, specs, f0, P, freqs, tc, single, (code, key, res)) := c in
  if single then
    (code =? 0) && res_eq cpair_eq
      (map (fun k => option_map (fun dm : dtype * cmat (T:=float) => (dt_code (fst dm), flatc n (snd dm)))
                       (as_single_freq_matrices NumF (S_of specs f0) P (hd PrimFloat.zero freqs) n (map key_of tc) k)) SCAT_KEYS) res
  else
  match as_multi_freq_matrices NumF (S_of specs f0) P freqs n (map key_of tc) with
  | inl (MKeyError k) => (code =? 2) && ((key =? -1) || (key =? Z.of_nat (kidx k)))
  | inr None => code =? 1
  | inr (Some o) =>
      (code =? 0) && res_eq cpair_eq
        (map (fun k => option_map (fun da : dtype * arr3 (T:=float) =>
                                     (dt_code (fst da), flat3 (Z.of_nat (List.length freqs)) n (snd da))) (o k)) SCAT_KEYS) res
  end.

(* ---- ScatFromData.as_multi_freq_matrices: the scatterer is scat_from_data_call on the grids (real data, dtype F64) *)
Definition S_data (P : float) (n : Z) (kw : fkw) (freqs : list float) (D : sdict (list fmat)) : scat_call (T:=float) :=
  fun inc out f tc k =>
    match D k with
    | None => None
    | Some _ => Some (F64, fun j i =>
        (match scat_from_data_call NumF P n kw freqs D (inc j i) (out j i) f with
         | inr d => match d k with Some v => v | None => PrimFloat.nan end
         | inl _ => PrimFloat.nan end, PrimFloat.zero))
    end.
Definition caseD := (Z * fkw * list float * list (option (list (list float))) * float * float * list float * list Z
                     * (Z * list (option (Z * list (float * float)))))%type.
Definition chkD (c : caseD) : bool :=
  let '(n, kw, freqs, D, P, tol, newf, tc, (code, res)) := c in
  match as_multi_freq_matrices NumF (S_data P n kw freqs (mats_of n D)) P newf n (map key_of tc) with
  | inl (MKeyError _) => code =? 2
  | inr None => code =? 1
  | inr (Some o) =>
      (code =? 0) && res_eq (fun a b => fnear tol (fst a) (fst b) && feq (snd a) (snd b))
        (map (fun k => option_map (fun da : dtype * arr3 (T:=float) =>
                                     (dt_code (fst da), flat3 (Z.of_nat (List.length newf)) n (snd da))) (o k)) SCAT_KEYS) res
  end.

(* ---- make_angles_grid *)
Definition caseG := (Z * float * list float * list float)%type.
Definition chkG (c : caseG) : bool :=
  let '(n, P, inc, out) := c in
  let '(a, b) := make_angles_grid NumF P n in list_eqb feq (flat n n a) inc && list_eqb feq (flat n n b) out.

(* ---- rotate_matrices on dicts (integer matrices) / interpolate_matrices on dicts *)
Definition zmat (n : Z) (l : list Z) : Z -> Z -> Z := fun j i => nth (Z.to_nat (j * n + i)) l (-999).
Definition caseR := (Z * Z * list (string * list Z) * list (string * list Z))%type.
Definition chkR (c : caseR) : bool :=
  let '(n, k, items, ex) := c in
  list_eqb (pair_eqb String.eqb (list_eqb Z.eqb))
    (map (fun kv : string * (Z -> Z -> Z) => (fst kv, map (fun t => snd kv (t / n) (t mod n)) (zrange (n * n))))
         (rotate_matrices_steps n k (map (fun kv : string * list Z => (fst kv, zmat n (snd kv))) items))) ex.
Definition caseT := (Z * float * float * float * float * list (string * list float) * list (string * float))%type.
Definition chkT (c : caseT) : bool :=
  let '(n, P, tol, a, b, items, ex) := c in
  list_eqb (pair_eqb String.eqb (fnear tol))
    (dict_map_values (fun M : fmat => interp NumF P n M a b) (map (fun kv : string * list float => (fst kv, mk_mat n (snd kv))) items)) ex.

(* ---- scat_factory *)
Definition ctor_code (c : scat_ctor) : Z :=
  match c with CLoadScat => 0 | CCrackCentreScat => 1 | CCrackTipScat => 2 | CSdhScat => 3 | CPointSourceScat => 4 end.
Local Open Scope string_scope.
Definition ctor_params (c : scat_ctor) : list string :=
  match c with
  | CLoadScat => ["filename"; "format"]
  | CCrackCentreScat => ["crack_length"; "longitudinal_vel"; "transverse_vel"; "density"; "nodes_per_wavelength"]
  | CCrackTipScat => ["longitudinal_vel"; "transverse_vel"; "rayleigh_vel"]
  | CSdhScat => ["radius"; "longitudinal_vel"; "transverse_vel"; "min_terms"; "term_factor"]
  | CPointSourceScat => ["longitudinal_vel"; "transverse_vel"]
  end.
Local Close Scope string_scope.
(* code 0: the recorded call (callee, positional, keywords in order); 1: NotImplementedError with the lowered kind;
   2: the real object: class and the arguments bound to parameter names (ekw = the supplied entries of _scat_kwargs) *)
Definition caseA := (string * (Z * Z * Z) * list Z * list (string * Z) * (Z * string * Z * list Z * list (string * Z)))%type.
Definition chkA (c : caseA) : bool :=
  let '(kind, (vl, vt, rho), args, kwargs, (code, msg, ctor, eargs, ekw)) := c in
  match scat_factory kind (mk_material vl vt rho) args kwargs with
  | inl s => (code =? 1) && String.eqb s msg
  | inr cc =>
      if code =? 0 then
        (ctor_code (c_ctor cc) =? ctor) && list_eqb Z.eqb (c_args cc) eargs
        && list_eqb (pair_eqb String.eqb Z.eqb) (c_kwargs cc) ekw
      else if code =? 2 then
        let bound := combine (ctor_params (c_ctor cc)) (c_args cc) ++ c_kwargs cc in
        (ctor_code (c_ctor cc) =? ctor) && (Z.of_nat (List.length bound) =? Z.of_nat (List.length ekw))
        && forallb (fun e : string * Z => option_eqb Z.eqb (lookup String.eqb (fst e) bound) (Some (snd e))) ekw
      else false
  end.

(* ---- the model's answers, printed into the replay file of a disagreement *)
Definition showL (c : caseL) :=
  let '(tag, fl, v, zs, ex) := c in
  match tag with
  | 0 => map Z.of_nat (argsort NumF fl)
  | 1 => [searchsorted NumF fl v]
  | 2 => match zs with [a; lo; hi] => [clip a lo hi] | _ => [] end
  | 3 => match zs with i :: l => [pyget (-777) l i] | _ => [] end
  | _ => match zs with m :: r => take (-777) (skipn (Z.to_nat m) r) (map Z.to_nat (firstn (Z.to_nat m) r)) | _ => [] end
  end.
Definition showI (c : caseI) := let '(kw, xs, ys, f, _) := c in interp1d NumF kw xs ys f.
Definition showF (c : caseF) :=
  let '(kw, freqs, f, (rows, cols), D, _) := c in
  match freq_interp_matrices NumF kw freqs f (mats_of cols D) with
  | inl e => inl e
  | inr d => inr (map (fun k => option_map (flat rows cols) (d k)) SCAT_KEYS, freq_interp_warns NumF freqs f)
  end.
Definition showC (c : caseC) :=
  let '(n, kw, freqs, f, D, pts, P, tol, _) := c in
  map (fun p => match scat_from_data_call NumF P n kw freqs (mats_of n D) (fst p) (snd p) f with
                | inl e => inl e | inr d => inr (map d SCAT_KEYS) end) pts.
Definition showS (c : caseS) :=
  let '(fs, shapes, _) := c in
  match sfd_init (map Z.to_nat fs) (sd_of (map (option_map (map Z.to_nat)) shapes)) with
  | inl e => inl e | inr (nf, na) => inr (Z.of_nat nf, Z.of_nat na) end.
Definition showM (c : caseM) :=
  let '(n, specs, f0, P, freqs, tc, single, _) := c in
  if single then
    inr (Some (map (fun k => option_map (fun dm : dtype * cmat (T:=float) => (fst dm, flatc n (snd dm)))
                       (as_single_freq_matrices NumF (S_of specs f0) P (hd PrimFloat.zero freqs) n (map key_of tc) k)) SCAT_KEYS))
  else
  match as_multi_freq_matrices NumF (S_of specs f0) P freqs n (map key_of tc) with
  | inl e => inl e
  | inr None => inr None
  | inr (Some o) => inr (Some (map (fun k => option_map (fun da : dtype * arr3 (T:=float) =>
                                     (fst da, flat3 (Z.of_nat (List.length freqs)) n (snd da))) (o k)) SCAT_KEYS))
  end.
Definition showD (c : caseD) :=
  let '(n, kw, freqs, D, P, tol, newf, tc, _) := c in
  match as_multi_freq_matrices NumF (S_data P n kw freqs (mats_of n D)) P newf n (map key_of tc) with
  | inl e => inl e
  | inr None => inr None
  | inr (Some o) => inr (Some (map (fun k => option_map (fun da : dtype * arr3 (T:=float) =>
                                     (fst da, map fst (flat3 (Z.of_nat (List.length newf)) n (snd da)))) (o k)) SCAT_KEYS))
  end.
Definition showG (c : caseG) := let '(n, P, _, _) := c in let '(a, b) := make_angles_grid NumF P n in (flat n n a, flat n n b).
Definition showR (c : caseR) :=
  let '(n, k, items, _) := c in
  map (fun kv : string * (Z -> Z -> Z) => (fst kv, map (fun t => snd kv (t / n) (t mod n)) (zrange (n * n))))
      (rotate_matrices_steps n k (map (fun kv : string * list Z => (fst kv, zmat n (snd kv))) items)).
Definition showT (c : caseT) :=
  let '(n, P, tol, a, b, items, _) := c in
  dict_map_values (fun M : fmat => interp NumF P n M a b) (map (fun kv : string * list float => (fst kv, mk_mat n (snd kv))) items).
Definition showA (c : caseA) :=
  let '(kind, (vl, vt, rho), args, kwargs, _) := c in scat_factory kind (mk_material vl vt rho) args kwargs.
"""


# ---------------------------------------------------------------------------------------------------------------------
# literals
# ---------------------------------------------------------------------------------------------------------------------
def fl(xs):
    return clist([cfloat(float(x)) for x in xs])


def zl(xs):
    return clist([cZ(int(x)) for x in xs])


def kw_term(be, fill):
    """be: None / True / False; fill: 'extrapolate' | ('both', v) | ('pair', below, above) with float values."""
    be_s = "None" if be is None else f"(Some {cbool(be)})"
    if fill == "extrapolate":
        fs = "(@Extrapolate float)"
    elif fill[0] == "both":
        fs = f"(FillBoth {cfloat(fill[1])})"
    else:
        fs = f"(FillPair {cfloat(fill[1])} {cfloat(fill[2])})"
    return f"(mk_kw {be_s} {fs})"


DEFAULT_KW = "(@arim_default_kwargs float)"


def kw_of_dict(d, part="re"):
    """Translate an actual interp_freq_kwargs dict (only the modelled options) to (be, fill)."""
    be = d.get("bounds_error", None)
    be = None if be is None else bool(be)
    if "fill_value" not in d:
        fill = ("both", float("nan") if part == "re" else 0.0)
    else:
        fv = d["fill_value"]
        pick = (lambda z: complex(z).real) if part == "re" else (lambda z: complex(z).imag)
        if isinstance(fv, str):
            assert fv == "extrapolate"
            fill = "extrapolate"
        elif isinstance(fv, tuple):
            fill = ("pair", pick(fv[0]), pick(fv[1]))
        else:
            fill = ("both", pick(fv))
    return be, fill


def Dlit(D, part):
    """D: dict key -> ndarray (nf, r, c); part 're'/'im' -> list over KEYS of option (list of flat matrices)."""
    items = []
    for k in KEYS:
        if k not in D or D[k] is None:
            items.append("None")
        else:
            a = np.asarray(D[k])
            a = a.real if part == "re" else a.imag
            items.append("(Some " + clist([fl(np.asarray(m, float).ravel()) for m in a]) + ")")
    return clist(items)


ERR_CODES = (("at least", 1), ("Cannot extrapolate and raise", 2), ("below the interpolation range", 3),
             ("above the interpolation range", 4))


def classify(e):
    """error kind of an exception raised by the interpolation route (99 = a kind the model does not have)."""
    if isinstance(e, IndexError):
        return 5
    if isinstance(e, ValueError):
        for frag, code in ERR_CODES:
            if frag in str(e):
                return code
    return 99


class Stream:
    def __init__(self, key, ctype, check, corr):
        self.key, self.ctype, self.check, self.corr = key, ctype, check, corr
        self.lits, self.replays = [], []

    def add(self, lit, replay):
        self.lits.append(lit)
        self.replays.append(replay)


# ---------------------------------------------------------------------------------------------------------------------
# generators
# ---------------------------------------------------------------------------------------------------------------------
def dyadic(rng, lo, hi, den, size=None):
    return rng.integers(lo * den, hi * den + 1, size=size) / float(den)


def gen_freqs(rng, nf, kind):
    """nf distinct frequencies; kind: 'dyadic' (multiples of 1/4), 'mhz' (dyadic multiples of 2^-2 MHz-like), 'random'."""
    if kind == "random":
        v = np.unique(rng.uniform(0.5, 10.0, nf))
        while len(v) < nf:
            v = np.unique(np.concatenate([v, rng.uniform(0.5, 10.0, nf)]))[:nf]
    else:
        v = rng.choice(np.arange(-6, 60), size=nf, replace=False) / 4.0
        if kind == "mhz":
            v = (v + 2.0) * 2.0 ** 18
    order = rng.integers(0, 4)
    v = np.sort(v)
    if order == 1:
        v = v[::-1].copy()
    elif order >= 2:
        v = v[rng.permutation(nf)]
    return np.asarray(v, float)


def gen_newfreq(rng, freqs, kind):
    lo, hi = float(np.min(freqs)), float(np.max(freqs))
    span = (hi - lo) if hi > lo else 1.0
    r = rng.integers(0, 9)
    if r == 0:
        return float(rng.choice(freqs))
    if r == 1:
        return lo
    if r == 2:
        return hi
    if r == 3:
        return lo - span * float(rng.integers(1, 9)) / 4.0
    if r == 4:
        return hi + span * float(rng.integers(1, 9)) / 4.0
    if kind == "random":
        return float(rng.uniform(lo - 0.3 * span, hi + 0.3 * span))
    s = np.sort(freqs)
    if len(s) >= 2 and r <= 6:
        i = int(rng.integers(0, len(s) - 1))
        return float(s[i] + (s[i + 1] - s[i]) * float(rng.integers(1, 8)) / 8.0)
    return float(lo + span * float(rng.integers(-8, 41)) / 16.0)


def gen_kw(rng, cplx_ok=False, errors="some"):
    """A combination of the modelled interp1d options -> (python kwargs dict, spelling)."""
    d = {}
    r = rng.integers(0, 10)
    be = [None, None, True, False, False, False, False, "absent", "absent", "absent"][r]
    if be != "absent":
        d["bounds_error"] = be if rng.random() < 0.7 or be is None else np.bool_(be)
    f = rng.integers(0, 10)
    if f <= 3:
        d["fill_value"] = "extrapolate"
    elif f <= 5:
        v = float(rng.integers(-40, 41)) / 4.0
        sp = rng.integers(0, 4)
        d["fill_value"] = [v, np.float64(v), np.asarray(v), (int(v) if v == int(v) else v)][sp]
        if cplx_ok and rng.random() < 0.5:
            d["fill_value"] = complex(v, float(rng.integers(-8, 9)) / 2.0)
    elif f <= 7:
        b, a = float(rng.integers(-40, 41)) / 4.0, float(rng.integers(-40, 41)) / 4.0
        d["fill_value"] = (b, a) if not (cplx_ok and rng.random() < 0.5) else (complex(b, 1.5), complex(a, -2.25))
    elif f == 8:
        d["fill_value"] = float("nan")
    # f == 9: fill_value absent (scipy default nan)
    extra = rng.integers(0, 6)
    if extra == 0:
        d["kind"] = "linear"
    elif extra == 1:
        d["assume_sorted"] = False
    elif extra == 2:
        d["copy"] = True
    if rng.random() < 0.5:
        d = dict(reversed(list(d.items())))
    return d


def model_kw(d, part="re"):
    return kw_term(*kw_of_dict({k: v for k, v in d.items() if k in ("bounds_error", "fill_value")}, part))


def gen_data(rng, nf, r, c, keys, dtype):
    D = {}
    for k in keys:
        a = rng.integers(-800, 801, size=(nf, r, c)) / 8.0
        if dtype == "complex":
            a = a + 1j * (rng.integers(-800, 801, size=(nf, r, c)) / 8.0)
        elif dtype == "int":
            a = rng.integers(-100, 101, size=(nf, r, c)).astype(np.int64)
        elif dtype == "f32":
            a = a.astype(np.float32)
        elif dtype == "fortran":
            a = np.asfortranarray(a)
        elif dtype == "random":
            a = rng.standard_normal((nf, r, c)) * 10
        D[k] = a
    return D


def rand_keys(rng, allow_empty=False):
    while True:
        ks = [k for k in KEYS if rng.random() < 0.55]
        if ks or (allow_empty and rng.random() < 0.3):
            break
    ks = list(ks)
    rng.shuffle(ks)
    return ks


# ---------------------------------------------------------------------------------------------------------------------
# stream builders (each runs the REAL library and records one Coq case per comparison)
# ---------------------------------------------------------------------------------------------------------------------
def build_lowlevel(chk, rng, N):
    st = Stream("lowlevel", "caseL", "chkL",
                "Model.ScatData argsort/searchsorted/clip/pyget/take vs np.argsort(kind='mergesort')/np.searchsorted/ndarray.clip/indexing/np.take")

    def add(tag, fls, v, zs, ex, what):
        st.add(cpair(cZ(tag), fl(fls), cfloat(v), zl(zs), zl(ex)),
               {"function": what, "floats": list(map(float, fls)), "value": float(v), "ints": list(map(int, zs)), "library": list(map(int, ex))})
        chk.count(tie_C10=f"lowlevel:{what}")

    fixed = [[3., 1., 2., 1.], [5., 4., 4., 3., 5.], [], [1.], [2., 2., 2.], [0.0, -0.0, 0.0]]
    for i in range(N):
        xs = fixed[i] if i < len(fixed) else list(rng.integers(-6, 7, size=int(rng.integers(0, 9))) / 2.0)   # many ties
        add(0, xs, 0.0, [], np.argsort(np.asarray(xs, float), kind="mergesort"), "argsort")
    for i in range(N):
        xs = np.sort(rng.integers(-8, 9, size=int(rng.integers(0, 8))) / 2.0)
        v = float(rng.integers(-20, 21)) / 4.0
        if i < 4:
            xs, v = np.array([1., 2., 3.]), [2., 2.5, 0., 7.][i]
        add(1, xs, v, [], [int(np.searchsorted(xs, v))], "searchsorted")
    for i in range(N):
        a, lo, hi = (int(x) for x in rng.integers(-5, 9, size=3))
        if i < 3:
            a, lo, hi = [(0, 1, 2), (3, 1, 2), (5, 1, 0)][i]
        add(2, [], 0.0, [a, lo, hi], [int(np.array(a).clip(lo, hi))], "clip")
    for i in range(N):
        ln = int(rng.integers(1, 8))
        l = [int(x) for x in rng.integers(-50, 51, size=ln)]
        idx = int(rng.integers(-ln, ln))
        lib = l[idx] if rng.random() < 0.5 else int(np.array(l)[idx])
        add(3, [], 0.0, [idx] + l, [lib], "pyget")
    for i in range(N // 2):
        ln = int(rng.integers(1, 8))
        l = [int(x) for x in rng.integers(-50, 51, size=ln)]
        ind = [int(x) for x in rng.integers(0, ln, size=int(rng.integers(0, 7)))]
        lib = np.take(np.array(l), np.array(ind, dtype=int), axis=0) if rng.random() < 0.5 else np.array(l)[np.array(ind, dtype=int)]
        add(4, [], 0.0, [len(ind)] + ind + l, lib, "take")
    return st


def _lib_interp1d(xs, ys, f, kw):
    from scipy import interpolate
    try:
        with np.errstate(all="ignore"):
            v = interpolate.interp1d(np.asarray(xs, float), np.asarray(ys, float).reshape(len(ys), 1), axis=0, **kw)(f)
        return 0, float(np.asarray(v).ravel()[0])
    except (ValueError, IndexError) as e:
        if len(xs) == 0 and isinstance(e, ValueError):
            # ErrTooFew is "the ValueError of the constructor on an empty x"; this scipy words it "cannot reshape array of size 0"
            # (raised by _reshape_yi before the 'at least 1 entries' test); the kind is what is compared
            return 1, 0.0
        return classify(e), 0.0


def build_interp1d(chk, rng, N):
    st = Stream("interp1d", "caseI", "chkI",
                "Model.ScatData.interp1d NumF vs scipy.interpolate.interp1d(xs, ys[:, None], axis=0, **kw)(f) (the call of arim/scat.py:1408)")
    d0 = dict(bounds_error=False, fill_value="extrapolate")
    fixed = [(d0, [3., 1., 2.], [30., 10., 25.], f) for f in (2.5, 0., 4., 1., 2., 3., 1.5)]
    fixed += [(dict(fill_value=(7., 9.)), [3., 1., 2.], [30., 10., 25.], f) for f in (4., .5, 1., 3.)]
    fixed += [(dict(bounds_error=False, fill_value=(7., 9.)), [3., 1., 2.], [30., 10., 25.], f) for f in (4., .5, 1., 3.)]
    fixed += [(dict(bounds_error=True, fill_value=0.), [3., 1., 2.], [30., 10., 25.], f) for f in (4., .5, 2.)]
    fixed += [(dict(bounds_error=True, fill_value="extrapolate"), [3., 1., 2.], [30., 10., 25.], 2.),
              (d0, [4., 8.], [1., 5.], 5.), (d0, [], [], 1.), (dict(fill_value=1.), [], [], 1.), (d0, [2.], [7.], 2.), (d0, [2.], [7.], 3.)]
    for i in range(N):
        if i < len(fixed):
            kw, xs, ys, f = fixed[i]
            fam = "fixed"
        else:
            r = rng.random()
            if r < 0.08:
                nf, fam = int(rng.integers(0, 2)), "length 0/1"
            elif r < 0.2:
                nf, fam = int(rng.integers(2, 7)), "repeated frequencies"
            else:
                nf, fam = int(rng.integers(2, 8)), "distinct"
            kind = "random" if rng.random() < 0.25 else "dyadic"
            xs = gen_freqs(rng, nf, kind) if nf else np.zeros(0)
            if fam == "repeated frequencies":
                xs[int(rng.integers(0, nf))] = xs[int(rng.integers(0, nf))]
            ys = (rng.standard_normal(nf) * 7) if kind == "random" else rng.integers(-400, 401, size=nf) / 8.0
            f = gen_newfreq(rng, xs, kind) if nf else 1.0
            kw = gen_kw(rng)
        code, v = _lib_interp1d(xs, ys, f, kw)
        st.add(cpair(model_kw(kw), fl(xs), fl(ys), cfloat(f), cpair(cZ(code), cfloat(v))),
               {"xs": list(map(float, xs)), "ys": list(map(float, ys)), "new_freq": float(f), "kwargs": repr(kw),
                "library": {"code": code, "value": v}})
        chk.count(tie_C10=f"interp1d:{fam}:{['value', 'ErrTooFew', 'ErrExtrapolateAndRaise', 'ErrBelowRange', 'ErrAboveRange', 'ErrIndex'][code] if code < 6 else 'other error'}")
    return st


def _res_lit(res, shape_keys, part):
    """res: dict key -> ndarray, -> list over KEYS of option flat list (real or imaginary part); keys not in shape_keys
    are reported as absent for this part."""
    items = []
    for k in KEYS:
        if k in res and k in shape_keys:
            a = np.asarray(res[k])
            a = a.real if part == "re" else a.imag
            items.append("(Some " + fl(np.asarray(a, float).ravel()) + ")")
        else:
            items.append("None")
    return clist(items)


def build_freq(chk, arim, rng, N):
    import arim.scat as scat
    F = scat.ScatFromData.freq_interp_matrices
    st = Stream("freq", "caseF", "chkF",
                "Model.ScatData.freq_interp_matrices / freq_interp_warns NumF vs arim.scat.ScatFromData.freq_interp_matrices (static method)")
    d0 = dict(bounds_error=False, fill_value="extrapolate")

    def Mk(k):
        return np.array([[100 * (k + 1) + 10 * j + i + k * k * (j + 1) for i in range(2)] for j in range(2)], float)
    D1 = {"LL": np.array([Mk(0), Mk(1), Mk(2)]), "TT": np.array([Mk(2), Mk(1), Mk(0)])}
    D2 = {"LT": np.array([Mk(1)])}
    fixed = [(d0, [3., 1., 2.], 2.5, D1), (d0, [3., 1., 2.], 1., D1), (d0, [3., 1., 2.], 6., D1), (dict(fill_value=0.), [3., 1., 2.], 6., D1),
             (dict(fill_value=0.), [3., 1., 2.], 6., {}), (dict(bounds_error=True, fill_value="extrapolate"), [5.], 9., D2),
             (dict(bounds_error=True, fill_value="extrapolate"), [5.], 5., D2), (d0, [], 9., D2),
             (dict(bounds_error=True, fill_value="extrapolate"), [3., 1., 2.], 2., D1)]
    for i in range(N):
        if i < len(fixed):
            kw, freqs, f, D = fixed[i]
            freqs = np.asarray(freqs, float)
            fam, r_, c_ = "fixed", 2, 2
        else:
            u = rng.random()
            r_, c_ = int(rng.integers(1, 4)), int(rng.integers(1, 4))
            dtype = ["float", "float", "complex", "complex", "int", "f32", "fortran", "random"][int(rng.integers(0, 8))]
            kind = "random" if dtype == "random" else ("mhz" if rng.random() < 0.2 else "dyadic")
            keys = rand_keys(rng, allow_empty=True)
            if u < 0.04:
                nf, fam = 0, "no frequency"
            elif u < 0.2:
                nf, fam = 1, "one frequency"
            elif u < 0.27:
                nf, fam = int(rng.integers(2, 6)), "repeated frequencies"
            else:
                nf, fam = int(rng.integers(2, 7)), "several frequencies"
            freqs = gen_freqs(rng, nf, kind) if nf else np.zeros(0)
            if fam == "repeated frequencies":
                freqs[int(rng.integers(0, nf))] = freqs[int(rng.integers(0, nf))]
            D = gen_data(rng, max(nf, 1) if nf else int(rng.integers(0, 2)), r_, c_, keys, dtype)
            if nf == 1 and rng.random() < 0.15 and keys:
                D[keys[0]] = D[keys[0]][:0]            # matrix[0] of an empty array
                fam = "one frequency, empty matrix"
            elif nf == 1 and rng.random() < 0.3 and keys:
                D = gen_data(rng, int(rng.integers(2, 4)), r_, c_, keys, dtype)     # the static method does not compare the lengths: matrix[0]
                fam = "one frequency, several matrices"
            f = gen_newfreq(rng, freqs, kind) if nf else 1.0
            if nf == 1 and rng.random() < 0.4:
                f = float(freqs[0])
            kw = gen_kw(rng, cplx_ok=(dtype == "complex"))
            if dtype == "int" and rng.random() < 0.5 and kind == "dyadic" and np.all(freqs == np.round(freqs)):
                freqs = freqs.astype(np.int64)
        # spelling of the arguments
        sp = int(rng.integers(0, 4))
        freqs_arg = freqs if sp != 1 else list(freqs)
        D_arg = dict(D)
        if sp == 2:
            D_arg = dict(reversed(list(D.items())))
            D_arg["frequencies"] = freqs           # a foreign key is ignored
        f_arg = f if sp != 3 else np.float64(f)
        code, res, warned = 0, {}, False
        try:
            with warnings.catch_warnings(record=True) as w, np.errstate(all="ignore"):
                warnings.simplefilter("always")
                res = F(freqs_arg, f_arg, D_arg, **kw)
            warned = any(issubclass(x.category, arim.exceptions.ArimWarning) for x in w)
        except (ValueError, IndexError, KeyError, TypeError) as e:
            code = classify(e)
        cplx_keys = [k for k in D if np.iscomplexobj(D[k])]
        rows_cols = cpair(cZ(r_), cZ(c_))
        parts = [("re", list(D))] + ([("im", cplx_keys)] if cplx_keys else [])
        for part, pk in parts:
            Dp = {k: D[k] for k in pk}
            exp = cpair(cZ(code), _res_lit(res, pk, part) if code == 0 else "[]", cbool(warned))
            st.add(cpair(model_kw(kw, part), fl(np.asarray(freqs, float)), cfloat(f), rows_cols, Dlit(Dp, part), exp),
                   {"frequencies": np.asarray(freqs, float), "new_freq": float(f), "kwargs": repr(kw), "matrices": {k: np.asarray(v) for k, v in D.items()},
                    "part": part, "library": {"code": code, "result": {k: np.asarray(v) for k, v in res.items()} if code == 0 else None, "warned": warned}})
        if code == 0 and set(res) != set(D):
            chk.violation("tie:freq-keys", "freq_interp_matrices returns other keys than it was given",
                          {"given": list(D), "returned": list(res), "correspondence": st.corr}, failing_input_found=False)
        chk.count(tie_C10=f"freq:{fam}:{'ok' if code == 0 else 'error %d' % code}")
    return st


# ---------------------------------------------------------------------------------------------------------------------
def _evaluate(chk, st):
    """one stream through coqc; returns the failing indices"""
    if not st.lits:
        return []
    import os
    import time
    t0 = time.time()
    try:
        return _evaluate1(chk, st)
    finally:
        if os.environ.get("TIE_HIST"):
            print(f"#   coqc [{st.key}] {len(st.lits)} cases {time.time() - t0:.1f}s", flush=True)


def _evaluate1(chk, st):
    return chk.coq_failing(f"tie_C10_{st.key.replace('-', '_')}", PRE, st.ctype, st.lits, st.check, shard=150, jobs=4)


def run(chk, arim, rng, quick):
    import arim.scat  # noqa: F401
    m = 1 if quick else 10
    # the angle kernel is a numba guvectorize(target="parallel"): on arrays of 1-3 angles the thread pool costs ~30 ms per
    # call on a busy machine; one thread computes the very same values (restored afterwards)
    try:
        import numba
        nthreads = numba.get_num_threads()
        numba.set_num_threads(1)
    except Exception:  # noqa: BLE001
        numba, nthreads = None, None
    try:
        streams = [
            build_lowlevel(chk, rng, 30 * m),
            build_interp1d(chk, rng, 120 * m),
            build_freq(chk, arim, rng, 150 * m),
        ]
        streams += BUILD_MORE(chk, arim, rng, m)
    finally:
        if nthreads is not None:
            numba.set_num_threads(nthreads)
    import os
    import time
    if os.environ.get("TIE_HIST"):
        print(f"#   library side done at {time.time() - chk.t_start:.1f}s", flush=True)
    with ThreadPoolExecutor(max_workers=6) as ex:
        bads = list(ex.map(lambda s: _evaluate(chk, s), streams))
    total = 0
    for st, bad in zip(streams, bads):
        total += len(st.lits)
        for t in bad[:3]:
            rep = dict(st.replays[t])
            rep["correspondence"] = st.corr
            try:
                rep["model"] = chk.coq_values(f"tie_C10_diag_{st.key.replace('-', '_')}", PRE,
                                              [f"show{st.ctype[-1]} ({st.lits[t]})"])[-3000:].strip()
            except Exception as e:  # noqa: BLE001
                rep["model"] = f"(diagnostic evaluation failed: {e})"
            rep["coq_case"] = st.lits[t][:4000]
            chk.violation(f"tie:{st.key}", f"the new model (Model/ScatData.v) and the library disagree [{st.key}] "
                          f"({len(bad)} of {len(st.lits)} cases)", rep, failing_input_found=False)
    return total


def _mutate_kwargs(rng, obj, cplx_ok):
    """Leave the object's interp_freq_kwargs alone (model: arim_default_kwargs) or change it the documented way.
    Returns a function part -> Coq term."""
    r = rng.integers(0, 10)
    if r <= 3:
        return (lambda part: DEFAULT_KW), "default"
    if r == 4:
        obj.interp_freq_kwargs["fill_value"] = float(rng.integers(-20, 21)) / 2.0
        how = "fill_value set in place"
    elif r == 5:
        obj.interp_freq_kwargs.pop("bounds_error")
        obj.interp_freq_kwargs["fill_value"] = (float(rng.integers(-20, 21)) / 2.0, float(rng.integers(-20, 21)) / 2.0)
        how = "bounds_error removed, pair of fill values"
    elif r == 6:
        obj.interp_freq_kwargs["bounds_error"] = True
        how = "bounds_error=True in place (extrapolate and raise)"
    elif r == 7:
        obj.interp_freq_kwargs.update(bounds_error=None)
        how = "bounds_error=None in place"
    else:
        obj.interp_freq_kwargs = gen_kw(rng, cplx_ok=cplx_ok)
        how = "dict replaced"
    d = dict(obj.interp_freq_kwargs)
    return (lambda part: model_kw(d, part)), how


def _gen_points(rng, n, k):
    """k (inc, out) pairs: random over +-3 periods, grid nodes, cell centres, the seam, period shifts."""
    th = -PI + np.arange(max(n, 1)) * (2 * PI / max(n, 1))
    dth = 2 * PI / max(n, 1)
    pts = []
    for _ in range(k):
        r = rng.integers(0, 6)
        if r == 0:
            a, b = rng.uniform(-6 * PI, 6 * PI, 2)
        elif r == 1:
            a, b = th[rng.integers(0, len(th))], th[rng.integers(0, len(th))]
        elif r == 2:
            a, b = th[rng.integers(0, len(th))] + dth / 2, th[rng.integers(0, len(th))] + dth / 4
        elif r == 3:
            a, b = [PI, -PI][int(rng.integers(0, 2))], rng.uniform(-PI, PI)
        elif r == 4:
            a, b = th[rng.integers(0, len(th))] - 2 * PI + dth / 4, th[rng.integers(0, len(th))] + 4 * PI
        else:
            a, b = rng.uniform(-PI, PI, 2)
        pts.append((float(a), float(b)))
    return pts


def _make_obj(rng, scat, freqs_arg, D):
    via = int(rng.integers(0, 3))
    if via == 0:
        items = list(D.items())
        rng.shuffle(items)
        return scat.ScatFromData.from_dict(freqs_arg, dict(items)), "from_dict"
    if via == 1:
        return scat.ScatFromData(freqs_arg, **{"scat_matrix_" + k: v for k, v in D.items()}), "keywords"
    return scat.ScatFromData(freqs_arg, *(D.get(k) for k in KEYS)), "positional"


def build_call(chk, arim, rng, N):
    import arim.scat as scat
    st = Stream("call", "caseC", "chkC",
                "Model.ScatData.scat_from_data_call NumF (P = binary64 pi; kwargs = arim_default_kwargs unless the object's dict was "
                "edited) vs arim.scat.ScatFromData(...).__call__(inc_theta, out_theta, frequency[, to_compute])")

    def Mk(k):
        return np.array([[100 * (k + 1) + 10 * j + i + k * k * (j + 1) for i in range(2)] for j in range(2)], float)
    D1 = {"LL": np.array([Mk(0), Mk(1), Mk(2)]), "TT": np.array([Mk(2), Mk(1), Mk(0)])}
    th2 = [-PI, 0.0]
    fixed = [((th2[1], th2[0]), 2.5), ((th2[1] + PI / 2, th2[0] + PI / 4), 2.5), ((th2[0] - 2 * PI + PI / 4, th2[1] + 4 * PI), 0.0)]
    for i in range(N):
        if i < len(fixed):
            n, freqs, D, dtype = 2, np.array([3., 1., 2.]), D1, "float"
            obj = scat.ScatFromData.from_dict(freqs, D)
            kwf, how, via = (lambda part: DEFAULT_KW), "default", "from_dict"
            pts, f = [fixed[i][0]], fixed[i][1]
            fam = "fixed"
        else:
            n = int(rng.integers(1, 6))
            u = rng.random()
            nf = 0 if u < 0.04 else (1 if u < 0.2 else int(rng.integers(2, 6)))
            dtype = ["float", "complex", "complex", "int", "f32", "random"][int(rng.integers(0, 6))]
            kind = "random" if dtype == "random" else ("mhz" if rng.random() < 0.3 else "dyadic")
            freqs = gen_freqs(rng, nf, kind) if nf else np.zeros(0)
            keys = rand_keys(rng)
            D = gen_data(rng, nf, n, n, keys, dtype)
            freqs_arg = freqs
            if nf == 1 and rng.random() < 0.5:
                freqs_arg = [float(freqs[0]), np.float64(freqs[0]), np.asarray(freqs[0])][int(rng.integers(0, 3))]     # 0-d frequencies
            elif rng.random() < 0.3:
                freqs_arg = list(freqs)
            try:
                obj, via = _make_obj(rng, scat, freqs_arg, D)
                kwf, how = _mutate_kwargs(rng, obj, cplx_ok=(dtype == "complex"))
            except Exception as e:  # noqa: BLE001  (valid shapes: the model builds the object)
                obj, via, kwf, how = e, "constructor raised " + repr(e), (lambda part: DEFAULT_KW), "default"
            f = gen_newfreq(rng, freqs, kind) if nf else 1.0
            pts = _gen_points(rng, n, int(rng.integers(1, 4)))
            fam = f"{nf if nf < 2 else 'several'} frequencies"
        inc = np.array([p[0] for p in pts])
        out = np.array([p[1] for p in pts])
        tc = None
        if rng.random() < 0.4:
            tc = set(rand_keys(rng, allow_empty=True))            # ignored by the code and absent from the model
        code, res = 0, {}
        try:
            if isinstance(obj, Exception):
                raise TypeError("no object")
            with warnings.catch_warnings(), np.errstate(all="ignore"):
                warnings.simplefilter("ignore")
                res = obj(inc, out, f) if tc is None else (obj(inc, out, f, tc) if rng.random() < 0.5 else obj(inc, out, f, to_compute=tc))
        except (ValueError, IndexError, KeyError, TypeError) as e:
            code = classify(e)
        scale = max([1.0] + [float(np.max(np.abs(v))) for v in D.values() if np.size(v)] +
                    ([float(np.nanmax(np.abs(v))) for v in res.values() if np.size(v) and np.isfinite(v).any()] if code == 0 else []))
        tol = 1e-9 * scale
        cplx_keys = [k for k in D if np.iscomplexobj(D[k])]
        parts = [("re", list(D))] + ([("im", cplx_keys)] if cplx_keys else [])
        if cplx_keys and code == 0 and not all(np.all(np.isfinite(v)) for v in res.values()):
            # a NaN fill value: the complex arithmetic of the angle kernel turns nan+0j into nan+nanj, so the imaginary part is
            # not the kernel applied to the imaginary parts; only the real part is compared on such a case
            parts = parts[:1]
            chk.count(tie_C10="call:(imaginary part not compared: non-finite values)")
        for part, pk in parts:
            Dp = {k: D[k] for k in pk}
            exp = cpair(cZ(code), _res_lit(res, pk, part) if code == 0 else "[]")
            st.add(cpair(cZ(n), kwf(part), fl(freqs), cfloat(f), Dlit(Dp, part), clist([cpair(cfloat(a), cfloat(b)) for a, b in pts]),
                         cfloat(PI), cfloat(tol), exp),
                   {"numangles": n, "frequencies": freqs, "constructor": via, "interp_freq_kwargs": repr(getattr(obj, "interp_freq_kwargs", None)), "kwargs_edit": how,
                    "matrices": {k: np.asarray(v) for k, v in D.items()}, "inc_theta": inc, "out_theta": out, "frequency": float(f),
                    "to_compute": None if tc is None else sorted(tc), "part": part, "tolerance": tol,
                    "library": {"code": code, "result": {k: np.asarray(v) for k, v in res.items()} if code == 0 else None}})
        chk.count(tie_C10=f"call:{fam}:{how}:{'ok' if code == 0 else 'error %d' % code}")
    return st


INIT_MSG = (("'frequencies' must be 1d", 1), ("at least one scattering matrix must be passed", 2),
            ("scattering matrices must have the same shape", 3), ("shape must be (numfreq, numangles, numangles)", 4))


def build_init(chk, arim, rng, N):
    import arim.scat as scat
    st = Stream("init", "caseS", "chkS", "Model.ScatData.sfd_init vs arim.scat.ScatFromData.__init__ / from_dict (numfreq, numangles or the ValueError)")
    fixed = [((2,), {"LL": (2, 4, 4), "TT": (2, 4, 4)}), ((), {"LT": (1, 4, 4)}), ((2,), {"LL": (2, 4, 4), "TT": (2, 5, 5)}),
             ((3,), {"LL": (2, 4, 4)}), ((2,), {"LL": (2, 4, 5)}), ((2,), {"LL": (4, 4)}), ((2,), {}), ((1, 2), {"LL": (2, 4, 4)}),
             ((1, 2), {}), ((0,), {"TL": (0, 3, 3)}), ((2,), {"LL": ()}), ((2,), {"LL": (2, 0, 0)})]
    for i in range(N):
        if i < len(fixed):
            fs, shapes = fixed[i]
            fam = "fixed"
        else:
            u = rng.random()
            nf, n = int(rng.integers(0, 5)), int(rng.integers(0, 6))
            keys = rand_keys(rng)
            fs = (nf,) if rng.random() < 0.8 or nf != 1 else ()
            shapes = {k: (nf, n, n) for k in keys}
            fam = "valid"
            if u < 0.1:
                fs = tuple(int(x) for x in rng.integers(0, 4, size=int(rng.integers(2, 4))))
                fam = "frequencies not 1d"
                if rng.random() < 0.5:
                    shapes = {}
            elif u < 0.2:
                shapes, fam = {}, "no matrix"
            elif u < 0.35:
                k = keys[int(rng.integers(0, len(keys)))]
                alt = [(nf, n, n + 1), (nf + 1, n, n), (n, n), (nf, n, n, 1), (nf, n + 1, n + 1)][int(rng.integers(0, 5))]
                shapes[k] = alt
                fam = "one shape differs" if len(keys) > 1 else "wrong shape"
            elif u < 0.5:
                alt = [(nf, n, n + 1), (nf + 1, n, n), (n, n), (nf, n, n, 1), (nf, n + 1, n), (), (nf,), (n, n, nf + 1), (nf + 1, n, n), (nf + 2, n, n)][int(rng.integers(0, 10))]
                shapes = {k: alt for k in keys}
                fam = "wrong shape"
        fr = [np.float64(1.5), 2.5, np.asarray(3.0)][int(rng.integers(0, 3))] if fs == () else np.zeros(fs)
        if len(fs) == 1 and rng.random() < 0.3:
            fr = list(fr)
        mats = {k: np.zeros(s) for k, s in shapes.items()}
        for k in list(mats):
            if mats[k].ndim >= 1 and 0 < mats[k].size < 200 and rng.random() < 0.15:
                mats[k] = mats[k].tolist()                # nested lists have a shape too
        try:
            obj, via = _make_obj(rng, scat, fr, mats)
            exp = (0, int(obj.numfreq), int(obj.numangles))
        except ValueError as e:
            via = "?"
            exp = (next((c for frag, c in INIT_MSG if frag in str(e)), 99), 0, 0)
        st.add(cpair(zl(fs), clist([copt(shapes.get(k), zl) for k in KEYS]), cpair(*map(cZ, exp))),
               {"frequencies_shape": list(fs), "matrix_shapes": {k: list(v) for k, v in shapes.items()}, "constructor": via,
                "library": {"code": exp[0], "numfreq": exp[1], "numangles": exp[2]}})
        chk.count(tie_C10=f"init:{fam}:{'ok' if exp[0] == 0 else 'error %d' % exp[0]}")
    return st


def BUILD_MORE(chk, arim, rng, m):
    return [build_call(chk, arim, rng, 120 * m), build_init(chk, arim, rng, 80 * m)] + BUILD_MORE2(chk, arim, rng, m)


def _spec_scatterer(scat, specs, f0, order):
    """A Scattering2d object whose answer is given by `specs` (key -> (mode, rule, (a, b, c), (a', b', c'))):
    mode 0 never returns the key, 1 only when requested, 2 always; rule 0 float64, 1 complex128, 2 complex unless
    frequency == f0, 3 complex only when frequency == f0; value (a*inc + b*out) + c*frequency (same for the imaginary part)."""
    class SpecScat(scat.Scattering2d):
        def __call__(self, inc_theta, out_theta, frequency, to_compute=scat.SCAT_KEYS):
            r = {}
            for key in order:
                mode, rule, cr, ci = specs[key]
                if mode == 0 or (mode == 1 and key not in to_compute):
                    continue
                fq = float(frequency)
                cplx = [False, True, fq != f0, fq == f0][rule]
                re = (cr[0] * inc_theta + cr[1] * out_theta) + cr[2] * fq
                if cplx:
                    v = np.empty(np.shape(re), dtype=np.complex128)
                    v.real = re
                    v.imag = (ci[0] * inc_theta + ci[1] * out_theta) + ci[2] * fq
                else:
                    v = np.asarray(re, dtype=np.float64)
                r[key] = v
            return r
    return SpecScat()


def _cz_list(a):
    """flattened (re, im) pairs of an array"""
    a = np.asarray(a)
    return clist([cpair(cfloat(float(np.real(z))), cfloat(float(np.imag(z)))) for z in a.ravel()])


def _multi_res_lit(out):
    return clist(["None" if k not in out else
                  "(Some " + cpair(cZ(1 if np.iscomplexobj(out[k]) else 0), _cz_list(out[k])) + ")" for k in KEYS])


def build_multi(chk, arim, rng, N):
    import arim.scat as scat
    st = Stream("multi", "caseM", "chkM",
                "Model.ScatData.as_multi_freq_matrices / as_single_freq_matrices NumF (P = binary64 pi) vs the methods "
                "Scattering2d.as_multi_freq_matrices / as_single_freq_matrices of a subclass whose __call__ is given by a spec")
    z = (0.0, 0.0, 0.0)
    S1 = {"LL": (2, 0, (1.0, 0.0, 1.0), z), "LT": (2, 1, (0.0, 1.0, 0.0), (0.5, 0.0, 0.25)), "TL": (1, 1, (0.0, 0.0, 1.0), (0.0, 0.0, 1.0)), "TT": (0, 0, z, z)}
    S2 = {k: (2, 2, (0.0, 0.0, 1.0), (0.0, 0.0, 1.5)) for k in KEYS}
    fixed = [(S1, 5.0, [5., 7., 6.], 2, ["LL", "LT"], False), (S1, 5.0, [5., 7.], 2, ["LL", "TT"], False), (S1, 5.0, [], 2, ["LL", "TT"], False),
             (S2, 5.0, [5., 7.], 2, ["LL"], False), (S2, 5.0, [7., 5.], 2, ["LL"], False), (S1, 5.0, [6.], 3, ["LL", "LT", "TL"], True)]
    for i in range(N):
        if i < len(fixed):
            specs, f0, freqs, n, tc, single = fixed[i]
            fam = "multi:fixed"
        else:
            n = int(rng.integers(0, 5)) if rng.random() < 0.9 else int(rng.integers(5, 8))
            nfr = int(rng.integers(0, 5))
            freqs = list(dyadic(rng, -8, 40, 4, size=nfr)) if rng.random() < 0.7 else list(rng.uniform(0.5, 9.0, nfr))
            f0 = float(freqs[int(rng.integers(0, nfr))]) if nfr and rng.random() < 0.8 else 1.25
            specs = {}
            for k in KEYS:
                mode = [2, 2, 2, 2, 1, 1, 0][int(rng.integers(0, 7))]
                rule = [0, 0, 1, 1, 2, 3][int(rng.integers(0, 6))]
                specs[k] = (mode, rule, tuple(float(x) for x in dyadic(rng, -4, 4, 4, size=3)), tuple(float(x) for x in dyadic(rng, -4, 4, 4, size=3)))
            u = rng.random()
            if u < 0.3:
                tc = None                                            # default: SCAT_KEYS
            elif u < 0.8:
                present = [k for k in KEYS if specs[k][0] > 0]
                tc = [k for k in present if rng.random() < 0.7] or present[:1]
                rng.shuffle(tc)
                if tc and rng.random() < 0.15:
                    tc = tc + [tc[0]]                                # a repeated key
            else:
                tc = rand_keys(rng, allow_empty=True)                # may ask for a key the scatterer never returns
            single = nfr >= 1 and rng.random() < 0.25
            fam = "single" if single else f"multi:{min(nfr, 2)}{'+' if nfr >= 2 else ''} frequencies"
        order = list(KEYS)
        rng.shuffle(order)
        obj = _spec_scatterer(scat, specs, f0, order)
        # spelling of to_compute: absent, list (ordered: the KeyError names the first missing key), tuple, set, frozenset
        sp = int(rng.integers(0, 4))
        ordered = True
        if tc is None:
            tc_model, args, ordered = list(KEYS), (), False
        else:
            tc_model = list(tc)
            if sp <= 1:
                args = (list(tc),)
            elif sp == 2:
                args = (tuple(tc),)
            else:
                args, ordered = ((set(tc) if rng.random() < 0.5 else frozenset(tc)),), False
                tc_model = sorted(set(tc), key=KEYS.index)
        fr_arg = np.asarray(freqs, float) if rng.random() < 0.6 else list(freqs)
        code, key, res = 0, -1, "[]"
        try:
            with warnings.catch_warnings(), np.errstate(all="ignore"):
                warnings.simplefilter("ignore")
                if single:
                    out = obj.as_single_freq_matrices(freqs[0], n, *args)
                else:
                    out = obj.as_multi_freq_matrices(fr_arg, n, *args)
            if out is None:
                code = 1
            else:
                res = _multi_res_lit(out)
                if not single and any(np.shape(out[k]) != (len(freqs), n, n) for k in out):
                    code = 98
        except KeyError as e:
            code = 2
            key = KEYS.index(e.args[0]) if (ordered and e.args and e.args[0] in KEYS) else -1
        if single and code == 0:
            # as_single returns whatever the scatterer returns; the model does the same (keys outside to_compute included)
            pass
        spec_lit = clist([cpair(cZ(specs[k][0]), cZ(specs[k][1]), cpair(*map(cfloat, specs[k][2])), cpair(*map(cfloat, specs[k][3]))) for k in KEYS])
        st.add(cpair(cZ(n), spec_lit, cfloat(f0), cfloat(PI), fl(freqs), zl([KEYS.index(k) for k in tc_model]), cbool(single),
                     cpair(cZ(code), cZ(key), res)),
               {"numangles": n, "scatterer_spec": {k: list(v) for k, v in specs.items()}, "f0": f0, "frequencies": list(map(float, freqs)),
                "to_compute": None if tc is None else [str(k) for k in tc], "to_compute_type": "absent" if tc is None else type(args[0]).__name__,
                "method": "as_single_freq_matrices" if single else "as_multi_freq_matrices",
                "library": {"code": code, "keyerror_key": key, "result": None if code else {k: np.asarray(v) for k, v in out.items()}}})
        chk.count(tie_C10=f"{fam}:{['dict', 'None', 'KeyError'][code] if code < 3 else 'other'}")
    return st


def build_multi_data(chk, arim, rng, N):
    import arim.scat as scat
    st = Stream("multi-data", "caseD", "chkD",
                "Model.ScatData.as_multi_freq_matrices NumF over scat_from_data_call (P = binary64 pi) vs arim.scat.ScatFromData(...).as_multi_freq_matrices")
    for i in range(N):
        n = int(rng.integers(1, 4))
        nf = 1 if rng.random() < 0.2 else int(rng.integers(2, 5))
        freqs = gen_freqs(rng, nf, "dyadic")
        keys = rand_keys(rng) if (i > 0 and rng.random() < 0.6) else list(KEYS)
        if i == 0:
            keys = ["LL"]                                        # the note's observation 1: default to_compute -> KeyError
        D = gen_data(rng, nf, n, n, keys, "float")
        try:
            obj, via = _make_obj(rng, scat, freqs, D)
        except Exception as e:  # noqa: BLE001
            obj, via = None, "constructor raised " + repr(e)
        newf = [gen_newfreq(rng, freqs, "dyadic") for _ in range(int(rng.integers(0, 4)) if rng.random() < 0.3 else int(rng.integers(1, 4)))]
        u = rng.random()
        tc = None if (u < 0.4 or i == 0) else (list(keys) if u < 0.7 else rand_keys(rng))
        args = () if tc is None else ((tc,) if rng.random() < 0.5 else (set(tc),))
        code, res = 0, "[]"
        try:
            with warnings.catch_warnings(), np.errstate(all="ignore"):
                warnings.simplefilter("ignore")
                out = obj.as_multi_freq_matrices(np.asarray(newf, float), n, *args)
            if out is None:
                code = 1
            else:
                res = _multi_res_lit(out)
        except KeyError:
            code = 2
        except (AttributeError, ValueError, IndexError, TypeError):
            code = 99
        tol = 1e-9 * max([1.0] + [float(np.max(np.abs(v))) for v in D.values()]) * 20
        st.add(cpair(cZ(n), DEFAULT_KW, fl(freqs), Dlit(D, "re"), cfloat(PI), cfloat(tol), fl(newf),
                     zl([KEYS.index(k) for k in (KEYS if tc is None else tc)]), cpair(cZ(code), res)),
               {"numangles": n, "frequencies": freqs, "matrices": D, "constructor": via, "new_frequencies": newf, "to_compute": tc,
                "library": {"code": code, "result": None if code else {k: np.asarray(v) for k, v in out.items()}}})
        chk.count(tie_C10=f"multi-data:{'all keys' if len(keys) == 4 else 'some keys'}:{'default to_compute' if tc is None else 'to_compute given'}:{['dict', 'None', 'KeyError'][code] if code < 3 else 'other'}")
    return st


def build_grid(chk, arim, rng, N):
    import arim.scat as scat
    st = Stream("grid", "caseG", "chkG", "Model.ScatData.make_angles_grid NumF (P = binary64 pi) vs arim.scat.make_angles_grid (bit for bit)")
    sizes = list(range(0, 13)) + [int(x) for x in rng.integers(13, 41, size=max(N - 13, 0))]
    for n in sizes[:N]:
        inc, out = scat.make_angles_grid(n)
        st.add(cpair(cZ(n), cfloat(PI), fl(np.asarray(inc).ravel()), fl(np.asarray(out).ravel())),
               {"numpoints": n, "library": {"inc_theta": inc, "out_theta": out}})
        chk.count(tie_C10="grid")
    return st


def _rand_name(rng):
    pool = ["LL", "LT", "TL", "TT", "x", "ll", "LL2", "frequencies", "a b", "T-T", "k0", "Z"]
    return pool[int(rng.integers(0, len(pool)))]


def build_rotate(chk, arim, rng, N):
    import arim.scat as scat
    st = Stream("rotate", "caseR", "chkR",
                "Model.ScatData.rotate_matrices_steps n k vs arim.scat.rotate_matrices(dict, k*2*pi/n) (integer matrices, result rounded; keys and order exact)")
    M3 = [[10 * j + i for i in range(3)] for j in range(3)]
    X3 = [[i - j for i in range(3)] for j in range(3)]
    fixed = [(3, 1, [("LL", M3), ("x", X3)]), (3, -4, [("LL", M3)]), (3, -6, [("LL", M3)]), (3, 2, [])]
    for i in range(N):
        if i < len(fixed):
            n, k, items = fixed[i]
        else:
            n = int(rng.integers(1, 8))
            k = int(rng.integers(-2 * n - 1, 2 * n + 2))
            names = []
            for _ in range(int(rng.integers(0, 5))):
                nm = _rand_name(rng)
                if nm not in names:
                    names.append(nm)
            items = [(nm, rng.integers(-50, 51, size=(n, n)).tolist()) for nm in names]
        d = {nm: (np.array(M, float) if rng.random() < 0.7 else np.array(M, float) + 0j) for nm, M in items}
        res = scat.rotate_matrices(d, k * 2 * np.pi / n)
        ex, ok = [], isinstance(res, dict)
        for nm, v in (res.items() if ok else []):
            v = np.asarray(v)
            r = np.round(v.real)
            if v.shape != (n, n) or np.max(np.abs(v - r), initial=0.0) > 1e-6:
                r = np.full((n, n), 10 ** 6)                     # not an integer matrix at all: cannot equal the model's answer
            ex.append((nm, r.astype(np.int64).ravel().tolist()))
        lit = lambda its: clist([cpair(cstr(nm), zl(np.asarray(M).ravel())) for nm, M in its])
        st.add(cpair(cZ(n), cZ(k), lit(items), lit(ex)),
               {"numangles": n, "steps": k, "phi": k * 2 * np.pi / n, "dict": {nm: M for nm, M in items}, "dict_order": [nm for nm, _ in items],
                "library": {"keys": [nm for nm, _ in ex], "rounded": {nm: M for nm, M in ex}}})
        chk.count(tie_C10=f"rotate:{min(len(items), 2)}{'+' if len(items) >= 2 else ''} keys")
    return st


def build_interpdict(chk, arim, rng, N):
    import arim.scat as scat
    st = Stream("interpdict", "caseT", "chkT",
                "Model.ScatData.dict_map_values (ScatMatrix.interp NumF P n . a b) vs {k: f(a, b) for k, f in arim.scat.interpolate_matrices(dict).items()}")
    for i in range(N):
        n = int(rng.integers(1, 6))
        names = []
        for _ in range(int(rng.integers(0, 5))):
            nm = _rand_name(rng)
            if nm not in names:
                names.append(nm)
        d = {nm: rng.integers(-400, 401, size=(n, n)) / 4.0 for nm in names}
        (a, b), = _gen_points(rng, n, 1)
        fs = scat.interpolate_matrices(d)
        ex = [(nm, float(np.asarray(f(np.array([a]), np.array([b])))[0])) for nm, f in fs.items()]
        tol = 1e-9 * 100.0
        st.add(cpair(cZ(n), cfloat(PI), cfloat(tol), cfloat(a), cfloat(b),
                     clist([cpair(cstr(nm), fl(M.ravel())) for nm, M in d.items()]), clist([cpair(cstr(nm), cfloat(v)) for nm, v in ex])),
               {"numangles": n, "dict": d, "dict_order": list(d), "inc_theta": a, "out_theta": b, "library": {"keys": [nm for nm, _ in ex], "values": ex}})
        chk.count(tie_C10="interpdict")
    return st


CTORS = ("load_scat", "CrackCentreScat", "CrackTipScat", "SdhScat", "PointSourceScat")
KINDS = ("file", "crack_centre", "crack_tip", "sdh", "point")


def _rand_case(rng, s):
    return "".join(c.upper() if rng.random() < 0.4 else c for c in s)


def build_factory(chk, arim, rng, N):
    import arim.scat as scat
    import arim.io
    st = Stream("factory", "caseA", "chkA",
                "Model.ScatData.scat_factory vs arim.scat.scat_factory (constructor calls recorded by wrappers put in the module's namespace; "
                "and, on valid arguments, the class and _scat_kwargs of the real object)")
    calls = []

    def recorder(idx):
        def rec(*args, **kwargs):
            calls.append((idx, list(args), list(kwargs.items())))
            return ("recorded", idx)
        return rec
    saved = {nm: getattr(scat, nm) for nm in CTORS[1:]}
    saved_load = arim.io.scat.load_scat
    fixed = [("SDH", [5], []), ("Crack_Centre", [], [("crack_length", 2)]), ("crack_TIP", [], []), ("Point", [], []), ("FILE", [1], []),
             ("Sphere", [], []), ("sdh ", [], []), ("", [], []), ("crack_centre", [7], [("nodes_per_wavelength", 30)])]
    try:
        for nm in CTORS[1:]:
            setattr(scat, nm, recorder(CTORS.index(nm)))
        arim.io.scat.load_scat = recorder(0)
        for i in range(N):
            if i < len(fixed):
                kind, args, kwargs = fixed[i]
            else:
                u = rng.random()
                if u < 0.75:
                    kind = _rand_case(rng, KINDS[int(rng.integers(0, 5))])
                elif u < 0.9:
                    base = KINDS[int(rng.integers(0, 5))]
                    kind = [base + " ", " " + base, base[:-1], base + "s", base.replace("_", "-"), base.replace("_", "")][int(rng.integers(0, 6))]
                    kind = _rand_case(rng, kind)
                else:
                    kind = _rand_case(rng, ["sphere", "", "Crack", "tip", "@[`{", "SDH_", "none"][int(rng.integers(0, 7))])
                args = [int(x) for x in rng.integers(-9, 100, size=int(rng.integers(0, 3)))]
                kwargs, pool = [], ["radius", "crack_length", "nodes_per_wavelength", "min_terms", "term_factor", "format", "rayleigh_vel", "foo"]
                for _ in range(int(rng.integers(0, 3))):
                    nm = pool[int(rng.integers(0, len(pool)))]
                    if nm not in [k for k, _ in kwargs]:
                        kwargs.append((nm, int(rng.integers(-9, 100))))
            vl, vt, rho = (int(x) for x in rng.integers(1000, 8000, size=3))
            material = arim.Material(float(vl), float(vt), float(rho), "solid") if rng.random() < 0.7 else arim.Material(vl, vt, density=rho)
            calls.clear()
            try:
                r = scat.scat_factory(kind, material, *args, **dict(kwargs))
                if len(calls) == 1 and r == ("recorded", calls[0][0]) and all(float(v) == int(v) for v in calls[0][1] + [v for _, v in calls[0][2]]):
                    exp = (0, "", calls[0][0], [int(v) for v in calls[0][1]], [(k, int(v)) for k, v in calls[0][2]])
                else:
                    exp = (97, "", 0, [], [])
            except NotImplementedError as e:
                msg = str(e)
                pre = "no strategy for kind='"
                exp = (1, msg[len(pre):-1], 0, [], []) if msg.startswith(pre) and msg.endswith("'") else (96, "", 0, [], [])
            st.add(cpair(cstr(kind), cpair(cZ(vl), cZ(vt), cZ(rho)), zl(args), clist([cpair(cstr(k), cZ(v)) for k, v in kwargs]),
                         cpair(cZ(exp[0]), cstr(exp[1]), cZ(exp[2]), zl(exp[3]), clist([cpair(cstr(k), cZ(v)) for k, v in exp[4]]))),
                   {"kind": kind, "material": [vl, vt, rho], "args": args, "kwargs": kwargs,
                    "library": {"code": exp[0], "message_kind": exp[1], "callee": CTORS[exp[2]] if exp[0] == 0 else None, "positional": exp[3], "keywords": exp[4]}})
            chk.count(tie_C10=f"factory:recorded:{'call ' + CTORS[exp[2]] if exp[0] == 0 else ('NotImplementedError' if exp[0] == 1 else 'other')}")
    finally:
        for nm, v in saved.items():
            setattr(scat, nm, v)
        arim.io.scat.load_scat = saved_load
    # the real objects, on valid arguments
    for i in range(max(N // 4, 8)):
        t = int(rng.integers(1, 5))
        kind = _rand_case(rng, KINDS[t])
        vl, vt, rho = (int(x) for x in rng.integers(1000, 8000, size=3))
        material = arim.Material(float(vl), float(vt), float(rho), "solid")
        args, kwargs = [], []
        if t == 1:
            v = int(rng.integers(1, 9))
            if rng.random() < 0.5:
                args.append(v)
            else:
                kwargs.append(("crack_length", v))
            if rng.random() < 0.4:
                kwargs.append(("nodes_per_wavelength", int(rng.integers(10, 40))))
        elif t == 3:
            v = int(rng.integers(1, 9))
            if rng.random() < 0.5:
                args.append(v)
            else:
                kwargs.append(("radius", v))
            if rng.random() < 0.4:
                kwargs.append(("min_terms", int(rng.integers(5, 20))))
        elif t == 2 and rng.random() < 0.4:
            kwargs.append(("rayleigh_vel", int(rng.integers(1000, 3000))))
        try:
            obj = scat.scat_factory(kind, material, *args, **dict(kwargs))
        except Exception as e:  # noqa: BLE001  (valid arguments: any exception disagrees with the model, which answers with a call)
            obj = e
        cls = type(obj).__name__
        supplied = {"longitudinal_vel", "transverse_vel"} | {k for k, _ in kwargs} | ({"density"} if t == 1 else set())
        if args:
            supplied.add({1: "crack_length", 3: "radius"}[t])
        bound = [(k, v) for k, v in getattr(obj, "_scat_kwargs", {}).items() if k in supplied]
        ok = cls in CTORS and all(v is not None and float(v) == int(v) for _, v in bound)
        exp = (2, "", CTORS.index(cls), [], [(k, int(v)) for k, v in bound]) if ok else (95, "", 0, [], [])
        st.add(cpair(cstr(kind), cpair(cZ(vl), cZ(vt), cZ(rho)), zl(args), clist([cpair(cstr(k), cZ(v)) for k, v in kwargs]),
                     cpair(cZ(exp[0]), cstr(exp[1]), cZ(exp[2]), zl(exp[3]), clist([cpair(cstr(k), cZ(v)) for k, v in exp[4]]))),
               {"kind": kind, "material": [vl, vt, rho], "args": args, "kwargs": kwargs,
                "library": {"class": cls, "_scat_kwargs": dict(getattr(obj, "_scat_kwargs", {}))}})
        chk.count(tie_C10=f"factory:real object:{cls}")
    return st


def BUILD_MORE2(chk, arim, rng, m):
    return [build_multi(chk, arim, rng, 120 * m), build_multi_data(chk, arim, rng, 40 * m), build_grid(chk, arim, rng, 20 if m == 1 else 41),
            build_rotate(chk, arim, rng, 60 * m), build_interpdict(chk, arim, rng, 40 * m), build_factory(chk, arim, rng, 80 * m)]
