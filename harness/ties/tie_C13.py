"""Tie of the new C13 model (coq/theories/Model/Blocks.v) to the real library, evaluated on every run of the check.

    run(chk, arim, rng, quick) -> number of comparisons

Every case = one concrete input, run on the REAL library (public functions; the thread pool is replaced by a recording
executor only to read the views handed to the tasks and to choose the execution order), and the model's answer computed by
`vm_compute` inside coqc on the very same input.  Floats are binary64 (PrimFloat / NumF) on dyadic inputs (multiples of 1/4 of
small magnitude: every sum, difference, product is exact; sqrt is the correctly rounded operation on both sides) and are
compared bit for bit; everything discrete (selectors, views, order of submission, error kinds, argmin indices) exactly.

Ties (model function vs arim call):
  py_ceil_div                        vs  Python's math.ceil(a / b) on ints (the expression of ray.py:90, geometry.py:1327,
                                         helpers.py:264) and, through chunk_array_py, the number of selectors yielded
  chunk_array_py / selectors_n       vs  list(arim.helpers.chunk_array(shape, block_size, axis)) for block sizes and axes of
                                         any sign (+ ChunkND.resolve vs numpy applying each yielded selector)
  find_minimum_times                 vs  arim.ray.find_minimum_times(time_1, time_2, block_size=, numthreads=): error kind or
                                         both output arrays; executed in the order `sched` = the permutation the recording
                                         executor used, or by the real thread pool (model: identity order)
  fmt_submit / fmt_task_views        vs  the four views of every task submitted by arim.ray.find_minimum_times, in order
  fmt_kernel                         vs  arim.ray._find_minimum_times on views of PREFILLED outputs (read-modify-write)
  distance_pairwise                  vs  arim.geometry.distance_pairwise(points1, points2, out=, block_size=, numthreads=)
  dist_submit / dist_task_views      vs  the seven views of every task submitted by arim.geometry.distance_pairwise
  dist_kernel                        vs  arim.geometry._distance_pairwise on a view of a prefilled array (overwrites; loop
                                         bounds = shape of the output view)
  sens_submit / sens_views           vs  the selectors arim.model.sensitivity_uniform_tfm / sensitivity_model_assisted_tfm
                                         apply to `model_amplitudes` (recorded by a duck-typed amplitudes object), resolved
                                         by numpy on the three array shapes (np,), (np, ne), (np, nt)

Restrictions (the model is silent or deliberately different there; such inputs are not generated):
  * finite times only in find_minimum_times / fmt_kernel: Model/MinPlus.v takes the first candidate unconditionally
    (`None => Some (x, k)`), the code compares `x < inf`; they differ for x = +inf or nan (documented in MinPlus.v);
  * float64 only (`dtype=` / `dtype_indices=` are not modelled); coordinates / `out` of dimension other than 1 / 2
    (InvalidDimension) are not modelled;
  * the sensitivity functions fail with TypeError AFTER the loop when no chunk was yielded (negative block, no point):
    sens_submit models the loop only, the case is compared as "no selector".
"""
import concurrent.futures
import math
import re
import types

import numpy as np

from common import cZ, cfloat, clist, cpair, copt

CORR = {
    "ceil": "py_ceil_div vs math.ceil(a / b) on Python ints (ray.py:90, geometry.py:1327, helpers.py:264)",
    "chunk": "chunk_array_py (+ ChunkND.resolve) vs list(arim.helpers.chunk_array(shape, block_size, axis)) (+ numpy indexing)",
    "fmt": "find_minimum_times / fmt_submit vs arim.ray.find_minimum_times (results, error kind, views of the submitted tasks)",
    "fmtk": "fmt_kernel vs arim.ray._find_minimum_times on views of prefilled outputs",
    "dist": "distance_pairwise / dist_submit vs arim.geometry.distance_pairwise (results, error kind, views of the submitted tasks)",
    "distk": "dist_kernel vs arim.geometry._distance_pairwise on a view of a prefilled array",
    "sens": "sens_submit vs the selectors applied by arim.model.sensitivity_uniform_tfm / sensitivity_model_assisted_tfm",
}

PREAMBLE = r"""
From Coq Require Import ZArith List Bool PrimFloat.
From Arim Require Import Base.Num Base.NumF Base.ListX Model.Chunk Model.ChunkND Model.MinPlus Model.Blocks.
Import ListNotations.
Open Scope bool_scope.

Definition ecode (e : pyerr) : Z :=
  match e with IndexError => 1 | ZeroDivisionError => 2 | ValueError => 3 | InvalidShape => 4 | TypeError => 5 end%Z.

Fixpoint leq2 {A B} (eqb : A -> B -> bool) (l1 : list A) (l2 : list B) : bool :=
  match l1, l2 with
  | [], [] => true
  | x :: l1, y :: l2 => eqb x y && leq2 eqb l1 l2
  | _, _ => false
  end.

(* bit for bit (the sign of zero is seen through 1/x); nan = nan *)
Definition fbits (a b : float) : bool :=
  (PrimFloat.is_nan a && PrimFloat.is_nan b)
  || (PrimFloat.eqb a b && PrimFloat.eqb (PrimFloat.div one a) (PrimFloat.div one b)).

(* selectors as Python yields them: slice(a, b) with a, b ints or None; Ellipsis; anything else *)
Inductive zitem := ZSl (a b : option Z) | ZDots | ZOther.
Definition onat_eqb (x : option nat) (y : option Z) : bool :=
  match x, y with None, None => true | Some a, Some b => Z.eqb (Z.of_nat a) b | _, _ => false end.
Definition item_eqb (it : item) (z : zitem) : bool :=
  match it, z with
  | Sl (a, b), ZSl a' b' => onat_eqb a a' && onat_eqb b b'
  | Dots, ZDots => true
  | _, _ => false
  end.
(* a range read on a real view: (start, length); start = -1: unknown (empty view) *)
Definition rng_eqb (r : nat * nat) (z : Z * Z) : bool :=
  Z.eqb (Z.of_nat (snd r) - Z.of_nat (fst r)) (snd z) && (Z.eqb (fst z) (-1) || Z.eqb (fst z) (Z.of_nat (fst r))).
Definition view_eqb : view -> list (Z * Z) -> bool := leq2 rng_eqb.
(* the order the recording executor used; None: the real thread pool ran the tasks (model: order of submission) *)
Definition sched_of {A} (d : A) (perm : option (list Z)) (l : list A) : list A :=
  match perm with Some pm => map (fun i => nth (Z.to_nat i) l d) pm | None => l end.

(* ---- ceil ---- *)
Definition chk_ceil (c : Z * Z * option Z) : bool :=
  let '(a, b, r) := c in option_eqb Z.eqb (py_ceil_div a b) r.

(* ---- chunk_array ---- *)
Definition chunk_case : Type := (list Z * Z * Z * Z * list (list zitem) * list (list (Z * Z)))%type.
Definition chk_chunk (c : chunk_case) : bool :=
  let '(shape, bs, axis, ans, sels, rngs) := c in
  let sh := map Z.to_nat shape in
  match chunk_array_py sh bs axis with
  | inl e => Z.eqb (ecode e) ans
  | inr ms => Z.eqb ans 0 && leq2 (leq2 item_eqb) ms sels
              && leq2 (fun m r => match resolve sh m with Some v => view_eqb v r | None => false end) ms rngs
  end.
Definition show_chunk (c : chunk_case) :=
  let '(shape, bs, axis, ans, sels, rngs) := c in
  let sh := map Z.to_nat shape in
  (chunk_array_py sh bs axis,
   match chunk_array_py sh bs axis with inr ms => map (resolve sh) ms | inl _ => [] end).

(* ---- find_minimum_times ---- *)
Record fcase := mkF { f_m : Z; f_m2 : Z; f_t1 : list (list float); f_t2c : list (list float); f_bs : Z; f_nt : Z;
                      f_perm : option (list Z); f_ans : Z; f_views : option (list (list (list (Z * Z))));
                      f_tab : list (list (float * Z)) }.
Definition cell_eqb (c : option (float * nat)) (z : float * Z) : bool :=
  match c with
  | None => fbits infinity (fst z) && Z.eqb (snd z) (-1)
  | Some (t, k) => fbits t (fst z) && Z.eqb (Z.of_nat k) (snd z)
  end.
Definition model_fmt (c : fcase) :=
  find_minimum_times PrimFloat.ltb PrimFloat.add (Z.to_nat (f_m c)) (Z.to_nat (f_m2 c)) (f_t1 c) (f_t2c c)
                     (f_bs c) (f_nt c) (sched_of (mkFV [] [] []) (f_perm c)).
Definition model_fmt_views (c : fcase) : option (res (list fmt_views)) :=
  option_map (fmt_submit (length (f_t1 c)) (Z.to_nat (f_m c)) (length (f_t2c c))) (py_ceil_div (f_bs c) (f_m c)).
Definition chk_fmt (c : fcase) : bool :=
  match model_fmt c with
  | inl e => Z.eqb (ecode e) (f_ans c)
  | inr tb =>
      Z.eqb (f_ans c) 0 && leq2 (leq2 cell_eqb) tb (f_tab c)
      && match f_views c with
         | None => true
         | Some vs =>
             match model_fmt_views c with
             | Some (inr tv) =>
                 leq2 (fun t z => leq2 view_eqb [fv_t1 t; fv_t2 t; fv_res t; fv_res t] z) tv vs
             | _ => false
             end
         end
  end.
Definition show_fmt (c : fcase) := (model_fmt c, model_fmt_views c).

(* ---- _find_minimum_times on views of prefilled outputs ---- *)
Record kcase := mkK { k_rows : list (list float); k_cols : list (list float); k_r0 : Z; k_c0 : Z; k_N : Z; k_P : Z;
                      k_before : list (list (float * Z)); k_after : list (list (float * Z)) }.
Definition cells_of (t : list (list (float * Z))) : arr (cellv float) :=
  fun i j => match nth_error (nth i t []) j with
             | Some (x, k) => if (k <? 0)%Z then None else Some (x, Z.to_nat k)
             | None => None
             end.
Definition model_fmtk (c : kcase) :=
  tab (Z.to_nat (k_N c)) (Z.to_nat (k_P c))
      (fmt_kernel PrimFloat.ltb PrimFloat.add (k_rows c) (k_cols c) (Z.to_nat (k_r0 c)) (Z.to_nat (k_c0 c))
                  (cells_of (k_before c))).
Definition chk_fmtk (c : kcase) : bool := leq2 (leq2 cell_eqb) (model_fmtk c) (k_after c).

(* ---- distance_pairwise ---- *)
Record dcase := mkD { d_p1 : @points float; d_p2 : @points float; d_out : option (Z * Z * list (list float));
                      d_bs : Z; d_nt : Z; d_perm : option (list Z); d_ans : Z;
                      d_views : option (list (list (list (Z * Z)))); d_tab : list (list float) }.
Definition model_dist (c : dcase) :=
  distance_pairwise NumF (d_p1 c) (d_p2 c)
    (option_map (fun o => let '(r, k, t) := o in (Z.to_nat r, Z.to_nat k, t)) (d_out c))
    (d_bs c) (d_nt c) (sched_of (mkDV [] [] []) (d_perm c)).
Definition model_dist_views (c : dcase) : option (res (list dist_views)) :=
  option_map (dist_submit (length (px (d_p1 c))) (length (px (d_p2 c)))) (py_ceil_div (d_bs c) 6).
Definition chk_dist (c : dcase) : bool :=
  match model_dist c with
  | inl e => Z.eqb (ecode e) (d_ans c)
  | inr tb =>
      Z.eqb (d_ans c) 0 && leq2 (leq2 fbits) tb (d_tab c)
      && match d_views c with
         | None => true
         | Some vs =>
             match model_dist_views c with
             | Some (inr tv) =>
                 leq2 (fun t z => leq2 view_eqb
                             [dv_1 t; dv_1 t; dv_1 t; dv_2 t; dv_2 t; dv_2 t; dv_out t] z) tv vs
             | _ => false
             end
         end
  end.
Definition show_dist (c : dcase) := (model_dist c, model_dist_views c).

(* ---- _distance_pairwise on a view of a prefilled array ---- *)
Record ecase := mkE { e_p1 : @points float; e_p2 : @points float; e_nr : Z; e_nc : Z; e_r0 : Z; e_c0 : Z;
                      e_N : Z; e_P : Z; e_before : list (list float); e_after : list (list float) }.
Definition model_distk (c : ecase) :=
  tab (Z.to_nat (e_N c)) (Z.to_nat (e_P c))
      (dist_kernel NumF (zip3 (e_p1 c)) (zip3 (e_p2 c)) (Z.to_nat (e_nr c)) (Z.to_nat (e_nc c))
                   (Z.to_nat (e_r0 c)) (Z.to_nat (e_c0 c)) (arr_of_table NumF (e_before c))).
Definition chk_distk (c : ecase) : bool := leq2 (leq2 fbits) (model_distk c) (e_after c).

(* ---- the selector of the sensitivity loops ---- *)
Definition scase : Type := (Z * Z * Z * Z * Z * list (list (list (Z * Z))))%type.
Definition model_sens (c : scase) :=
  let '(np, nt, ne, bs, ans, vs) := c in sens_submit (Z.to_nat np) (Z.to_nat nt) (Z.to_nat ne) bs.
Definition chk_sens (c : scase) : bool :=
  let '(np, nt, ne, bs, ans, vs) := c in
  match model_sens c with
  | inl e => Z.eqb (ecode e) ans
  | inr l => Z.eqb ans 0
             && leq2 (fun o z => match o with
                                     | Some (v1, v2, v3) => leq2 view_eqb [v1; v2; v3] z
                                     | None => false
                                     end) l vs
  end.
"""

ECODES = {"IndexError": 1, "ZeroDivisionError": 2, "ValueError": 3, "InvalidShape": 4, "TypeError": 5}
BAD = [(-2, -2)]          # a view that is not a basic-slice view of the expected parent: never equal to a model view


def ecode(e):
    return ECODES.get(type(e).__name__, 99)


def _ptr(a):
    return a.__array_interface__["data"][0]


def _root(a):
    while isinstance(getattr(a, "base", None), np.ndarray):
        a = a.base
    return a


def vranges(view, parent, pshape):
    """[(start | -1, length)] per axis of a basic-slice view of `parent` (an array of shape `pshape`)."""
    pshape = tuple(pshape)
    if not isinstance(view, np.ndarray) or not isinstance(parent, np.ndarray):
        return BAD
    if view.ndim != len(pshape) or tuple(parent.shape) != pshape or view.dtype != parent.dtype:
        return BAD
    if view.size == 0:
        return [(-1, int(s)) for s in view.shape]
    off = _ptr(view) - _ptr(parent)
    st = parent.strides
    starts = [0] * view.ndim
    for k in sorted((k for k in range(view.ndim) if pshape[k] > 1), key=lambda k: -abs(st[k])):
        if st[k] <= 0:
            return BAD
        starts[k], off = divmod(off, st[k])
    if off != 0:
        return BAD
    return [(int(starts[k]), int(view.shape[k])) for k in range(view.ndim)]


def czview(v):
    return clist([cpair(cZ(a), cZ(b)) for a, b in v])


def cftab(t):
    return clist([clist(row, cfloat) for row in t])


def cselector(sel):
    items = []
    if not isinstance(sel, tuple):
        return clist(["ZOther"])
    for it in sel:
        if it is Ellipsis:
            items.append("ZDots")
        elif isinstance(it, slice) and it.step is None and all(
                x is None or (isinstance(x, (int, np.integer)) and not isinstance(x, bool)) for x in (it.start, it.stop)):
            items.append(f"(ZSl {copt(it.start, cZ)} {copt(it.stop, cZ)})")
        else:
            items.append("ZOther")
    return clist(items)


def jsel(sel):
    return repr(sel)


class _Fut:
    def result(self, timeout=None):
        return None


def make_recorder(real_cls, order_fn, store):
    """A stand-in for ThreadPoolExecutor: validates its arguments with the real class, records the submitted tasks (function,
    argument arrays) and runs them when the `with` block ends, in the order order_fn(number of tasks)."""
    class Recorder:
        def __init__(self, *a, **kw):
            real = real_cls(*a, **kw)      # ValueError of max_workers <= 0 comes from the real class
            real.shutdown()
            self.tasks = []
            self.perm = []
            store.append(self)

        def __enter__(self):
            return self

        def submit(self, fn, *args, **kw):
            self.tasks.append((fn, args, kw))
            return _Fut()

        def shutdown(self, *a, **kw):
            pass

        def __exit__(self, et, ev, tb):
            if et is None:
                self.perm = [int(k) for k in order_fn(len(self.tasks))]
                for k in self.perm:
                    fn, args, kw = self.tasks[k]
                    fn(*args, **kw)
            return False
    return Recorder


def patched(owner, attr, value, fn):
    orig = getattr(owner, attr)
    setattr(owner, attr, value)
    try:
        return fn()
    finally:
        setattr(owner, attr, orig)


def run(chk, arim, rng, quick):
    import arim.ray
    import arim.model
    import arim.helpers
    import arim.geometry as g
    import arim.settings as s

    REAL_TPE = concurrent.futures.ThreadPoolExecutor
    scale = 1 if quick else 10
    total = 0

    def ri(a, b):
        """integer in [a, b]"""
        return int(rng.integers(a, b + 1))

    def pick(seq):
        return seq[int(rng.integers(0, len(seq)))]

    def order_fn(kind):
        def f(k):
            if kind == "id":
                return list(range(k))
            if kind == "rev":
                return list(range(k))[::-1]
            return [int(x) for x in rng.permutation(k)]
        return f

    def dy(shape, lo=-16, hi=16):
        """dyadic values: multiples of 1/4"""
        return rng.integers(lo, hi + 1, size=shape).astype(np.float64) * 0.25

    def report(fam, key, cases, bad, show=None):
        if not bad:
            return
        model = {}
        if show is not None:
            try:
                out = chk.coq_values(f"tie_C13_{fam}_show", PREAMBLE, [f"{show} ({cases[i]['lit']})" for i in bad[:3]])
                parts = [p.strip() for p in re.split(r"(?m)^\s*= ", out)]
                for n_, i in enumerate(bad[:3]):
                    model[i] = parts[n_ + 1][:3000] if n_ + 1 < len(parts) else out[-3000:]
            except Exception as e:  # noqa: BLE001
                model = {i: f"(could not print: {e})"[:500] for i in bad[:3]}
        for i in bad[:6]:
            c = cases[i]
            chk.violation(f"tie:{key}:{c.get('kind', '')}",
                          f"model of Blocks.v and arim disagree ({CORR[fam]}) on {c.get('kind', '')}",
                          dict(c["replay"], model_answer=model.get(i, "differs from the arim answer (see coq literal)"),
                               coq_case=c["lit"][:6000], correspondence=CORR[fam]),
                          failing_input_found=False)

    # =====================================================================================================================
    # A. py_ceil_div vs math.ceil(a / b)
    # =====================================================================================================================
    cases = []

    def ceil_case(a, b, kind):
        try:
            r = math.ceil(a / b)
        except ZeroDivisionError:
            r = None
        cases.append({"kind": kind, "lit": cpair(cZ(a), cZ(b), copt(r, cZ)),
                      "replay": {"a": a, "b": b, "arim_answer": r if r is not None else "ZeroDivisionError"}})
        chk.count(tie_C13=f"ceil:{kind}")

    for a, b in [(4, 3), (-4, 3), (-2, 3), (7, -2), (0, -2), (7, 0), (4000, 6), (0, 0), (0, 5), (6, 6), (5, 6), (7, 6),
                 (-5, 6), (-6, 6), (-7, 6), (1, 1), (1, -1)]:
        ceil_case(a, b, "fixed")
    for _ in range(120 * scale):
        u = rng.random()
        if u < 0.5:
            a, b = ri(-40, 60), ri(-12, 12)
        elif u < 0.8:
            b = pick([-7, -6, -3, -1, 1, 2, 3, 5, 6, 7])
            a = b * ri(-8, 8) + pick([-1, 0, 0, 1])
        else:
            a, b = ri(-50000, 50000), ri(-3000, 3000)
        ceil_case(a, b, "zero" if b == 0 else ("neg" if b < 0 else "pos"))
    bad = chk.coq_failing("tie_C13_ceil", PREAMBLE, "Z * Z * option Z", [c["lit"] for c in cases], "chk_ceil", shard=700)
    for i in bad[:6]:
        c = cases[i]
        chk.violation(f"tie:ceil:{c['kind']}", "py_ceil_div differs from math.ceil(a / b)",
                      dict(c["replay"], coq_case=c["lit"], correspondence=CORR["ceil"]), failing_input_found=False)
    total += len(cases)

    # =====================================================================================================================
    # B. chunk_array_py vs arim.helpers.chunk_array
    # =====================================================================================================================
    cases = []

    def chunk_case(shape, bs, axis, kind):
        shape = tuple(int(x) for x in shape)
        try:
            sels = list(arim.helpers.chunk_array(shape, bs, axis=axis))
            ans = 0
        except Exception as e:  # noqa: BLE001
            sels, ans = [], ecode(e)
        rngs = []
        probe = np.zeros(shape)
        for sel in sels:
            try:
                rngs.append(vranges(probe[sel], probe, shape))
            except Exception:  # noqa: BLE001
                rngs.append(BAD)
        lit = cpair(clist(shape, cZ), cZ(bs), cZ(axis), cZ(ans), clist([cselector(x) for x in sels]),
                    clist([czview(v) for v in rngs]))
        cases.append({"kind": kind, "lit": lit,
                      "replay": {"array_shape": list(shape), "block_size": bs, "axis": axis,
                                 "arim_answer": [jsel(x) for x in sels] if ans == 0 else
                                 [k for k, v in ECODES.items() if v == ans] or "other exception",
                                 "numpy_ranges(start,length)": rngs}})
        chk.count(tie_C13=f"chunk:{kind}")

    for shape, bs, axis in [((3, 5), 2, -1), ((7,), 3, 0), ((2, 5, 3), 2, -2), ((3, 5), -2, 1), ((3, 5), 0, 1),
                            ((3, 5), 2, 2), ((3, 5), 2, -3), ((0,), 3, 0), ((0, 4), 0, 0), ((5,), 5, -1), ((5,), 6, 0),
                            ((4, 1), 1, 1), ((2, 3, 4, 5), 2, 2), ((2, 3, 4, 5), 2, 1), ((2, 3, 4, 5), 3, -1)]:
        chunk_case(shape, bs, axis, "fixed")
    for _ in range(150 * scale):
        ndim = pick([1, 1, 2, 2, 2, 3, 3, 4])
        shape = [pick([0, 1, 1, 2, 3, 4, 5, 6, 7, 9]) for _ in range(ndim)]
        u = rng.random()
        if u < 0.72:
            axis = ri(-ndim, ndim - 1)
            L = shape[axis]
            bs = pick([1, 2, 3, max(1, L - 1), max(1, L), L + 1, 2 * L + 3, ri(1, 12), 50000])
            kind = f"ok:ndim{ndim}:{'neg' if axis < 0 else 'pos'}axis"
        elif u < 0.82:
            axis, bs, kind = ri(-ndim, ndim - 1), ri(-12, -1), "negative-block"
        elif u < 0.90:
            axis, bs, kind = ri(-ndim, ndim - 1), 0, "zero-block"
        else:
            axis, bs = pick([ndim, ndim + 1, -ndim - 1, -ndim - 2]), pick([0, 2, 3, -1])
            kind = "bad-axis"
        chunk_case(shape, bs, axis, kind)
    bad = chk.coq_failing("tie_C13_chunk", PREAMBLE, "chunk_case", [c["lit"] for c in cases], "chk_chunk", shard=400)
    report("chunk", "chunk", cases, bad, "show_chunk")
    total += len(cases)

    # =====================================================================================================================
    # C. find_minimum_times (results, error kinds, views) ; C2. the kernel on prefilled outputs
    # =====================================================================================================================
    cases = []

    def layout1(a):
        """time_1 as the caller may hand it: C order, Fortran order, or a strided view"""
        u = rng.random()
        if u < 0.6:
            return np.ascontiguousarray(a), "C"
        if u < 0.8:
            return np.asfortranarray(a), "F"
        big = np.zeros((2 * a.shape[0] + 1, a.shape[1]))
        big[::2][:a.shape[0]] = a
        return big[::2][:a.shape[0]], "strided"

    def layout2(a):
        u = rng.random()
        if u < 0.4:
            return np.asfortranarray(a), "F"
        if u < 0.7:
            return np.ascontiguousarray(a.T).T, "C.T"
        return np.ascontiguousarray(a), "C"

    def fmt_case(t1, t2, bs, nt, mode, kind, bs_absent=False, nt_absent=False):
        n, m = t1.shape
        m_, p = t2.shape
        kw = {}
        if not bs_absent:
            kw["block_size"] = bs
        if not nt_absent:
            kw["numthreads"] = nt
        bs_eff = s.BLOCK_SIZE_FIND_MIN_TIMES if (bs_absent or bs is None) else bs
        nt_eff = s.NUMTHREADS if (nt_absent or nt is None) else nt
        store = []
        views = None
        perm = []
        try:
            if mode == "pool":
                out_t, out_i = arim.ray.find_minimum_times(t1, t2, **kw)
            else:
                out_t, out_i = patched(arim.ray, "ThreadPoolExecutor", make_recorder(REAL_TPE, order_fn(mode), store),
                                       lambda: arim.ray.find_minimum_times(t1, t2, **kw))
            ans = 0
        except Exception as e:  # noqa: BLE001
            ans, out_t, out_i = ecode(e), None, None
            err = f"{type(e).__name__}: {e}"
        table = []
        if ans == 0:
            if out_t.shape != (n, p) or out_i.shape != (n, p):
                table = [[(float("nan"), -9)]]
            else:
                table = [[(float(out_t[i, j]), int(out_i[i, j])) for j in range(p)] for i in range(n)]
            if mode != "pool" and store:
                rec = store[-1]
                perm = rec.perm
                views = []
                for fn, args, _ in rec.tasks:
                    if len(args) != 4:
                        views.append([BAD])
                        continue
                    a1, a2, ot, oi = args
                    par1 = t1 if isinstance(a1, np.ndarray) and np.shares_memory(a1, t1) else _root(a1)
                    par2 = t2 if isinstance(a2, np.ndarray) and np.shares_memory(a2, t2) else _root(a2)
                    views.append([vranges(a1, par1, (n, m)), vranges(a2, par2, (m_, p)),
                                  vranges(ot, out_t, (n, p)), vranges(oi, out_i, (n, p))])
        t1l = np.asarray(t1).tolist()
        t2cl = np.asarray(t2).T.tolist()
        lit = ("(mkF " + " ".join([
            cZ(m), cZ(m_), cftab(t1l), cftab(t2cl), cZ(bs_eff), cZ(nt_eff), copt(None if mode == "pool" else perm, lambda pm: clist(pm, cZ)), cZ(ans),
            copt(views, lambda vs: clist([clist([czview(v) for v in task]) for task in vs])),
            clist([clist([cpair(cfloat(x), cZ(k)) for x, k in row]) for row in table])]) + ")")
        cases.append({"kind": kind, "lit": lit,
                      "replay": {"time_1": t1l, "time_2": np.asarray(t2).tolist(), "shapes": [[n, m], [m_, p]],
                                 "block_size": "absent" if bs_absent else bs, "numthreads": "absent" if nt_absent else nt,
                                 "execution": mode, "order": perm,
                                 "arim_answer": {"times_indices": table, "views(start,length) t1,t2,out_t,out_i": views}
                                 if ans == 0 else err}})
        chk.count(tie_C13=f"fmt:{kind}:{mode if ans == 0 else 'error'}")

    ex1 = np.array([[1, 5, 3], [4, 1, 1], [7, 2, 9], [0, 0, 0], [3, 3, 2]], float)
    ex2 = np.array([[2, 1, 4], [0, 0, 1], [5, 5, 5], [1, 3, 1]], float).T
    for bs, nt, mode in [(4, 2, "rev"), (1, 1, "id"), (1000, 16, "id"), (4, 2, "pool"), (-4, 2, "id"), (-3, 2, "rev"),
                         (-2, 2, "id"), (0, 2, "id"), (5, 0, "id"), (13, 2, "perm"), (6, 3, "perm")]:
        fmt_case(ex1, np.asfortranarray(ex2), bs, nt, mode, "fixed")
    fmt_case(np.zeros((2, 0)), np.zeros((0, 1)), 5, 1, "id", "fixed")
    fmt_case(ex1, np.asfortranarray(ex2[:2]), 4, 2, "id", "fixed")
    fmt_case(rng.integers(0, 4, (5, 3)).astype(float), rng.integers(0, 4, (3, 4)).astype(float), 4, 3, "perm", "fixed")
    fmt_case(rng.integers(0, 4, (2, 3)).astype(float), rng.integers(0, 4, (3, 2)).astype(float), 13, 1, "id", "fixed")

    for _ in range(130 * scale):
        n, m, p = ri(0, 7), pick([1, 1, 2, 2, 3, 3, 4, 5]), ri(0, 7)
        if rng.random() < 0.8:
            n, p = max(n, 1), max(p, 1)
        m_ = m
        u = rng.random()
        mode = pick(["id", "rev", "perm", "perm", "perm", "pool"])
        nt = pick([1, 2, 3, 5, 16])
        bs_absent = nt_absent = False
        if u < 0.62:
            kind = "ok"
            adj = pick([1, 1, 2, 2, 3, max(1, n - 1), max(1, p - 1), max(n, 1), max(p, 1), max(n, p) + 1])
            bs = max(1, adj * m - ri(0, m - 1))
            w = rng.random()
            if w < 0.08:
                bs, kind = 50000, "ok-one-tile"
            elif w < 0.14:
                bs_absent, kind = True, "ok-absent-block"
            elif w < 0.18:
                bs, kind = None, "ok-None-block"
            w = rng.random()
            if w < 0.08:
                nt_absent = True
            elif w < 0.14:
                nt = None
        elif u < 0.72:
            kind, bs = "negative-block-no-task", -m * ri(1, 3) - pick([0, 0, 1, 2])
        elif u < 0.79:
            kind, bs = "zero-adjusted-block", pick([0, 0, -1, -(m - 1), -ri(0, m - 1)])
        elif u < 0.85:
            kind, nt, bs = "bad-numthreads", pick([0, 0, -1, -3]), pick([1, m, 2 * m + 1, 0, -1, -5 * m])
        elif u < 0.91:
            kind, m_, bs = "shape-mismatch", pick([x for x in (0, 1, 2, 3, 4, 5, 6) if x != m]), pick([1, 4, 0, -2 * m])
            if rng.random() < 0.3:
                nt = 0
        else:
            kind, m, m_, bs = "empty-m", 0, 0, pick([5, 1, 0, -3])
            if rng.random() < 0.3:
                nt = 0
        a1 = rng.integers(0, 7, size=(n, m)).astype(np.float64) * pick([1.0, 0.25, 0.5])
        a2 = rng.integers(-3, 4, size=(m_, p)).astype(np.float64) * pick([1.0, 0.25, 0.5])
        t1, l1 = layout1(a1)
        t2, l2 = layout2(a2)
        fmt_case(t1, t2, bs, nt, mode, kind, bs_absent, nt_absent)
        chk.count(tie_C13_layout=f"fmt:{l1}/{l2}")
    bad = chk.coq_failing("tie_C13_fmt", PREAMBLE, "fcase", [c["lit"] for c in cases], "chk_fmt", shard=170)
    report("fmt", "fmt", cases, bad, "show_fmt")
    total += len(cases)

    # ---- C2: the kernel itself, on views of prefilled arrays -------------------------------------------------------------
    cases = []
    for it in range(40 * scale):
        n, m, p = ri(0, 4), ri(0, 4), ri(0, 4)
        r0, c0 = ri(0, 2), ri(0, 2)
        N, P = r0 + n + ri(0, 2), c0 + p + ri(0, 2)
        rows = np.ascontiguousarray(rng.integers(0, 6, size=(n, m)).astype(np.float64) * 0.5)
        t2 = np.asfortranarray(rng.integers(-2, 4, size=(m, p)).astype(np.float64) * 0.5)
        big_t = np.full((N, P), np.inf)
        big_i = np.full((N, P), -1, dtype=s.INT)
        filled = rng.random((N, P)) < 0.6
        big_t[filled] = (rng.integers(-2, 8, size=(N, P)).astype(np.float64) * 0.5)[filled]
        big_i[filled] = rng.integers(0, 9, size=(N, P))[filled]
        before = [[(float(big_t[i, j]), int(big_i[i, j])) for j in range(P)] for i in range(N)]
        arim.ray._find_minimum_times(rows, t2, big_t[r0:r0 + n, c0:c0 + p], big_i[r0:r0 + n, c0:c0 + p])
        after = [[(float(big_t[i, j]), int(big_i[i, j])) for j in range(P)] for i in range(N)]

        def ctab(t):
            return clist([clist([cpair(cfloat(x), cZ(k)) for x, k in row]) for row in t])
        lit = ("(mkK " + " ".join([cftab(rows.tolist()), cftab(t2.T.tolist()), cZ(r0), cZ(c0), cZ(N), cZ(P),
                                   ctab(before), ctab(after)]) + ")")
        cases.append({"kind": "prefilled", "lit": lit,
                      "replay": {"time_1": rows.tolist(), "time_2": t2.tolist(), "view_origin": [r0, c0],
                                 "outputs_before(time,index)": before, "arim_answer": after}})
        chk.count(tie_C13="fmt_kernel:prefilled")
    bad = chk.coq_failing("tie_C13_fmtk", PREAMBLE, "kcase", [c["lit"] for c in cases], "chk_fmtk", shard=200)
    report("fmtk", "fmt-kernel", cases, bad, "model_fmtk")
    total += len(cases)

    # =====================================================================================================================
    # D. distance_pairwise (results, error kinds, views) ; D2. the kernel on a view of a prefilled array
    # =====================================================================================================================
    cases = []

    def cpoints(x, y, z):
        return f"(mkPts {clist(x, cfloat)} {clist(y, cfloat)} {clist(z, cfloat)})"

    def make_points(num, how):
        xyz = dy((num, 3), -20, 20)
        if how == "pythagorean" and num:
            xyz[:, 2] = 0.0
            xyz[:, 0] = 3.0 * rng.integers(-3, 4, size=num)
            xyz[:, 1] = 4.0 * rng.integers(-3, 4, size=num)
        if how == "from_xyz":
            return g.Points.from_xyz(xyz[:, 0].copy(), xyz[:, 1].copy(), xyz[:, 2].copy())
        return g.Points(xyz)

    def dist_case(p1, p2, out, bs, nt, mode, kind, bs_absent=False, nt_absent=False):
        x1, y1, z1 = (np.asarray(a).tolist() for a in (p1.x, p1.y, p1.z))
        x2, y2, z2 = (np.asarray(a).tolist() for a in (p2.x, p2.y, p2.z))
        num1, num2 = len(x1), len(x2)
        kw = {}
        if out is not None:
            kw["out"] = out
        if not bs_absent:
            kw["block_size"] = bs
        if not nt_absent:
            kw["numthreads"] = nt
        bs_eff = s.BLOCK_SIZE_EUC_DISTANCE if (bs_absent or bs is None) else bs
        nt_eff = s.NUMTHREADS if (nt_absent or nt is None) else nt
        out_lit = None if out is None else (int(out.shape[0]), int(out.shape[1]), out.tolist())
        store, views, perm = [], None, []
        try:
            if mode == "pool":
                r = g.distance_pairwise(p1, p2, **kw)
            else:
                r = patched(concurrent.futures, "ThreadPoolExecutor", make_recorder(REAL_TPE, order_fn(mode), store),
                            lambda: g.distance_pairwise(p1, p2, **kw))
            ans = 0
        except Exception as e:  # noqa: BLE001
            ans, r = ecode(e), None
            err = f"{type(e).__name__}: {e}"
        table = []
        if ans == 0:
            if out is not None and r is not out:
                chk.violation("tie:dist:out-identity", "distance_pairwise(out=...) does not return the array it was given",
                              {"num1": num1, "num2": num2, "block_size": bs, "correspondence": CORR["dist"]},
                              failing_input_found=False)
            if not isinstance(r, np.ndarray) or r.shape != (num1, num2):
                table = [[float("nan")]]
            else:
                table = r.tolist()
            if mode != "pool" and store:
                rec = store[-1]
                perm = rec.perm
                views = []
                parents = [p1.x, p1.y, p1.z, p2.x, p2.y, p2.z]
                for fn, args, _ in rec.tasks:
                    if len(args) != 7:
                        views.append([BAD])
                        continue
                    vs = [vranges(args[k], parents[k], (num1,) if k < 3 else (num2,)) for k in range(6)]
                    vs.append(vranges(args[6], r, (num1, num2)))
                    views.append(vs)
        lit = ("(mkD " + " ".join([
            cpoints(x1, y1, z1), cpoints(x2, y2, z2),
            copt(out_lit, lambda o: cpair(cZ(o[0]), cZ(o[1]), cftab(o[2]))),
            cZ(bs_eff), cZ(nt_eff), copt(None if mode == "pool" else perm, lambda pm: clist(pm, cZ)), cZ(ans),
            copt(views, lambda vs: clist([clist([czview(v) for v in task]) for task in vs])),
            cftab(table)]) + ")")
        cases.append({"kind": kind, "lit": lit,
                      "replay": {"points1_xyz": [x1, y1, z1], "points2_xyz": [x2, y2, z2],
                                 "out": None if out_lit is None else {"shape": out_lit[:2], "content": out_lit[2]},
                                 "block_size": "absent" if bs_absent else bs, "numthreads": "absent" if nt_absent else nt,
                                 "execution": mode, "order": perm,
                                 "arim_answer": {"distance": table, "views(start,length) x1,y1,z1,x2,y2,z2,distance": views}
                                 if ans == 0 else err}})
        chk.count(tie_C13=f"dist:{kind}:{mode if ans == 0 else 'error'}")

    def make_out(num1, num2):
        """a preallocated output of the right shape: owner C, Fortran order, or a window of a bigger array"""
        u = rng.random()
        content = dy((num1, num2), 0, 400)
        if u < 0.5:
            return content.copy(), "C"
        if u < 0.7:
            return np.asfortranarray(content), "F"
        big = np.full((num1 + 3, num2 + 4), 77.0)
        win = big[1:1 + num1, 2:2 + num2]
        win[...] = content
        return win, "window"

    P1 = g.Points(np.array([[0, 0, 0], [3, 4, 0], [0, 0, 2.]]))
    P2 = g.Points(np.array([[0, 0, 0], [0, 4, 3.]]))
    for bs, nt, mode in [(6, 1, "id"), (7, 2, "rev"), (1, 1, "id"), (600, 3, "rev"), (-6, 1, "id"), (-7, 3, "perm"),
                         (-5, 1, "id"), (0, 1, "id"), (6, 0, "id"), (7, 2, "pool")]:
        dist_case(P1, P2, np.full((3, 2), 99.0), bs, nt, mode, "fixed")
    dist_case(P1, P2, None, -12, 1, "id", "fixed")
    dist_case(P1, P1, None, 7, 1, "id", "fixed")
    dist_case(P1, P2, None, 7, 2, "rev", "fixed")
    dist_case(P1, P2, np.zeros((2, 3)), 6, 1, "id", "fixed")
    dist_case(types.SimpleNamespace(x=np.zeros(1), y=np.zeros(0), z=np.zeros(1), dtype=np.dtype(float)), P2, None, 6, 1,
              "id", "fixed")

    for _ in range(130 * scale):
        num1, num2 = ri(0, 7), ri(0, 7)
        if rng.random() < 0.8:
            num1, num2 = max(num1, 1), max(num2, 1)
        how = pick(["plain", "plain", "pythagorean", "from_xyz"])
        p1, p2 = make_points(num1, how), make_points(num2, how)
        mode = pick(["id", "rev", "perm", "perm", "perm", "pool"])
        nt = pick([1, 2, 3, 5, 16])
        out = None
        bs_absent = nt_absent = False
        u = rng.random()
        if u < 0.62:
            kind = "ok"
            chunk = pick([1, 1, 2, 2, 3, max(1, num1 - 1), max(1, num2 - 1), max(num1, 1), max(num1, num2) + 1])
            bs = 6 * chunk - ri(0, 5)
            w = rng.random()
            if w < 0.08:
                bs_absent, kind = True, "ok-absent-block"
            elif w < 0.12:
                bs, kind = None, "ok-None-block"
            w = rng.random()
            if w < 0.08:
                nt_absent = True
            elif w < 0.14:
                nt = None
        elif u < 0.72:
            kind, bs = "negative-block-no-task", -6 * ri(1, 3) - pick([0, 0, 1, 3, 5])
        elif u < 0.79:
            kind, bs = "zero-chunk", pick([0, 0, -1, -5, -ri(0, 5)])
        elif u < 0.85:
            kind, nt, bs = "bad-numthreads", pick([0, 0, -1, -3]), pick([1, 6, 13, 0, -1, -30])
        elif u < 0.93:
            kind = "bad-out-shape"
            shp = pick([(num2 + 1, num1), (num1 + 1, num2), (num1, num2 + 1), (max(num1 - 1, 0), num2 + 2), (0, 0)])
            if shp == (num1, num2):
                shp = (num1 + 2, num2)
            out = dy(shp, 0, 40)
            bs = pick([6, 7, 0, -12])
            nt = pick([1, 2, 0])
        else:
            kind = "coordinate-lengths"
            x, y, z = dy((num1,)), dy((num1,)), dy((num1,))
            which = pick(["y1", "z1", "y2", "z2"])
            short = dy((num1 + pick([1, 2]) if which[1] == "1" else num2 + pick([1, 2]),))
            if which == "y1":
                p1 = types.SimpleNamespace(x=x, y=short, z=z, dtype=np.dtype(float))
            elif which == "z1":
                p1 = types.SimpleNamespace(x=x, y=y, z=short, dtype=np.dtype(float))
            elif which == "y2":
                p2 = types.SimpleNamespace(x=p2.x, y=short, z=p2.z, dtype=np.dtype(float))
            else:
                p2 = types.SimpleNamespace(x=p2.x, y=p2.y, z=short, dtype=np.dtype(float))
            bs = pick([6, 7, 0])
            nt = pick([1, 0])
        lay = "none"
        if out is None and kind not in ("bad-out-shape", "coordinate-lengths") and rng.random() < 0.5:
            out, lay = make_out(num1, num2)
        dist_case(p1, p2, out, bs, nt, mode, kind, bs_absent, nt_absent)
        chk.count(tie_C13_layout=f"dist:out={lay}:{how}")
    bad = chk.coq_failing("tie_C13_dist", PREAMBLE, "dcase", [c["lit"] for c in cases], "chk_dist", shard=170)
    report("dist", "dist", cases, bad, "show_dist")
    total += len(cases)

    # ---- D2: the kernel itself -------------------------------------------------------------------------------------------
    cases = []
    for it in range(40 * scale):
        len1, len2 = ri(0, 5), ri(0, 5)
        nr, nc = ri(0, len1), ri(0, len2)            # shape of the output view: the loop bounds of the kernel
        if rng.random() < 0.6:
            nr, nc = len1, len2
        r0, c0 = ri(0, 2), ri(0, 2)
        N, P = r0 + nr + ri(0, 2), c0 + nc + ri(0, 2)
        a, b = dy((len1, 3), -20, 20), dy((len2, 3), -20, 20)
        big = dy((N, P), 0, 400)
        before = big.tolist()
        g._distance_pairwise(a[:, 0], a[:, 1], a[:, 2], b[:, 0], b[:, 1], b[:, 2], big[r0:r0 + nr, c0:c0 + nc])
        after = big.tolist()
        lit = ("(mkE " + " ".join([cpoints(a[:, 0].tolist(), a[:, 1].tolist(), a[:, 2].tolist()),
                                   cpoints(b[:, 0].tolist(), b[:, 1].tolist(), b[:, 2].tolist()),
                                   cZ(nr), cZ(nc), cZ(r0), cZ(c0), cZ(N), cZ(P), cftab(before), cftab(after)]) + ")")
        cases.append({"kind": "prefilled", "lit": lit,
                      "replay": {"points1": a.tolist(), "points2": b.tolist(), "view_shape": [nr, nc],
                                 "view_origin": [r0, c0], "distance_before": before, "arim_answer": after}})
        chk.count(tie_C13="dist_kernel:prefilled")
    bad = chk.coq_failing("tie_C13_distk", PREAMBLE, "ecase", [c["lit"] for c in cases], "chk_distk", shard=200)
    report("distk", "dist-kernel", cases, bad, "model_distk")
    total += len(cases)

    # =====================================================================================================================
    # E. the selector of the sensitivity loops on the three array shapes
    # =====================================================================================================================
    cases = []

    class RecAmp:
        """duck-typed model amplitudes (shape + __getitem__), as a ModelAmplitudes object is: records the selectors"""
        def __init__(self, arr):
            self.arr, self.shape, self.keys = arr, arr.shape, []

        def __getitem__(self, key):
            self.keys.append(key)
            return self.arr[key]

    def sens_case(npts, nt, ne, bs, which, kind, absent=False):
        A = (dy((npts, nt), -8, 8) + 1j * dy((npts, nt), -8, 8))
        w = dy((nt,), 0, 8)
        amp = RecAmp(A)
        f = arim.model.sensitivity_uniform_tfm if which == "uniform" else arim.model.sensitivity_model_assisted_tfm
        bs_eff = 4000 if absent else bs
        try:
            if absent:
                f(amp, w)
            else:
                f(amp, w, block_size=bs)
            ans = 0
        except TypeError as e:
            ans = 0 if not amp.keys else 5      # `None /= numtimetraces` after a loop without chunk: not part of sens_submit
            err = f"{type(e).__name__}: {e}"
        except Exception as e:  # noqa: BLE001
            ans = ecode(e)
            err = f"{type(e).__name__}: {e}"
        views = []
        if ans == 0:
            b1, b2, b3 = np.zeros((npts,)), np.zeros((npts, ne)), np.zeros((npts, nt))
            for key in amp.keys:
                try:
                    views.append([vranges(b1[key], b1, (npts,)), vranges(b2[key], b2, (npts, ne)),
                                  vranges(b3[key], b3, (npts, nt))])
                except Exception:  # noqa: BLE001
                    views.append([BAD])
        lit = cpair(cZ(npts), cZ(nt), cZ(ne), cZ(bs_eff), cZ(ans),
                    clist([clist([czview(v) for v in task]) for task in views]))
        cases.append({"kind": kind, "lit": lit,
                      "replay": {"function": f.__name__, "numpoints": npts, "numtimetraces": nt, "numelements": ne,
                                 "block_size": "absent" if absent else bs,
                                 "arim_answer": {"selectors": [jsel(k) for k in amp.keys],
                                                 "views(start,length) on (np,),(np,ne),(np,nt)": views}
                                 if ans == 0 else err}})
        chk.count(tie_C13=f"sens:{which}:{kind}")

    for bs in (2, 1, 5, -2, 0, 3, 4, 6):
        sens_case(5, 3, 4, bs, "uniform", "fixed")
        sens_case(5, 3, 4, bs, "model_assisted", "fixed")
    for _ in range(50 * scale):
        npts, nt, ne = pick([0, 1, 2, 3, 5, 6, 7, 9]), ri(1, 5), ri(0, 4)
        which = pick(["uniform", "model_assisted"])
        u = rng.random()
        if u < 0.7:
            sens_case(npts, nt, ne, pick([1, 2, 3, max(1, npts - 1), max(1, npts), npts + 1, ri(1, 12), 4000]), which, "ok")
        elif u < 0.78:
            sens_case(npts, nt, ne, None, which, "ok-absent-block", absent=True)
        elif u < 0.9:
            sens_case(npts, nt, ne, ri(-9, -1), which, "negative-block")
        else:
            sens_case(npts, nt, ne, 0, which, "zero-block")
    bad = chk.coq_failing("tie_C13_sens", PREAMBLE, "scase", [c["lit"] for c in cases], "chk_sens", shard=400)
    report("sens", "sens", cases, bad, "model_sens")
    total += len(cases)

    chk.cov["tie_C13_comparisons"] = total
    return total
