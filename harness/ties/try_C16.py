"""Development runner of the C16 tie alone (see /tmp/tie_brief.md):
  cd /verif && VERIF_ARIM_SRC=/repo/src PYTHONPATH=/verif/harness /venv/bin/python harness/ties/try_C16.py --tier quick --no-proofs
"""
import glob
import json
import os
import time

import numpy as np

from common import Check, cZ, cfloat, clist, cpair, copt, cbool
import arimgen
from arimgen import fhex, unhex

chk = Check("C16", design_ref="DESIGN.md §5 C16")
arim = chk.import_arim()

from ties import tie_C16

t0 = time.time()
n = tie_C16.run(chk, arim, chk.rng, chk.tier == "quick")
print(f"# tie_C16: {n} comparisons in {time.time() - t0:.1f} s; distribution: "
      f"{json.dumps({k: v for k, v in chk.hist.items() if k.startswith('tie_C16')})[:6000]}", flush=True)
chk.finish(evaluations=n, distinct_nontrivial=n, rule="tie only", samples=[])
