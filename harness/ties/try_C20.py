"""Development runner of the C20 tie (harness/ties/tie_C20.py) alone; see /tmp/tie_brief.md.
Run: cd /verif && VERIF_ARIM_SRC=/repo/src PYTHONPATH=/verif/harness /venv/bin/python harness/ties/try_C20.py --tier quick --no-proofs"""
import json
import time

from common import Check

chk = Check("C20", design_ref="DESIGN.md §5 C20")
arim = chk.import_arim()
import arim.config, arim.io, arim.io.native as native, arim.io.brain as brain  # noqa: E402,E401,F401

from ties import tie_C20  # noqa: E402

t0 = time.time()
n = tie_C20.run(chk, arim, chk.rng, chk.tier == "quick")
print(f"# tie_C20: {n} comparisons in {time.time() - t0:.1f}s; {json.dumps(chk.cov.get('tie_C20'))}", flush=True)
print("# library outcomes: " + json.dumps(chk.hist.get("tie_C20_library_outcome", {})), flush=True)
print("# outside the model: " + json.dumps(chk.hist.get("tie_C20_outside_model", {})), flush=True)
chk.finish(evaluations=n, distinct_nontrivial=n, rule="tie only", samples=[])
