"""Development runner of the C11 tie alone (see /tmp/tie_brief.md):
  cd /verif && VERIF_ARIM_SRC=/repo/src PYTHONPATH=/verif/harness /venv/bin/python harness/ties/try_C11.py --tier quick --no-proofs
"""
import json
import os
import sys
import time

sys.path.insert(0, os.path.dirname(os.path.dirname(os.path.abspath(__file__))))
from common import Check

chk = Check("C11", design_ref="DESIGN.md §5 C11")
arim = chk.import_arim()

from ties import tie_C11

t0 = time.time()
n = tie_C11.run(chk, arim, chk.rng, chk.tier == "quick")
print(f"# tie_C11: {n} comparisons in {time.time() - t0:.1f} s", flush=True)
if os.environ.get("TIE_HIST"):
    print(json.dumps({k: v for k, v in chk.hist.items() if k.startswith("tie_C11")}, indent=1)[:12000], flush=True)
chk.finish(evaluations=n, distinct_nontrivial=n, rule="tie only", samples=[])
