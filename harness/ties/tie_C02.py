"""Tie of Model/DasGlue.v (C02, the glue of arim.im.das around the numba kernels) to the real library, evaluated on
every run of the check.  The model side is computed by coqc (vm_compute) during the run.

Correspondence (see notes/prover_C02_TIE.md):

  plan (plan_noamp / plan_amp, run_kernel)     vs  arim.im.das.delay_and_sum(frame, focal_law, fillvalue, interpolation,
                                                   aggregation, result) on real Frame / FocalLaw / TxRxAmplitudes objects:
                                                   the first exception (kind and assertion site) or the kernel that was
                                                   called (spy on the module's kernel globals), the dtype of the returned
                                                   array and `returned is result`
  check_shapes                                 vs  das._check_shapes(frame, focal_law)          (first failing assertion)
  weigh_desc / weighted_rows                   vs  FocalLaw.weigh_timetraces(frame.timetraces)  (error, dtype, rows, `is`)
  infer_datatypes / promote / result_type      vs  das._infer_datatypes(timetraces, focal_law, result)
  txrx_init                                    vs  tfm.TxRxAmplitudes.__init__
  focal_law_init, numtx ... numtimetraces      vs  tfm.FocalLaw.__init__ and the properties
  lower / interp_code / aggr_code              vs  str.lower() and the comparisons with the six names
  das_call (NumQ, exact rationals)             vs  the image returned by das.delay_and_sum on dyadic inputs (binary64
                                                   exact: power-of-two numbers of timetraces, quarter-sample lookups)

The descriptor handed to the model is READ from the real objects (shape, dtype, flags.c_contiguous, _numtimetraces...).
Never executed on the library (only the model's classification is pinned, against the rule written here):
  * weighted timetraces whose row count is not len(frame.tx) (model: PUndefined UShapeDrift; out-of-bounds reads),
  * a robust aggregation on timetraces that are not complex128 with a `result=` that makes dtype_data complex128
    (finding G1 of the note: SystemError inside numba; model: PRaise EKernelRuntime).
numba compiles one kernel per type signature: the generator keeps the number of distinct signatures under a budget.
"""
import itertools
import time
import traceback
import warnings
from fractions import Fraction

import numpy as np

from common import cZ, cQ, cbool, clist, copt, cstr

PRELUDE = r"""From Coq Require Import Ascii String List ZArith Bool QArith.
From Arim Require Import Base.ListX Base.Num Base.NumQ Model.Das Model.Robust Model.DasGlue.
Import ListNotations.
Definition zl_eqb : list Z -> list Z -> bool := list_eqb Z.eqb.
Definition scode (s : assert_site) : Z :=
  match s with
  | SAmpTxShape => 1 | SAmpRxShape => 2 | SAmpTxContig => 3 | SAmpRxContig => 4 | SFrameTxShape => 5
  | SFrameRxShape => 6 | SLtxContig => 7 | SLrxContig => 8 | STtContig => 9 | STxContig => 10 | SRxContig => 11
  | STtNdim => 12 | SResultShape => 13 | SInterpArgs => 14
  end%Z.
Definition ecode (e : err) : list Z :=
  match e with
  | EAssert s => [1; scode s] | EBroadcast => [2; 0] | ENotImpl => [3; 0] | ENotImplTyping => [4; 0]
  | EValueInterp => [5; 0] | DasGlue.EAttribute => [6; 0] | EIndex => [7; 0] | EUnbound => [8; 0]
  | DasGlue.EArgCount => [9; 0] | ETyping => [10; 0] | EKernelRuntime => [11; 0]
  end%Z.
Definition dcode (d : dtype) : Z := match d with F32 => 0 | F64 => 1 | C64 => 2 | C128 => 3 end%Z.
Definition kcode (k : kernel) : Z :=
  match k with
  | KAmpNearest => 0 | KAmpLinear => 1 | KNoampNearest => 2 | KNoampLinear => 3 | KNoampLanczos => 4
  | KMedianNearest => 5 | KMedianLanczos => 6 | KHuberLanczos => 7
  end%Z.
Definition ucode (u : undef) : Z := match u with UShapeDrift => 0 | UIndex => 1 end%Z.
Definition obs_code (p : plan_out) : list Z :=
  match p with
  | PRaise e => 0%Z :: ecode e
  | PUndefined u => [1; ucode u]%Z
  | PRun k d g => [2%Z; kcode k; dcode d; Z.b2z g]
  end.
Definition NL (l : list Z) : list nat := map Z.to_nat l.
Definition A2 (r c : Z) (d : dtype) (k : bool) : arr2d := mkArr2d (Z.to_nat r) (Z.to_nat c) d k.
Definition RAW (s : list Z) (d : dtype) (k : bool) : raw_arr := mkRaw (NL s) d k.
Definition FR (nt : Z) (tts : list Z) (d : dtype) (c : bool) (txs : list Z) (txc : bool) (rxs : list Z) (rxc : bool)
  : frame_desc := mkFrameD (Z.to_nat nt) (NL tts) d c (NL txs) txc (NL rxs) rxc.
Definition FL (ltx lrx : arr2d) (amp : amp_desc) (w : option (Z * dtype)) (nt : option Z) : focal_desc :=
  mkFocalD ltx lrx amp (option_map (fun p => (Z.to_nat (fst p), snd p)) w) (option_map Z.to_nat nt).
Definition CALL (fr : frame_desc) (fl : focal_desc) (fc : bool) (i a : pyopt unit) (res : option (list Z * dtype))
  : call_desc unit unit := mkCall fr fl fc i a (option_map (fun p => (NL (fst p), snd p)) res).
Definition arr_code (a : arr2d) : list Z :=
  [Z.of_nat (a_rows a); Z.of_nat (a_cols a); dcode (a_dtype a); Z.b2z (a_contig a)].
Definition onat_code (o : option nat) : Z := match o with Some n => Z.of_nat n | None => (-1)%Z end.
Definition focal_code (f : focal_desc) : list Z :=
  arr_code (f_ltx f) ++ arr_code (f_lrx f)
  ++ (match f_amp f with FNone => [0%Z] | FTxRx a b => 1%Z :: arr_code a ++ arr_code b | FOther => [2%Z] end)
  ++ (match f_w f with Some (m, d) => [Z.of_nat m; dcode d] | None => [(-1)%Z; (-1)%Z] end)
  ++ [onat_code (f_numtimetraces f);
      Z.of_nat (numtx f); Z.of_nat (numrx f); Z.of_nat (numelements f); Z.of_nat (numgridpoints f);
      onat_code (numtimetraces f)].
Definition tcode (t : ctor_site) : Z :=
  match t with
  | TDtype => 1 | TNdim => 2 | LNdim => 3 | LRows => 4 | LWeightsNdim => 5 | LAmpTx => 6 | LAmpRx => 7
  | LArrNdim => 8 | LArrCols => 9 | LArrWeights => 10
  end%Z.
Definition AMP (k : Z) (a b : arr2d) (s : list Z) : amp_arg :=
  if (k =? 0)%Z then ANone else if (k =? 1)%Z then ATxRx a b else AArr (NL s).
Definition odcode (o : option dtype) : Z := match o with Some d => dcode d | None => (-1)%Z end.
Definition call_ok (o : das_out Q Q) (exp : list Z) (img : list Q) : bool :=
  match o with
  | ORaise e => zl_eqb (0%Z :: ecode e) exp
  | OUndefined u => zl_eqb [1%Z; ucode u] exp
  | OMean d g im => zl_eqb [2%Z; dcode d; Z.b2z g] exp && list_eqb Qeq_bool im img
  | ORobust _ _ _ => false
  end.
Definition kctl (amp : Z) : ctl :=
  mkCtl F64 true F64 F64 true F64 (if (amp =? 0)%Z then AmpNone else if (amp =? 1)%Z then AmpTxRx else AmpOther)
        F64 false F64.
Definition ROW (ltx lrx atx arx : list Q) : prow Q Q := mkRow ltx lrx atx arx.
Definition SCAN (tx rx : Z) (x : list Q) : scan Q := mkScan (Z.to_nat tx) (Z.to_nat rx) x.
Definition qcall (amp ns : Z) (dt t0 fill : Q) (i : pyopt Z) (a : pyopt Q) (w : option (list Q))
           (rows : list (prow Q Q)) (ss : list (scan Q)) (res : option (list Q)) : das_out Q Q :=
  das_call NumQ (DataReal NumQ) (fun x => (x, 0%Q)) (kctl amp) (1 # 1000)%Q (1 # 10)%Q (1 # 2)%Q ns dt t0 fill
           i a w rows ss res.
Inductive tcase :=
| CPlan (c : call_desc unit unit) (exp : list Z)
| CShapes (fr : frame_desc) (fl : focal_desc) (exp : Z)
| CWeigh (fr : frame_desc) (fl : focal_desc) (exp : list Z)
| CInfer (wt ltx lrx : dtype) (amp res : option dtype) (exp : list Z)
| CTxRx (tx rx : raw_arr) (force : bool) (exp : list Z)
| CFocal (ltx lrx : raw_arr) (amp : amp_arg) (w : option (list Z * dtype)) (force : bool) (exp : list Z)
| CLower (s low : string) (ic ac : Z)
| CCall (amp ns : Z) (dt t0 fill : Q) (i : pyopt Z) (a : pyopt Q) (w : option (list Q))
        (rows : list (prow Q Q)) (ss : list (scan Q)) (res : option (list Q)) (exp : list Z) (img : list Q).
Definition shapes_code (fr : frame_desc) (fl : focal_desc) : Z :=
  match check_shapes fr fl with Some s => scode s | None => (-1)%Z end.
Definition weigh_code (fr : frame_desc) (fl : focal_desc) : list Z :=
  match weigh_desc fr fl with
  | inl e => 0%Z :: ecode e
  | inr (d, r) => [1%Z; dcode d; Z.of_nat r; Z.b2z (match f_w fl with None => true | Some _ => false end)]
  end.
Definition infer_code (wt ltx lrx : dtype) (amp res : option dtype) : list Z :=
  match infer_datatypes wt ltx lrx amp res with
  | Some (f, a, d) => [dcode f; odcode a; dcode d]
  | None => []
  end.
Definition txrx_code (tx rx : raw_arr) (force : bool) : list Z :=
  match txrx_init tx rx force with inl t => [0%Z; tcode t] | inr (a, b) => 1%Z :: arr_code a ++ arr_code b end.
Definition focal_init_code (ltx lrx : raw_arr) (amp : amp_arg) (w : option (list Z * dtype)) (force : bool) : list Z :=
  match focal_law_init ltx lrx amp (option_map (fun p => (NL (fst p), snd p)) w) force with
  | inl t => [0%Z; tcode t]
  | inr f => 1%Z :: focal_code f
  end.
Definition check (c : tcase) : bool :=
  match c with
  | CPlan c exp => zl_eqb (obs_code (plan c)) exp
  | CShapes fr fl exp => (shapes_code fr fl =? exp)%Z
  | CWeigh fr fl exp => zl_eqb (weigh_code fr fl) exp
  | CInfer wt ltx lrx amp res exp => zl_eqb (infer_code wt ltx lrx amp res) exp
  | CTxRx tx rx force exp => zl_eqb (txrx_code tx rx force) exp
  | CFocal ltx lrx amp w force exp => zl_eqb (focal_init_code ltx lrx amp w force) exp
  | CLower s low ic ac =>
      (lower s =? low)%string && (interp_code (lower s) =? ic)%Z && (aggr_code (lower s) =? ac)%Z
  | CCall amp ns dt t0 fill i a w rows ss res exp img =>
      call_ok (qcall amp ns dt t0 fill i a w rows ss res) exp img
  end.
"""

DT = {"F32": np.float32, "F64": np.float64, "C64": np.complex64, "C128": np.complex128}
NAMES = ["F32", "F64", "C64", "C128"]
NAME = {np.dtype(v).name: k for k, v in DT.items()}
ECODE = {"EAssert": 1, "EBroadcast": 2, "ENotImpl": 3, "ENotImplTyping": 4, "EValueInterp": 5, "EAttribute": 6,
         "EIndex": 7, "EUnbound": 8, "EArgCount": 9, "ETyping": 10, "EKernelRuntime": 11}
SITES = ["?", "SAmpTxShape", "SAmpRxShape", "SAmpTxContig", "SAmpRxContig", "SFrameTxShape", "SFrameRxShape", "SLtxContig",
         "SLrxContig", "STtContig", "STxContig", "SRxContig", "STtNdim", "SResultShape", "SInterpArgs"]
# the assertion sites, recognised by the text of the failing statement (function, text)
SITE_TEXT = [
    ("_check_shapes", "amplitudes_tx.shape==(numpoints,numtx)", "SAmpTxShape"),
    ("_check_shapes", "amplitudes_rx.shape==(numpoints,numrx)", "SAmpRxShape"),
    ("_check_shapes", "amplitudes_tx.flags.c_contiguous", "SAmpTxContig"),
    ("_check_shapes", "amplitudes_rx.flags.c_contiguous", "SAmpRxContig"),
    ("_check_shapes", "frame.tx.shape==", "SFrameTxShape"),
    ("_check_shapes", "frame.rx.shape==", "SFrameRxShape"),
    ("_check_shapes", "lookup_times_tx.flags.c_contiguous", "SLtxContig"),
    ("_check_shapes", "lookup_times_rx.flags.c_contiguous", "SLrxContig"),
    ("_check_shapes", "frame.timetraces.flags.c_contiguous", "STtContig"),
    ("_check_shapes", "frame.tx.flags.c_contiguous", "STxContig"),
    ("_check_shapes", "frame.rx.flags.c_contiguous", "SRxContig"),
    ("weigh_timetraces", "asserttimetraces.ndim==2", "STtNdim"),
    ("delay_and_sum_numba", "assertresult.shape==(numpoints,)", "SResultShape"),
    ("delay_and_sum_numba_noamp", "assertresult.shape==(numpoints,)", "SResultShape"),
    ("delay_and_sum_numba_noamp", "assertlen(interpolation_args)==", "SInterpArgs"),
]
CTOR_TEXT = [
    ("amplitudes_tx.dtype==amplitudes_rx.dtype", 1), ("amplitudes_tx.ndim==amplitudes_rx.ndim==2", 2),
    ("lookup_times_tx.ndim==lookup_times_rx.ndim==2", 3), ("lookup_times_tx.shape[0]==lookup_times_rx.shape[0]", 4),
    ("timetrace_weights.ndim==1", 5), ("amplitudes.amplitudes_tx.shape==lookup_times_tx.shape", 6),
    ("amplitudes.amplitudes_rx.shape==lookup_times_rx.shape", 7), ("assertamplitudes.ndim==2", 8),
    ("amplitudes.shape[1]==lookup_times_tx.shape[1]", 9), ("amplitudes.shape[1]==numtimetraces", 10),
]
KERNELS = ["_delay_and_sum_amplitudes_nearest", "_delay_and_sum_amplitudes_linear", "_delay_and_sum_noamp",
           "_delay_and_sum_noamp_linear", "_delay_and_sum_noamp_lanczos", "_delay_and_sum_noamp_median_nearest",
           "_delay_and_sum_noamp_median_lanczos", "_delay_and_sum_noamp_huber_lanczos"]
EXACT = {"NotImplementedError": "ENotImpl", "NotImplementedTyping": "ENotImplTyping", "AttributeError": "EAttribute",
         "IndexError": "EIndex", "UnboundLocalError": "EUnbound", "TypeError": "EArgCount", "TypingError": "ETyping",
         "SystemError": "EKernelRuntime"}


def czl(l):
    return clist([cZ(x) for x in l])


def arim_frames(e):
    return [t for t in traceback.extract_tb(e.__traceback__) if "/arim/" in t.filename.replace("\\", "/")]


def classify(e):
    """the exception in the vocabulary of the model: (codes [ecode, site], text)"""
    n = type(e).__name__
    fr = arim_frames(e)
    loc = fr[-1] if fr else None
    where = f"{loc.filename.split('/')[-1]}:{loc.lineno} in {loc.name}: {loc.line}" if loc else "?"
    text = f"{n}: {str(e)[:120]} @ {where}"
    if n == "AssertionError":
        line = (loc.line or "").replace(" ", "") if loc else ""
        for fn, pat, site in SITE_TEXT:
            if loc is not None and loc.name == fn and pat in line:
                return [1, SITES.index(site)], text
        return [1, 0], text
    if n == "ValueError":
        if loc is not None and loc.name == "weigh_timetraces":
            return [2, 0], text
        if loc is not None and loc.name.startswith("delay_and_sum_numba"):
            return [5, 0], text
        return [99, 0], text
    if n in EXACT:
        return [ECODE[EXACT[n]], 0], text
    return [99, 0], text


def ctor_site(e):
    if type(e).__name__ != "AssertionError":
        return 99, f"{type(e).__name__}: {e}"[:200]
    fr = arim_frames(e)
    line = (fr[-1].line or "").replace(" ", "") if fr else ""
    for pat, code in CTOR_TEXT:
        if pat in line:
            return code, line
    return 0, line


def dname(x):
    """F32 / F64 / C64 / C128 of a dtype, None when it is another one"""
    return NAME.get(np.dtype(x).name)


def c_arr2d(a):
    return f"(A2 {cZ(a.shape[0])} {cZ(a.shape[1])} {dname(a.dtype)} {cbool(a.flags.c_contiguous)})"


def c_pyopt(o, conv=lambda x: "tt"):
    if isinstance(o, str):
        return f"(PStr {cstr(o)})"
    if len(o) == 0:
        return "PEmpty"
    return f"(PTup {cstr(o[0])} {clist([conv(x) for x in o[1:]])})"


class NotEncodable(Exception):
    pass


class _Tie:
    def __init__(self, chk, arim, rng, quick):
        import numba
        import arim.im.das as das
        import arim.im.tfm as tfm
        from arim.core import Frame, Probe, Time
        self.chk, self.rng, self.Q = chk, rng, quick
        self.numba, self.das, self.tfm, self.Frame, self.Probe, self.Time = numba, das, tfm, Frame, Probe, Time
        self.cases = []           # (literal, family, replay, model expression)
        self.n = 0
        self.jit_seen = set()
        self.jit_units = 0
        self.jit_budget = 42 if quick else 160
        self.called = []

    # -- bookkeeping ----------------------------------------------------------------------------------------------
    def add(self, lit, family, kind, replay, expr):
        self.cases.append((lit, family, replay, expr))
        self.chk.count(tie_C02=f"{family}:{kind}")
        self.n += 1

    def pick(self, seq):
        return seq[int(self.rng.integers(len(seq)))]

    # -- real objects from a spec -----------------------------------------------------------------------------------
    def build(self, s):
        """spec (a dict, superset of the format of notes/prover_C02_replay.py) -> frame, focal law, result"""
        rng, tfm = self.rng, self.tfm
        n, ns, npt = s.get("n", 2), s.get("ns", 8), s.get("npt", 3)
        ntx, nrx = s.get("ntx", 2), s.get("nrx", 2)
        pairs = s.get("pairs") or [(0, 0), (0, 1), (1, 1), (1, 0)][:n]
        F = s.get("faults", {})
        cplx = s["tt"] in ("C64", "C128")
        base = rng.integers(-8, 9, size=(n, ns)).astype(float)
        if s.get("generic"):       # data for the robust kernels: no collinear / repeated samples
            base = rng.normal(size=(n, ns)) * 4
        tt = base.astype(DT[s["tt"]])
        if cplx:
            tt = tt + 1j * (rng.normal(size=(n, ns)) * 4 if s.get("generic") else rng.integers(-8, 9, size=(n, ns))).astype(DT[s["tt"]])
        frame = self.Frame(np.ascontiguousarray(tt), self.Time(0.0, 1.0, ns), [p[0] for p in pairs], [p[1] for p in pairs],
                           self.Probe(np.zeros((max(ntx, nrx), 3)), 1e6), None)
        order = s.get("tt_order", "C")
        if order == "F":
            tt = np.asfortranarray(tt)
        elif order == "strided":
            tt = np.repeat(tt, 2, axis=1)[:, ::2]
        elif order == "1d":
            tt = np.ascontiguousarray(tt[0])
        elif order == "3d":
            tt = np.ascontiguousarray(tt[:, :, np.newaxis])
        elif order == "rows+1":
            tt = np.ascontiguousarray(np.vstack([tt, tt[:1]]))
        elif order == "rows-1":
            tt = np.ascontiguousarray(tt[:-1])
        frame.timetraces = tt
        for name in ("tx", "rx"):
            mode = F.get(name)
            a = getattr(frame, name)
            if mode == "longer":
                a = np.concatenate([a, a[:1]])
            elif mode == "shorter":
                a = a[:-1].copy()
            elif mode == "2d":
                a = a.reshape(-1, 1).copy()
            elif mode == "strided":
                a = np.repeat(a, 2)[::2]
            if mode:
                setattr(frame, name, a)
        lo, hi = (1.0, ns - 2.0) if s.get("generic") else (-2.0, ns + 1.0)
        ltx = (rng.integers(int(lo * 2), int(hi * 2) + 1, size=(npt, ntx)) * 0.25).astype(DT[s["lt"][0]])
        lrx = (rng.integers(int(lo * 2), int(hi * 2) + 1, size=(npt, nrx)) * 0.25).astype(DT[s["lt"][1]])
        amp = None
        if s["amp"] == "ndarray":
            amp = np.ones((npt, ntx))
        elif s["amp"] is not None:
            amp = tfm.TxRxAmplitudes(np.ones((npt, ntx), DT[s["amp"]]), np.ones((npt, nrx), DT[s["amp"]]))
        w = None
        if s["w"] is not None:
            w = (np.arange(s["w"][1]) + 1).astype(DT[s["w"][0]])
        fl = tfm.FocalLaw(ltx, lrx, amp, w)
        if s.get("lt_order", "C") == "F" or F.get("ltx") == "F":
            fl.lookup_times_tx = np.asfortranarray(fl.lookup_times_tx)
        if F.get("lrx") == "F":
            fl.lookup_times_rx = np.asfortranarray(fl.lookup_times_rx)
        if isinstance(amp, tfm.TxRxAmplitudes):
            d = DT[s["amp"]]
            if F.get("amp_tx") == "shape":
                amp.amplitudes_tx = np.ones((npt + 1, ntx), d)
            elif F.get("amp_tx") == "cols":
                amp.amplitudes_tx = np.ones((npt, ntx + 1), d)
            elif F.get("amp_tx") == "F":
                amp.amplitudes_tx = np.asfortranarray(amp.amplitudes_tx)
            if F.get("amp_rx") == "shape":
                amp.amplitudes_rx = np.ones((npt, nrx + 2), d)
            elif F.get("amp_rx") == "F":
                amp.amplitudes_rx = np.asfortranarray(amp.amplitudes_rx)
        res = None
        if s["result"] is not None:
            res = np.full(tuple(s["result"][0]), 7, dtype=DT[s["result"][1]])
        return frame, fl, res

    # -- descriptors read from the real objects ------------------------------------------------------------------------
    def c_frame(self, frame):
        tt, tx, rx = frame.timetraces, frame.tx, frame.rx
        if dname(tt.dtype) is None:
            raise NotEncodable("timetraces dtype")
        return (f"(FR {cZ(frame.numtimetraces)} {czl(tt.shape)} {dname(tt.dtype)} {cbool(tt.flags.c_contiguous)} "
                f"{czl(tx.shape)} {cbool(tx.flags.c_contiguous)} {czl(rx.shape)} {cbool(rx.flags.c_contiguous)})")

    def c_focal(self, fl):
        tfm = self.tfm
        a = fl.amplitudes
        if a is None:
            amp = "FNone"
        elif isinstance(a, tfm.TxRxAmplitudes):
            if a.amplitudes_tx.ndim != 2 or a.amplitudes_rx.ndim != 2:
                raise NotEncodable("amplitude ndim")
            amp = f"(FTxRx {c_arr2d(a.amplitudes_tx)} {c_arr2d(a.amplitudes_rx)})"
        else:
            amp = "FOther"
        w = fl.timetrace_weights
        if w is not None and (w.ndim != 1 or dname(w.dtype) is None):
            raise NotEncodable("weights")
        cw = "None" if w is None else f"(Some ({cZ(w.shape[0])}, {dname(w.dtype)}))"
        return (f"(FL {c_arr2d(fl.lookup_times_tx)} {c_arr2d(fl.lookup_times_rx)} {amp} {cw} "
                f"{copt(fl._numtimetraces, cZ)})")

    # -- the rules under which the library is NOT executed -----------------------------------------------------------------
    def guards(self, frame, fl, aggr, res):
        """(shape drift, G1) decided on the real objects"""
        tt, w = frame.timetraces, fl.timetrace_weights
        drift = False
        wt = tt.dtype
        if tt.ndim == 2:
            rows = tt.shape[0]
            if w is not None:
                wt = np.result_type(tt.dtype, w.dtype)
                try:
                    rows = np.broadcast_shapes((rows, 1), (w.shape[0], 1))[0]
                except ValueError:
                    rows = None
            drift = rows is not None and rows != frame.numtimetraces
        name = aggr.lower() if isinstance(aggr, str) else (aggr[0].lower() if len(aggr) else "")
        g1 = (name in ("median", "huber") and wt != np.complex128 and res is not None
              and np.result_type(wt, res.dtype) == np.complex128)
        return drift, g1

    def jit_key(self, s):
        """generator-side estimate of the numba signature a fault-free call compiles (cost only)"""
        interp, aggr = s["interp"], s["aggr"]
        iname = (interp if isinstance(interp, str) else (interp[0] if interp else "")).lower()
        aname = (aggr if isinstance(aggr, str) else (aggr[0] if aggr else "")).lower()
        wt = np.result_type(DT[s["tt"]], DT[s["w"][0]]) if s["w"] else np.dtype(DT[s["tt"]])
        amp = s["amp"] if s["amp"] not in (None, "ndarray") else None
        data = np.result_type(wt, DT[amp]) if amp else wt
        out = np.dtype(DT[s["result"][1]]) if s["result"] else data
        robust = aname in ("median", "huber")
        ni = 0 if isinstance(interp, str) else max(len(interp) - 1, 0)
        na = 0 if isinstance(aggr, str) else max(len(aggr) - 1, 0)
        if robust:
            valid = amp is None and ((aname == "median" and na == 0 and (iname, ni) in (("nearest", 0), ("lanczos", 1)))
                                     or (aname == "huber" and na == 1 and (iname, ni) == ("lanczos", 1)))
        else:
            valid = aname == "mean" and na == 0 and ((iname, ni) in (("nearest", 0), ("linear", 0))
                                                     or ((iname, ni) == ("lanczos", 1) and amp is None))
        if not valid:
            return None, 0
        cplx_in = wt.kind == "c" or (amp is not None and np.dtype(DT[amp]).kind == "c") or s["fill"] == "complex"
        if not robust and out.kind != "c" and cplx_in:
            return None, 0          # typing fails: cheap
        if robust and (wt != np.complex128 or out.kind != "c"):      # refused before the kernel, at typing, or never executed (G1)
            return None, 0
        return (iname, aname, amp, wt.name, tuple(s["lt"]), s["fill"], out.name), (5 if robust else 1)

    def affordable(self, s):
        if s.get("faults") or s["amp"] == "ndarray":
            return True
        key, units = self.jit_key(s)
        if key is None or key in self.jit_seen:
            return True
        if self.jit_units + units > self.jit_budget:
            return False
        self.jit_seen.add(key)
        self.jit_units += units
        return True

    # -- (1) plan, check_shapes, weigh_desc on one call ------------------------------------------------------------------------
    def one_call(self, s, kind):
        das = self.das
        if not self.affordable(s):
            self.chk.count(tie_C02="plan:skipped (numba signature budget)")
            return
        try:
            frame, fl, res = self.build(s)
        except Exception as e:  # noqa: BLE001   (a spec the constructors refuse: not a das call)
            self.chk.count(tie_C02=f"plan:not built ({type(e).__name__})")
            return
        interp = tuple(s["interp"]) if isinstance(s["interp"], list) else s["interp"]
        aggr = tuple(s["aggr"]) if isinstance(s["aggr"], list) else s["aggr"]
        if s.get("as_list"):
            interp = list(interp) if not isinstance(interp, str) else interp
            aggr = list(aggr) if not isinstance(aggr, str) else aggr
        fill = 1j if s["fill"] == "complex" else s.get("fillvalue", -7.0)
        try:
            cfr, cfl = self.c_frame(frame), self.c_focal(fl)
        except NotEncodable:
            self.chk.count(tie_C02="plan:not encodable")
            return
        cres = "None" if res is None else f"(Some ({czl(res.shape)}, {dname(res.dtype)}))"
        ccall = f"(CALL {cfr} {cfl} {cbool(isinstance(fill, complex))} {c_pyopt(interp)} {c_pyopt(aggr)} {cres})"
        rep = {"spec": s, "frame": cfr, "focal_law": cfl, "fillvalue": repr(fill), "interpolation": repr(interp),
               "aggregation": repr(aggr), "result": None if res is None else [list(res.shape), str(res.dtype)]}
        # ---- _check_shapes and weigh_timetraces on the same objects (never out of bounds)
        # (an ndarray `amplitudes` never reaches _check_shapes through delay_and_sum: AttributeError there, not modelled)
        try:
            das._check_shapes(frame, fl)
            sc, stext = -1, "passes"
        except Exception as e:  # noqa: BLE001
            cc, stext = classify(e)
            sc = cc[1] if cc[0] == 1 else 99
        if fl.amplitudes is None or isinstance(fl.amplitudes, self.tfm.TxRxAmplitudes):
            self.add(f"CShapes {cfr} {cfl} {cZ(sc)}", "check_shapes", "passes" if sc < 0 else SITES[sc] if sc < 99 else "other",
                     dict(rep, correspondence="Model.DasGlue.check_shapes vs arim.im.das._check_shapes", impl=stext),
                     f"shapes_code {cfr} {cfl}")
        try:
            out = fl.weigh_timetraces(frame.timetraces)
            if dname(out.dtype) is None or out.ndim != 2:
                wc, wtext = [98, 0], f"{out.dtype} {out.shape}"
            else:
                wc = [1, NAMES.index(dname(out.dtype)), out.shape[0], int(out is frame.timetraces)]
                wtext = f"dtype {out.dtype}, shape {out.shape}, is timetraces: {out is frame.timetraces}"
        except Exception as e:  # noqa: BLE001
            cc, wtext = classify(e)
            wc = [0] + cc
        self.add(f"CWeigh {cfr} {cfl} {czl(wc)}", "weigh_timetraces",
                 "error" if wc[0] == 0 else ("same object" if wc[-1] else "new array"),
                 dict(rep, correspondence="Model.DasGlue.weigh_desc vs arim.im.tfm.FocalLaw.weigh_timetraces", impl=wtext),
                 f"weigh_code {cfr} {cfl}")
        # ---- the call
        drift, g1 = self.guards(frame, fl, aggr, res)
        corr = "Model.DasGlue.plan vs arim.im.das.delay_and_sum"
        if drift or g1:
            if not s.get("clean"):
                self.chk.count(tie_C02="plan:skipped (undefined / G1 together with other faults)")
                return
            # G1: the robust kernel stores a complex128 value: numba refuses a real `result` at typing, else fails at run time
            exp = [1, 0] if drift else ([0, 11, 0] if res.dtype.kind == "c" else [0, 10, 0])
            self.add(f"CPlan {ccall} {czl(exp)}", "plan", "library NOT run: " + ("shape drift" if drift else "G1"),
                     dict(rep, correspondence=corr + " (library not executed: rule of the tie)",
                          impl="not executed; expected by the rule: " + ("PUndefined UShapeDrift" if drift else "PRaise EKernelRuntime (ETyping for a real result)")),
                     f"obs_code (plan {ccall})")
            return
        before = frame.timetraces.copy()
        self.called.clear()
        try:
            r = das.delay_and_sum(frame, fl, fillvalue=fill, interpolation=interp, aggregation=aggr, result=res)
            if not isinstance(r, np.ndarray) or dname(r.dtype) is None or len(self.called) != 1:
                exp, text = [98], f"returned {type(r).__name__} {getattr(r, 'dtype', '')}; kernels called: {self.called}"
            else:
                exp = [2, KERNELS.index(self.called[0]), NAMES.index(dname(r.dtype)), int(r is res)]
                text = f"ran {self.called[0]}, returned dtype {r.dtype}, is result: {r is res}"
                if r.shape != (fl.lookup_times_tx.shape[0],):
                    exp, text = [98], text + f", shape {r.shape}"
        except BaseException as e:  # noqa: BLE001
            cc, text = classify(e)
            exp = [0] + cc
            cause = repr(e.__cause__) + repr(e.__context__)
            if cc[0] == 11 and "suitable alpha" in cause:
                self.chk.count(tie_C02="plan:robust kernel stopped by geomed on this data (known C02 finding), excluded")
                return
        if not np.array_equal(before, frame.timetraces, equal_nan=True):
            exp, text = [97], text + "; frame.timetraces was modified"
        okind = ("raise:" + ([k for k, v in ECODE.items() if v == exp[1]] or ["other"])[0] + (":" + SITES[exp[2]] if exp[1] == 1 else "")
                 if exp[0] == 0 else ("run:" + KERNELS[exp[1]] + ":" + NAMES[exp[2]] + (":given" if exp[3] else ":fresh")
                                      if exp[0] == 2 else "other"))
        self.add(f"CPlan {ccall} {czl(exp)}", "plan", f"{kind}:{okind}", dict(rep, correspondence=corr, impl=text),
                 f"obs_code (plan {ccall})")

    def base(self, **kw):
        c = dict(tt="F64", lt=["F64", "F64"], w=None, amp=None, fill="real", interp="nearest", aggr="mean", result=None)
        c.update(kw)
        return c

    def spell(self, name):
        u = self.rng.random()
        if u < 0.4:
            return name
        if u < 0.6:
            return name.upper()
        if u < 0.75:
            return name.capitalize()
        return "".join(ch.upper() if self.rng.random() < 0.5 else ch for ch in name)

    def wrap(self, name, args):
        """a str or a tuple spelling of an option with its arguments"""
        if args or self.rng.random() < 0.25:
            return [name] + list(args)
        return name

    def valid_options(self, amp, cplx128):
        rng = self.rng
        if amp:
            return self.spell(self.pick(["nearest", "linear"])), self.spell("mean")
        u = rng.random()
        if cplx128 and u < 0.25:
            k = self.pick(["mn", "mn", "ml", "hl"])
            if k == "mn":
                return self.wrap(self.spell("nearest"), []), self.wrap(self.spell("median"), [])
            if k == "ml":
                return [self.spell("lanczos"), 2], self.wrap(self.spell("median"), [])
            return [self.spell("lanczos"), 2], [self.spell("huber"), 1.5]
        k = self.pick(["nearest", "nearest", "linear", "linear", "lanczos"])
        return self.wrap(self.spell(k), [int(rng.integers(2, 4))] if k == "lanczos" else []), self.wrap(self.spell("mean"), [])

    def random_profile(self):
        rng = self.rng
        if rng.random() < 0.55:
            return dict(tt=self.pick(["F64", "F64", "F64", "F32"]), lt=["F64", "F64"], fill="real",
                        w=self.pick([None, ["F64", None], ["F64", None], ["F32", None]]),
                        amp=self.pick([None, None, "F64"]), result=self.pick([None, None, "F64"]))
        p = dict(tt=self.pick(NAMES), lt=self.pick([["F64", "F64"], ["F64", "F64"], ["F32", "F64"], ["F32", "F32"]]),
                 fill="complex" if rng.random() < 0.2 else "real",
                 w=self.pick([None, None] + [[d, None] for d in NAMES]), amp=self.pick([None, None, None] + NAMES),
                 result=self.pick([None, None, None] + NAMES))
        return p

    def sized(self, p):
        """sizes, pairs, weights length (valid), result shape (valid)"""
        rng = self.rng
        ntx, nrx = int(rng.integers(1, 4)), int(rng.integers(1, 4))
        allp = list(itertools.product(range(ntx), range(nrx)))
        n = int(rng.integers(1, min(len(allp), 5) + 1))
        pairs = [allp[int(k)] for k in rng.permutation(len(allp))[:n]]
        s = self.base(**p)
        s.update(n=n, ns=int(rng.integers(4, 9)), npt=int(rng.integers(1, 5)), ntx=ntx, nrx=nrx, pairs=pairs)
        if s["w"] is not None:
            s["w"] = [s["w"][0], n if (rng.random() < 0.7 or n == 1) else 1]
        if s["result"] is not None and not isinstance(s["result"], list):
            s["result"] = [[s["npt"]], s["result"]]
        s["fillvalue"] = self.pick([-7.0, 0.0, float("nan"), 0.5])
        s["as_list"] = bool(rng.random() < 0.2)
        return s

    def fam_plan(self):
        rng, base = self.rng, self.base
        A = "F64"
        # (a) the fixed examples of the note (replay script, families b and c)
        fixed = [
            base(interp="NeArEsT", aggr="MEAN"), base(interp=["LancZos", 3], aggr=["Mean"]),
            base(interp="LINEAR"), base(interp=["linear"]), base(interp=[]), base(aggr=[]), base(interp=""),
            base(interp="lanczos"), base(interp=["nearest", 1]), base(aggr=["mean", 1]), base(aggr="foo"),
            base(interp="foo"), base(aggr="median", interp="foo"), base(tt="C128", aggr="median", interp="linear"),
            base(tt="C128", aggr="huber", interp=["lanczos", 2]), base(tt="C128", aggr=["huber", 1.5], interp="nearest"),
            base(tt="C128", aggr=["median", 1], interp="nearest"),
            base(result=[[5], "F64"]), base(result=[[3, 1], "F64"]), base(result=[[5], "F64"], interp="foo"),
            base(result=[[5], "F64"], aggr="foo"), base(result=[[5], "F64"], interp=[]),
            base(amp=A, interp="LINEAR", aggr="Mean"), base(amp=A, interp=["linear"]), base(amp=A, aggr=["mean"]),
            base(amp=A, aggr=[]), base(amp=A, interp=[]), base(amp=A, interp="lanczos"), base(amp=A, aggr="Median"),
            base(amp=A, result=[[5], "F64"], aggr="median"), base(amp=A, result=[[5], "F64"], aggr=["mean"]),
            base(amp=A, result=[[5], "F64"], interp="foo"), base(amp=A, result=[[5], "F64"]),
            base(amp="ndarray"), base(amp="ndarray", tt_order="F", result=[[5], "F64"], interp=[]),
            base(tt_order="F"), base(lt_order="F"), base(lt_order="F", tt_order="F"), base(amp=A, tt_order="F", aggr="median"),
            base(w=["F64", 3], aggr="foo"), base(w=["F64", 3], amp=A, aggr="median"), base(w=["F64", 1]),
            base(w=["F64", 0], clean=True), base(w=["F64", 1], n=1), base(w=["F64", 2], n=1, clean=True),
            base(w=["C128", 2]), base(w=["C128", 2], result=[[3], "F64"]),
            base(tt_order="F", w=["F64", 3]),
            base(tt="F32", w=["F64", 2]), base(tt="F64", result=[[3], "F32"]), base(tt="F32", amp="C64"),
            base(tt="C64", w=["F64", 2], interp="Linear", aggr=["MEAN"]), base(fill="complex"),
            base(fill="complex", result=[[3], "C128"]),
            base(tt="C128", aggr="median", generic=True, n=4), base(tt="C128", aggr="median", fill="complex", generic=True, n=4),
            base(tt="C64", w=["F64", 2], aggr="median"), base(tt="F64", aggr="median"), base(tt="C64", aggr=["huber", 1.5], interp=["lanczos", 2]),
            base(tt="C128", aggr="median", result=[[3], "F64"], generic=True, n=4),
            # G1: never executed
            base(tt="C64", aggr="median", result=[[3], "C128"], clean=True),
            base(tt="F64", aggr="median", result=[[3], "C64"], clean=True),
            base(tt="F32", aggr=["huber", 1.5], interp=["lanczos", 2], result=[[3], "C128"], clean=True),
            base(tt="F64", aggr="median", interp=["lanczos", 2], result=[[3], "C128"], clean=True),
            # shape drift: never executed
            base(tt_order="rows+1", clean=True), base(tt_order="rows-1", n=3, clean=True),
        ]
        for s in fixed:
            self.one_call(s, "fixed")
        N = 1 if self.Q else 10
        # (b) valid calls
        for _ in range(70 * N):
            s = self.sized(self.random_profile())
            wt128 = np.result_type(DT[s["tt"]], DT[s["w"][0]] if s["w"] else DT[s["tt"]]) == np.complex128
            s["interp"], s["aggr"] = self.valid_options(s["amp"], wt128 and s["result"] is None and s["amp"] is None)
            if not isinstance(s["aggr"], str) and s["aggr"][0].lower() != "mean" or (isinstance(s["aggr"], str) and s["aggr"].lower() != "mean"):
                s["generic"] = True
                s["fillvalue"] = 0.5
                s.update(n=4, ntx=2, nrx=2, pairs=None)
                if s["w"]:
                    s["w"][1] = 4
            self.one_call(s, "valid")
        # (c) one stream per error branch, then two faults at once
        opt_faults = [("interp", "foo"), ("interp", ""), ("interp", []), ("interp", ["nearest", 1]), ("interp", ["linear", 1, 2]),
                      ("interp", "lanczos"), ("interp", ["lanczos"]), ("interp", ["lanczos", 2, 3]), ("interp", ["foo", 1]),
                      ("aggr", "foo"), ("aggr", []), ("aggr", ["mean", 1]), ("aggr", ["mean"]), ("aggr", "median"),
                      ("aggr", "Huber"), ("aggr", ["huber", 1.5]), ("aggr", ["median", 1]), ("aggr", ["foo", 1]), ("aggr", "mean ")]
        obj_faults = [("tx", "longer"), ("tx", "shorter"), ("tx", "2d"), ("tx", "strided"), ("rx", "longer"), ("rx", "2d"),
                      ("rx", "strided"), ("ltx", "F"), ("lrx", "F"), ("amp_tx", "shape"), ("amp_tx", "cols"), ("amp_tx", "F"),
                      ("amp_rx", "shape"), ("amp_rx", "F")]
        spec_faults = [("tt_order", "F"), ("tt_order", "strided"), ("tt_order", "1d"), ("tt_order", "3d"), ("w", "bad length"),
                       ("result", "longer"), ("result", "2d"), ("result", "shorter"), ("amp", "ndarray"), ("fill", "complex"),
                       ("result", "real for complex data")]
        allf = [("opt", f) for f in opt_faults] + [("obj", f) for f in obj_faults] + [("spec", f) for f in spec_faults]

        def apply(s, fault):
            kind, (k, v) = fault
            if kind == "opt":
                s[k] = v
            elif kind == "obj":
                s.setdefault("faults", {})[k] = v
                if k.startswith("amp") and s["amp"] in (None, "ndarray"):
                    s["amp"] = "F64"
            elif k == "w":
                s["w"] = ["F64", s["n"] + int(rng.integers(1, 4))]
            elif k == "result":
                d = (s["result"] or [None, "F64"])[1]
                if v == "real for complex data":
                    s["tt"], d, s["result"] = "C128", "F64", None
                s["result"] = [{"longer": [s["npt"] + 1], "shorter": [s["npt"] - 1], "2d": [s["npt"], 1]}.get(v, [s["npt"]]), d]
            else:
                s[k] = v
            s.setdefault("faults", {}).setdefault("_", True)

        def faulty(nf):
            p = self.random_profile() if rng.random() < 0.3 else dict(tt="F64", lt=["F64", "F64"], fill="real", w=self.pick([None, ["F64", None]]),
                                                                     amp=self.pick([None, "F64"]), result=self.pick([None, "F64"]))
            s = self.sized(p)
            s["n"] = max(s["n"], 2) if len(list(itertools.product(range(s["ntx"]), range(s["nrx"])))) >= 2 else s["n"]
            if s["n"] == 1:
                s.update(ntx=2, nrx=2, n=2, pairs=[(0, 1), (1, 0)])
            elif s.get("pairs") and len(s["pairs"]) < s["n"]:
                s["pairs"] = None
                s.update(ntx=2, nrx=2, n=min(s["n"], 4))
            if s["w"]:
                s["w"][1] = s["n"]
            s["interp"], s["aggr"] = self.valid_options(s["amp"], False)
            return s

        for f in allf:
            for _ in range(2 * N):
                s = faulty(1)
                apply(s, f)
                self.one_call(s, "one fault")
        for _ in range(90 * N):
            s = faulty(2)
            i, j = rng.choice(len(allf), size=2, replace=False)
            apply(s, allf[int(i)])
            apply(s, allf[int(j)])
            self.one_call(s, "two faults")
        # (d) dtype / typing family on the cheap outcomes (typing errors cost no compilation) and G1 / drift rules
        for _ in range(40 * N):
            s = self.sized(dict(tt=self.pick(NAMES), lt=["F64", "F64"], fill=self.pick(["real", "complex"]),
                                w=self.pick([None] + [[d, None] for d in NAMES]), amp=self.pick([None] + NAMES),
                                result=self.pick(["F32", "F64"])))
            s["interp"], s["aggr"] = self.valid_options(s["amp"], False)
            self.one_call(s, "typing")
        for _ in range(12 * N):
            s = self.sized(dict(tt=self.pick(["F32", "F64", "C64"]), lt=["F64", "F64"], fill="real", w=None, amp=None,
                                result=self.pick([None, "F32", "F64", "C64", "C128"])))
            s["interp"], s["aggr"] = self.pick([("nearest", "median"), (["lanczos", 2], "Median"), (["lanczos", 3], ["huber", 1.5])])
            s["clean"] = True
            self.one_call(s, "robust guard")
        for _ in range(8 * N):
            s = self.sized(dict(tt="F64", lt=["F64", "F64"], fill="real", w=None, amp=self.pick([None, "F64"]), result=None))
            s["interp"], s["aggr"] = self.valid_options(s["amp"], False)
            s["clean"] = True
            if rng.random() < 0.5 and s["n"] >= 2:
                s["tt_order"] = self.pick(["rows+1", "rows-1"])
            else:
                s.update(n=1, pairs=[(0, 0)], w=["F64", int(self.pick([0, 2, 3]))])
            self.one_call(s, "drift")

    # -- (2) _infer_datatypes -----------------------------------------------------------------------------------------------
    def fam_infer(self):
        das, tfm, rng = self.das, self.tfm, self.rng
        combos = list(itertools.product(NAMES, NAMES, NAMES, [None] + NAMES, [None] + NAMES))
        idx = rng.permutation(len(combos))[:120 if self.Q else 1600]
        for k in idx:
            wt, a, b, amp, res = combos[int(k)]
            tt = np.zeros((2, 3), DT[wt])
            ampo = None if amp is None else tfm.TxRxAmplitudes(np.ones((2, 2), DT[amp]), np.ones((2, 2), DT[amp]))
            fl = tfm.FocalLaw(np.zeros((2, 2), DT[a]), np.zeros((2, 2), DT[b]), ampo)
            r = None if res is None else np.zeros(2, DT[res])
            try:
                f, am, d = das._infer_datatypes(tt, fl, r)
                exp = [NAMES.index(dname(f)), -1 if am is None else NAMES.index(dname(am)), NAMES.index(dname(d))]
                text = f"{f}, {am}, {d}"
            except Exception as e:  # noqa: BLE001
                exp, text = [99], f"{type(e).__name__}: {e}"[:200]
            args = f"{wt} {a} {b} {copt(amp, str)} {copt(res, str)}"
            self.add(f"CInfer {args} {czl(exp)}", "infer_datatypes", "amp" if amp else "noamp",
                     {"correspondence": "Model.DasGlue.infer_datatypes vs arim.im.das._infer_datatypes",
                      "timetraces": wt, "lookup_times": [a, b], "amplitudes": amp, "result": res, "impl": text},
                     f"infer_code {args}")

    # -- (3) constructors -------------------------------------------------------------------------------------------------------
    def raw(self, shape, d, order):
        a = np.ones(tuple(shape), DT[d])
        if order == "F":
            a = np.asfortranarray(a)
        elif order == "strided" and a.ndim >= 1 and a.shape[-1] > 0:
            a = np.repeat(a, 2, axis=-1)[..., ::2]
        return a

    def c_raw(self, a):
        return f"(RAW {czl(a.shape)} {dname(a.dtype)} {cbool(a.flags.c_contiguous)})"

    def arr_code(self, a):
        return [a.shape[0], a.shape[1], NAMES.index(dname(a.dtype)), int(a.flags.c_contiguous)]

    def fam_ctors(self):
        rng, tfm = self.rng, self.tfm

        def shape2(r=None, c=None):
            u = rng.random()
            r = int(rng.integers(1, 5)) if r is None else r
            c = int(rng.integers(1, 4)) if c is None else c
            if u < 0.82:
                return [r, c]
            return self.pick([[r], [r, c, 1], [], [c, r, 2]])

        for _ in range(60 if self.Q else 700):
            r, c = int(rng.integers(1, 5)), int(rng.integers(1, 4))
            d1 = self.pick(NAMES)
            d2 = d1 if rng.random() < 0.75 else self.pick(NAMES)
            tx = self.raw(shape2(r, c), d1, self.pick(["C", "F", "strided"]))
            rx = self.raw(shape2(r if rng.random() < 0.8 else None, None), d2, self.pick(["C", "F", "strided"]))
            force = bool(rng.random() < 0.6)
            try:
                o = tfm.TxRxAmplitudes(tx, rx, force) if rng.random() < 0.5 else tfm.TxRxAmplitudes(tx, rx, force_c_order=force)
                exp, text = [1] + self.arr_code(o.amplitudes_tx) + self.arr_code(o.amplitudes_rx), "constructed"
            except Exception as e:  # noqa: BLE001
                code, text = ctor_site(e)
                exp = [0, code]
            args = f"{self.c_raw(tx)} {self.c_raw(rx)} {cbool(force)}"
            self.add(f"CTxRx {args} {czl(exp)}", "TxRxAmplitudes", "ok" if exp[0] else f"assert {exp[1]}",
                     {"correspondence": "Model.DasGlue.txrx_init vs arim.im.tfm.TxRxAmplitudes.__init__", "tx": self.c_raw(tx),
                      "rx": self.c_raw(rx), "force_c_order": force, "impl": text}, f"txrx_code {args}")
        for _ in range(110 if self.Q else 1300):
            r, c, c2 = int(rng.integers(1, 5)), int(rng.integers(1, 4)), int(rng.integers(1, 4))
            force = bool(rng.random() < 0.6)
            ltx = self.raw(shape2(r, c), self.pick(NAMES[:2]), self.pick(["C", "F", "strided"]))
            lrx = self.raw(shape2(r if rng.random() < 0.85 else None, c2), self.pick(NAMES[:2]), self.pick(["C", "F"]))
            u = rng.random()
            amp, camp, akind = None, "(AMP 0 (A2 0 0 F64 true) (A2 0 0 F64 true) [])", "None"
            if u < 0.35:
                try:
                    da = self.pick(NAMES)
                    amp = tfm.TxRxAmplitudes(self.raw([r if rng.random() < 0.85 else r + 1, c if rng.random() < 0.85 else c + 1], da, "C"),
                                             self.raw([r if rng.random() < 0.85 else r + 1, c2 if rng.random() < 0.85 else c2 + 1], da, "C"),
                                             bool(rng.random() < 0.5))
                    camp = f"(AMP 1 {c_arr2d(amp.amplitudes_tx)} {c_arr2d(amp.amplitudes_rx)} [])"
                    akind = "TxRxAmplitudes"
                except AssertionError:
                    amp = None
            elif u < 0.6:
                sh = self.pick([[r, c], [r, c], [r, c + 1], [r + 1, c], [c], [r, c, 1]])
                amp = np.ones(tuple(sh))
                camp = f"(AMP 2 (A2 0 0 F64 true) (A2 0 0 F64 true) {czl(sh)})"
                akind = "ndarray"
            w, cw = None, "None"
            v = rng.random()
            if v < 0.45:
                m = self.pick([c, c, r, 1, 2, 3, 0])
                sh = [m] if rng.random() < 0.8 else self.pick([[m, 1], [1, m]])
                w = self.raw(sh, self.pick(NAMES), self.pick(["C", "strided"]))
                cw = f"(Some ({czl(w.shape)}, {dname(w.dtype)}))"
            elif v < 0.55:
                w = np.array(2.0) if not force or rng.random() < 0.5 else 2.0       # 0-d / Python float
                cw = "(Some ([], F64))"
            try:
                fl = tfm.FocalLaw(ltx, lrx, amp, w, force) if rng.random() < 0.5 else \
                    tfm.FocalLaw(lookup_times_tx=ltx, lookup_times_rx=lrx, amplitudes=amp, timetrace_weights=w, force_c_order=force)
                ex = self.arr_code(fl.lookup_times_tx) + self.arr_code(fl.lookup_times_rx)
                a = fl.amplitudes
                if a is None:
                    ex += [0]
                elif isinstance(a, tfm.TxRxAmplitudes):
                    ex += [1] + self.arr_code(a.amplitudes_tx) + self.arr_code(a.amplitudes_rx)
                else:
                    ex += [2]
                tw = fl.timetrace_weights
                ex += [-1, -1] if tw is None else [tw.shape[0] if tw.ndim == 1 else -2, NAMES.index(dname(tw.dtype))]
                ex += [-1 if fl._numtimetraces is None else fl._numtimetraces, fl.numtx, fl.numrx]
                with warnings.catch_warnings():
                    warnings.simplefilter("ignore")
                    ex += [fl.numelements]
                ex += [fl.numgridpoints]
                try:
                    ex += [fl.numtimetraces]
                except AttributeError:
                    ex += [-1]
                exp, text = [1] + [int(x) for x in ex], "constructed"
            except Exception as e:  # noqa: BLE001
                code, text = ctor_site(e)
                exp = [0, code]
            args = f"{self.c_raw(ltx)} {self.c_raw(lrx)} {camp} {cw} {cbool(force)}"
            self.add(f"CFocal {args} {czl(exp)}", "FocalLaw", f"{akind}:" + ("ok" if exp[0] else f"assert {exp[1]}"),
                     {"correspondence": "Model.DasGlue.focal_law_init, numtx, numrx, numelements, numgridpoints, numtimetraces vs "
                                        "arim.im.tfm.FocalLaw.__init__ and its properties",
                      "lookup_times_tx": self.c_raw(ltx), "lookup_times_rx": self.c_raw(lrx), "amplitudes": camp,
                      "timetrace_weights": cw, "force_c_order": force, "impl": text if not exp[0] else exp},
                     f"focal_init_code {args}")

    # -- (4) str.lower and the names ---------------------------------------------------------------------------------------------
    def fam_lower(self):
        rng = self.rng
        names = ["nearest", "linear", "lanczos", "mean", "median", "huber"]
        ascii_all = [chr(k) for k in range(32, 127)]
        words = [n for n in names] + [n.upper() for n in names] + ["", "Nearest ", "mean\\", "[]`@{", "LANCZOS3", "MeDiAn"]
        for _ in range(60 if self.Q else 600):
            w = self.spell(self.pick(names))
            if rng.random() < 0.4:
                k = int(rng.integers(len(w) + 1))
                w = w[:k] + self.pick(ascii_all) + w[k + int(rng.integers(2)):]
            words.append(w)
        for w in words:
            low = w.lower()
            ic = 0 if low == "nearest" else 1 if low == "linear" else 2 if low == "lanczos" else 3
            ac = 0 if low == "mean" else 1 if low == "median" else 2 if low == "huber" else 3
            self.add(f"CLower {cstr(w)} {cstr(low)} {cZ(ic)} {cZ(ac)}", "lower", "name" if ic < 3 or ac < 3 else "other",
                     {"correspondence": "Model.DasGlue.lower / interp_code / aggr_code vs str.lower() and the comparisons of das.py",
                      "string": w, "impl": [low, ic, ac]},
                     f"(lower {cstr(w)}, interp_code (lower {cstr(w)}), aggr_code (lower {cstr(w)}))")

    # -- (5) das_call on exact data ---------------------------------------------------------------------------------------------------
    def value_case(self, kind, ntx, nrx, pairs, ns, dt, t0, tt, ltx, lrx, atx, arx, w, fill, interp, aggr, prev, amp_kind):
        das, tfm = self.das, self.tfm
        n, npt = len(pairs), ltx.shape[0]
        frame = self.Frame(tt.copy(), self.Time(t0, dt, ns), [p[0] for p in pairs], [p[1] for p in pairs],
                           self.Probe(np.zeros((max(ntx, nrx), 3)), 1e6), None)
        amp = None
        if amp_kind == 1:
            amp = tfm.TxRxAmplitudes(atx, arx)
        elif amp_kind == 2:
            amp = np.ones((npt, ntx))
        fl = tfm.FocalLaw(ltx, lrx, amp, None if w is None else np.array(w, dtype=float))
        res = None if prev is None else np.array(prev, dtype=float)
        ip = tuple(interp) if isinstance(interp, list) else interp
        ag = tuple(aggr) if isinstance(aggr, list) else aggr
        drift, g1 = self.guards(frame, fl, ag, res)
        if drift or g1 or max(p[0] for p in pairs) >= ntx or max(p[1] for p in pairs) >= nrx:
            return
        before = frame.timetraces.copy()
        img = []
        try:
            r = das.delay_and_sum(frame, fl, fillvalue=fill, interpolation=ip, aggregation=ag, result=res)
            if r.dtype != np.float64 or not np.all(np.isfinite(r)) or r.shape != (npt,):
                exp, text = [98], f"{r.dtype} {r!r}"
            else:
                exp, img, text = [2, 1, int(r is res)], [float(x) for x in r], f"{[float(x) for x in r]}, is result: {r is res}"
        except BaseException as e:  # noqa: BLE001
            cc, text = classify(e)
            exp = [0] + cc
        if not np.array_equal(before, frame.timetraces):
            exp, text = [97], text + "; frame.timetraces was modified"
        cq = lambda l: clist([cQ(float(x)) for x in l])      # noqa: E731
        rows = clist([f"ROW {cq(ltx[p])} {cq(lrx[p])} {cq(atx[p]) if amp_kind == 1 else '[]'} {cq(arx[p]) if amp_kind == 1 else '[]'}"
                      for p in range(npt)])
        ss = clist([f"SCAN {cZ(pairs[k][0])} {cZ(pairs[k][1])} {cq(tt[k])}" for k in range(n)])
        akind = {0: 0, 1: 1, 2: 2}[amp_kind]
        args = (f"{cZ(akind)} {cZ(ns)} {cQ(dt)} {cQ(t0)} {cQ(fill)} {c_pyopt(ip, cZ)} {c_pyopt(ag, lambda x: cQ(float(x)))} "
                f"{copt(w, cq)} {rows} {ss} {copt(prev, cq)}")
        self.add(f"CCall {args} {czl(exp)} {cq(img)}", "das_call", f"{kind}:" + ("image" if exp[0] == 2 else "raise" if exp[0] == 0 else "other"),
                 {"correspondence": "Model.DasGlue.das_call (NumQ, DataReal) vs arim.im.das.delay_and_sum (image, dtype, identity)",
                  "pairs": pairs, "ns": ns, "dt": dt, "t0": t0, "timetraces": tt.tolist(), "lookup_times_tx": ltx.tolist(),
                  "lookup_times_rx": lrx.tolist(), "amplitudes_tx": atx.tolist() if amp_kind == 1 else None,
                  "amplitudes_rx": arx.tolist() if amp_kind == 1 else None, "timetrace_weights": w, "fillvalue": fill,
                  "interpolation": repr(ip), "aggregation": repr(ag), "result_before": prev, "impl": text},
                 f"qcall {args}")

    def fam_values(self):
        rng = self.rng
        # the examples of the note
        tt = np.array([[10.0, 20, 40, 80], [1, 2, 3, 4], [100, 200, 300, 400], [5, 6, 7, 8]])
        pairs = [(0, 0), (0, 1), (1, 1), (1, 0)]
        ltx = np.array([[-0.5, 0.0], [0.0, 0.0], [0.5, 0.0], [2.5, 0.0]])
        lrx = np.array([[0.0, 0.5]] * 4)
        one = np.ones((4, 2))
        E = lambda *a: self.value_case("fixed", 2, 2, pairs, 4, 1.0, 0.0, tt, *a)      # noqa: E731
        E(ltx, lrx, one, one, None, -7.0, "nearest", "mean", None, 0)
        E(ltx, lrx, one, one, [2.0], -7.0, "LINEAR", ["Mean"], [9.0] * 4, 0)
        E(ltx, lrx, np.array([[0.5, 4.0]] * 4), np.array([[1.0, 10.0]] * 4), [1.0, 2.0, 3.0, 4.0], 0.0, "nearest", "mean", None, 1)
        E(ltx, lrx, one, one, None, -7.0, "linear", "mean", None, 0)
        E(ltx[:2], lrx[:2], one[:2], one[:2], None, -7.0, "linear", "mean", None, 0)
        E(ltx[2:], lrx[2:], one[2:], one[2:], None, -7.0, "linear", "mean", None, 0)
        E(ltx + 100.0, lrx, one, one, None, -7.0, "linear", "mean", None, 0)
        E(ltx, lrx, one, one, [1.0, 2.0, 3.0], 0.0, "nearest", "mean", None, 0)
        E(ltx, lrx, one, one, None, 0.0, "nearest", "mean", [9.0] * 3, 0)
        E(ltx, lrx, one, one, None, 0.0, "nearest", "median", None, 0)
        E(ltx, lrx, one, one, None, 0.0, "nearest", "mean", None, 2)
        self.value_case("fixed", 2, 2, pairs, 4, 1.0, 0.0, np.full((4, 4), 3.25), np.array([[0.25, 0.5], [1.0, 1.5]]),
                        np.array([[0.0, 0.5], [1.0, 0.25]]), one[:2], one[:2], None, -7.0, "linear", "mean", None, 0)
        for _ in range(45 if self.Q else 500):
            ntx, nrx = int(rng.integers(1, 4)), int(rng.integers(1, 4))
            allp = list(itertools.product(range(ntx), range(nrx)))
            n = self.pick([m for m in (1, 2, 4, 8) if m <= len(allp)])
            pairs = [allp[int(k)] for k in rng.permutation(len(allp))[:n]]
            ns, npt = int(rng.integers(2, 7)), int(rng.integers(1, 5))
            dt = self.pick([1.0, 0.5, 2.0, 0.25])
            t0 = float(rng.integers(-4, 5)) * 0.25
            tt = rng.integers(-16, 17, size=(n, ns)) * self.pick([1.0, 0.5, 0.25])
            # positions on quarter samples from -2 to ns + 2, split between tx and rx
            pos = rng.integers(-8, 4 * ns + 9, size=(npt, ntx)) * 0.25
            off = rng.integers(-4, 5, size=(npt, nrx)) * 0.25
            ltx, lrx = pos * dt + t0, off * dt
            amp_kind = int(rng.random() < 0.4)
            atx = rng.integers(-4, 5, size=(npt, ntx)) * 0.5
            arx = rng.integers(-4, 5, size=(npt, nrx)) * 0.5
            u = rng.random()
            w = None if u < 0.4 else ([float(x) for x in rng.integers(-4, 5, size=n) * 0.5] if u < 0.8 else [float(self.pick([2.0, -0.5, 0.0]))])
            fill = self.pick([0.0, -7.0, 0.5, 3.0])
            prev = None if rng.random() < 0.5 else [float(x) for x in rng.integers(-9, 10, size=npt)]
            interp = self.spell(self.pick(["nearest", "linear"]))
            aggr = self.spell("mean")
            kind = "valid"
            if amp_kind == 0 and rng.random() < 0.3:
                interp, aggr = self.wrap(interp, []), self.wrap(aggr, [])
            v = rng.random()
            if v < 0.06 and n > 1:
                w, kind = [1.0] * (n + 1), "fault:weights"
            elif v < 0.12:
                prev, kind = [0.0] * (npt + 1), "fault:result"
            elif v < 0.16:
                aggr, kind = "median", "fault:median on real data"
            elif v < 0.19:
                amp_kind, kind, w = 2, "fault:ndarray amplitudes", None
            self.value_case(kind, ntx, nrx, pairs, ns, dt, t0, tt, ltx, lrx, atx, arx, w, fill, interp, aggr, prev, amp_kind)

    # -- evaluation in Coq ---------------------------------------------------------------------------------------------------------------
    def evaluate(self):
        chk, cases = self.chk, self.cases
        if not cases:
            return
        fails = chk.coq_failing("tie_C02", PRELUDE, "tcase", [x[0] for x in cases], "check", shard=300, jobs=8)
        if not fails:
            return
        per, report = {}, []
        for k in fails:
            fam = cases[k][1]
            per[fam] = per.get(fam, 0) + 1
            if per[fam] <= 3:
                report.append(k)
        try:
            out = chk.coq_values("tie_C02_answers", PRELUDE, [cases[k][3] for k in report])
            answers = [a.strip() for a in out.split("     = ")[1:]]
        except Exception as e:  # noqa: BLE001
            answers = [f"(could not be printed: {e})"[:300]] * len(report)
        for j, k in enumerate(report):
            lit, fam, rep, expr = cases[k]
            rep = dict(rep)
            rep["case_literal"] = lit[:3000]
            rep["model_expression"] = expr[:2500]
            rep["model_answer"] = (answers[j] if j < len(answers) else "?")[:2500]
            rep["legend"] = ("plan: [0, error, site] / [1, undefined] / [2, kernel, dtype, returned is result]; errors "
                             + str(ECODE) + "; sites " + str(SITES) + "; kernels " + str(KERNELS) + "; dtypes " + str(NAMES))
            rep["disagreeing_cases_of_this_family"] = per[fam]
            chk.violation("tie:" + fam, f"tie C02: {fam}: the library and Model/DasGlue.v disagree ({per[fam]} case(s)); "
                          f"{rep['correspondence'][:150]}; library: {str(rep.get('impl'))[:200]}", rep, failing_input_found=False)

    def run(self):
        numba, das = self.numba, self.das
        t0 = time.time()
        threads = numba.get_num_threads()
        originals = {k: getattr(das, k) for k in KERNELS}

        def spy(name, f):
            def g(*a, **k):
                self.called.append(name)
                return f(*a, **k)
            return g

        try:
            numba.set_num_threads(1)
            for k, f in originals.items():
                setattr(das, k, spy(k, f))
            with warnings.catch_warnings():
                warnings.simplefilter("ignore")
                t1 = t0
                for fam in (self.fam_plan, self.fam_infer, self.fam_ctors, self.fam_lower, self.fam_values):
                    try:
                        fam()
                    except Exception as e:  # noqa: BLE001   (the library refused objects every family builds as valid ones)
                        where = [f"{t.filename.split('/')[-1]}:{t.lineno} {t.line}" for t in traceback.extract_tb(e.__traceback__)][-3:]
                        self.chk.violation(f"tie:{fam.__name__}:exception",
                                           f"tie C02: {fam.__name__} stopped: {type(e).__name__}: {e} at {where}",
                                           {"correspondence": "construction of valid Frame / FocalLaw / TxRxAmplitudes objects "
                                                              "(Model.DasGlue.focal_law_init / txrx_init accept them)",
                                            "exception": f"{type(e).__name__}: {e}", "where": where}, failing_input_found=False)
                    if fam == self.fam_plan:
                        t1 = time.time()
        finally:
            for k, f in originals.items():
                setattr(das, k, f)
            numba.set_num_threads(threads)
        t2 = time.time()
        self.evaluate()
        self.chk.cov["tie_C02"] = {"comparisons": self.n, "numba_signatures": len(self.jit_seen), "plan_s": round(t1 - t0, 1),
                                   "library_s": round(t2 - t0, 1), "coq_s": round(time.time() - t2, 1)}
        return self.n


def run(chk, arim, rng, quick):
    """chk: common.Check of the running check; arim: the imported library; rng: numpy Generator.  Returns the number of
    comparisons made."""
    return _Tie(chk, arim, rng, quick).run()
