"""Tie of Model/GeometryGlue.v (C17) to the real library, evaluated on every run of the check.

Correspondence (see notes/prover_C17_TIE.md; src/arim/geometry.py):

  points_init / points_ndim / points_size / points_len / points_enumerate / pts_x,y,z / points_to_1d / points_norm2
                                   vs  Points(coords), .shape, .ndim, .size, len(), .enumerate(), iter(), .x/.y/.z, .to_1d_points(), .norm2()
  points_reshape P (RsInt n | RsTuple l)   vs  Points.reshape(n | tuple | list)
  points_translate NumF P dshape dflat     vs  Points.translate(direction)           (direction (3,) or coords.shape)
  points_rotate NumF P R centre            vs  Points.rotate(R, centre)              (one (3,3) matrix)
  closest_point NumF P x y z               vs  Points.closest_point(x, y, z)
  points_allclose NumF P Q atol rtol       vs  P.allclose(Q, atol, rtol)  /  are_points_close
  rectbox_free / rectbox_points / rectbox_grid   vs  points_in_rectbox(x, y, z, ...) / Points.points_in_rectbox / Grid.points_in_rectbox
  grid_init, vect_min / vect_max / vect_step, go_num*, grid_resample, grid_to_oriented_points
                                   vs  Grid(...), .xmin .. .zmax, .dx .. .dz, .numx .., .resample(), .to_oriented_points(), warnings
  grid_centred_obj                         vs  Grid.grid_centred_at_point(...)
  cs_new, cs_call_res / cs_call_step / cs_calls (CAssign SetOrigin|SetI|SetJ, CTranslate, CRotate, CCopy),
  c_k_hat, c_basis_matrix, c_isclose, c_convert_from_gcs, c_convert_to_gcs, c_convert_from_gcs_pairwise
                                   vs  CoordinateSystem(...), attribute assignments, .translate, .rotate, .copy, .k_hat, .basis_matrix,
                                       .isclose, .convert_from_gcs, .convert_to_gcs, .convert_from_gcs_pairwise on one object
  distance_pairwise_points                 vs  distance_pairwise(points1, points2, out=, block_size=, numthreads=)

The model runs inside coqc (vm_compute) on binary64 primitive floats (NumF): every number is compared bit for bit (two
NaN agree, the sign of a zero is not compared), every shape / index / boolean / warning / exception kind exactly.  Inputs
whose treatment by numpy may reassociate sums (matrix products, einsum) are dyadic (k / 2^s, small), so that every
operation is exact whatever the order; the others (grids, norms, setters, box bounds) also use arbitrary decimals, the
model performing the same IEEE operations in the same order.
"""
import math
import warnings

import numpy as np

from common import cZ, cfloat, clist

COQ_IMPORTS = """From Coq Require Import ZArith List Bool PrimFloat.
From Arim Require Import Base.Num Base.NumF Base.ListX Model.Vec3 Model.Geometry Model.GeometryGlue.
From Arim Require Model.Blocks.
Import ListNotations.
Definition feq (a b : float) : bool := PrimFloat.eqb a b || (negb (PrimFloat.eqb a a) && negb (PrimFloat.eqb b b)).
Definition itm : Type := (list Z * list float)%type.
Definition outc : Type := (Z * list Z * list float)%type.
Definition caseT : Type := (Z * list itm * list outc)%type.
Definition same (a b : outc) : bool :=
  let '(ka, za, fa) := a in let '(kb, zb, fb) := b in
  Z.eqb ka kb && list_eqb Z.eqb za zb && list_eqb feq fa fb.
Definition nats (l : list Z) : list nat := map Z.to_nat l.
Definition zs (l : list nat) : list Z := map Z.of_nat l.
Definition ecode (e : gerr) : Z :=
  match e with ValueError => 1 | IndexError => 2 | TypeError => 3 | AssertionError => 4 | ZeroDivisionError => 5
             | InvalidDimension => 6 | InvalidShape => 7 | NotModelled => 8 | OverflowError => 9 end%Z.
Definition err (e : gerr) : outc := (ecode e, [], []).
Definition it (l : list itm) (k : nat) : itm := nth k l ([], []).
Definition zat (x : itm) (k : nat) : Z := nth k (fst x) 0%Z.
Definition fat (x : itm) (k : nat) : float := nth k (snd x) zero.
Definition mkP (x : itm) : points float := mkNd (nats (fst x)) (group3 (snd x)).
Definition mkA (x : itm) : nd float := mkNd (nats (fst x)) (snd x).
Definition encPts (P : points float) : outc := (0%Z, zs (nd_shape P), ungroup3 (nd_data P)).
Definition encP (r : res (points float)) : outc := match r with inl e => err e | inr P => encPts P end.
Definition encF (a : nd float) : outc := (0%Z, zs (nd_shape a), nd_data a).
Definition bz (b : bool) : Z := if b then 1%Z else 0%Z.
Definition encB (r : res (nd bool)) : outc :=
  match r with inl e => err e | inr a => (0%Z, zs (nd_shape a) ++ [(-1)%Z] ++ map bz (nd_data a), []) end.
Definition encR (r : res float) : outc := match r with inl e => err e | inr v => (0%Z, [], [v]) end.
Definition encO (o : option float) : outc := match o with None => (0%Z, [0%Z], []) | Some v => (0%Z, [1%Z], [v]) end.
Definition v3 (l : list float) : vec3 float := (nth 0 l zero, nth 1 l zero, nth 2 l zero).
Definition m3 (l : list float) : mat3 float := (v3 l, v3 (skipn 3 l), v3 (skipn 6 l)).
Definition fl3 (v : vec3 float) : list float := [vx v; vy v; vz v].
Definition flm (m : mat3 float) : list float := fl3 (mrow0 m) ++ fl3 (mrow1 m) ++ fl3 (mrow2 m).
Definition optv (flag : Z) (l : list float) : option (vec3 float) := if (flag =? 0)%Z then None else Some (v3 l).
Definition bnd (x : itm) (k : nat) : option float := if (zat x k =? 0)%Z then None else Some (fat x k).
Definition pix (kind : Z) (l : list float) := if (kind =? 0)%Z then PxScalar (nth 0 l zero) else PxSeq l.

(* tag 0: Points(coords) and its observables *)
Definition ans_points (l : list itm) : list outc :=
  match points_init (nats (fst (it l 0))) (snd (it l 0)) with
  | inl e => [err e]
  | inr P =>
      let en := points_enumerate P in
      let pts := concat (map (fun x => match snd x with Some p => fl3 p | None => [] end) en) in
      [ encPts P;
        (0%Z, [Z.of_nat (points_ndim P); Z.of_nat (points_size P)], []);
        match points_len P with inl e => err e | inr n => (0%Z, [Z.of_nat n], []) end;
        (0%Z, concat (map (fun x => zs (fst x)) en), pts);
        (0%Z, [], pts);
        encF (pts_x P); encF (pts_y P); encF (pts_z P);
        encP (points_to_1d P);
        encF (points_norm2 NumF P) ]
  end.
(* tag 1: reshape *)
Definition ans_reshape (l : list itm) : list outc :=
  let a := fst (it l 1) in
  [encP (points_reshape (mkP (it l 0)) (if (hd 0%Z a =? 0)%Z then RsInt (nth 1 a 0%Z) else RsTuple (tl a)))].
(* tag 2: translate *)
Definition ans_translate (l : list itm) : list outc :=
  [encP (points_translate NumF (mkP (it l 0)) (nats (fst (it l 1))) (snd (it l 1)))].
(* tag 3: rotate *)
Definition ans_rotate (l : list itm) : list outc :=
  let r := it l 1 in
  [encPts (points_rotate NumF (mkP (it l 0)) (m3 (snd r)) (optv (zat r 0) (skipn 9 (snd r))))].
(* tag 4: closest_point *)
Definition ans_closest (l : list itm) : list outc :=
  let q := it l 1 in
  [match closest_point NumF (mkP (it l 0)) (fat q 0) (fat q 1) (fat q 2) with
   | inl e => err e | inr k => (0%Z, [Z.of_nat k], []) end].
(* tag 5: allclose *)
Definition ans_allclose (l : list itm) : list outc :=
  let q := it l 2 in
  [match points_allclose NumF (mkP (it l 0)) (mkP (it l 1)) (fat q 0) (fat q 1) with
   | inl e => err e | inr b => (0%Z, [bz b], []) end].
(* tag 6 / 7: points_in_rectbox, free function / Points method *)
Definition ans_rectfree (l : list itm) : list outc :=
  let b := it l 3 in
  [encB (rectbox_free NumF (mkA (it l 0)) (mkA (it l 1)) (mkA (it l 2)) (bnd b 0) (bnd b 1) (bnd b 2) (bnd b 3) (bnd b 4) (bnd b 5))].
Definition ans_rectpts (l : list itm) : list outc :=
  let b := it l 1 in
  [encB (rectbox_points NumF (mkP (it l 0)) (bnd b 0) (bnd b 1) (bnd b 2) (bnd b 3) (bnd b 4) (bnd b 5))].
(* tag 8 / 9: Grid *)
Definition axz (a : axis_name) : Z := match a with AxX => 0 | AxY => 1 | AxZ => 2 end%Z.
Definition enc_grid g : list outc :=
  [ encPts (go_points g);
    (0%Z, [Z.of_nat (go_numx g); Z.of_nat (go_numy g); Z.of_nat (go_numz g)], go_xvect g ++ go_yvect g ++ go_zvect g);
    (0%Z, map axz (go_warnings g), []) ].
Definition ans_grid (l : list itm) : list outc :=
  let a := it l 0 in let b := it l 2 in
  match grid_init NumF (fat a 0) (fat a 1) (fat a 2) (fat a 3) (fat a 4) (fat a 5) (pix (zat a 0) (snd (it l 1))) with
  | inl e => [err e]
  | inr g =>
      enc_grid g ++
      [ encR (vect_min (go_xvect g)); encR (vect_max (go_xvect g)); encR (vect_min (go_yvect g)); encR (vect_max (go_yvect g));
        encR (vect_min (go_zvect g)); encR (vect_max (go_zvect g));
        encO (vect_step NumF (go_xvect g)); encO (vect_step NumF (go_yvect g)); encO (vect_step NumF (go_zvect g));
        encB (rectbox_grid NumF g (bnd b 0) (bnd b 1) (bnd b 2) (bnd b 3) (bnd b 4) (bnd b 5));
        match grid_to_oriented_points NumF g with
        | inl e => err e
        | inr (Pp, Oo) => (0%Z, zs (nd_shape Pp) ++ zs (nd_shape Oo), ungroup3 (nd_data Pp) ++ concat (map flm (nd_data Oo)))
        end ] ++
      (match grid_resample NumF g (pix (zat (it l 3) 0) (snd (it l 3))) with
       | inl e => [err e]
       | inr g2 => enc_grid g2
       end)
  end.
Definition ans_centred (l : list itm) : list outc :=
  let a := it l 0 in
  match grid_centred_obj NumF (fat a 0) (fat a 1) (fat a 2) (fat a 3) (fat a 4) (fat a 5) (fat a 6) with
  | inl e => [err e]
  | inr g => enc_grid g
  end.
(* tag 10: CoordinateSystem: constructor, a history of calls on one object, observables of the final object *)
Definition arrof (x : itm) : arr float := (nats (fst x), snd x).
Definition dec_call (x : itm) :=
  let tag := zat x 0 in let r : itm := (tl (fst x), snd x) in
  if (tag =? 0)%Z then CAssign (SetOrigin (arrof r))
  else if (tag =? 1)%Z then CAssign (SetI (arrof r))
  else if (tag =? 2)%Z then CAssign (SetJ (arrof r))
  else if (tag =? 3)%Z then CTranslate (arrof r)
  else if (tag =? 4)%Z then CRotate (m3 (snd x)) (optv (zat x 1) (skipn 9 (snd x)))
  else CCopy.
Definition st9 c : list float := fl3 (c_origin c) ++ fl3 (c_i c) ++ fl3 (c_j c).
Fixpoint cs_hist c (ks : list (cs_call (T:=float))) : list Z * list float :=
  match ks with
  | [] => ([], [])
  | k :: r =>
      let code := match cs_call_res NumF c k with inl e => ecode e | inr _ => 0%Z end in
      let c' := cs_call_step NumF c k in
      let '(t, s) := cs_hist c' r in (code :: t, st9 c' ++ s)
  end.
Definition ans_cs (l : list itm) : list outc :=
  match cs_new NumF (arrof (it l 0)) (arrof (it l 1)) (arrof (it l 2)) with
  | inl e => [err e]
  | inr c0 =>
      let ks := map dec_call (skipn 6 l) in
      let c := cs_calls NumF c0 ks in
      let o := it l 5 in
      [ (0%Z, [], st9 c0);
        (0%Z, fst (cs_hist c0 ks), snd (cs_hist c0 ks));
        (0%Z, [], st9 c);
        (0%Z, [], fl3 (c_k_hat NumF c) ++ flm (c_basis_matrix NumF c));
        (0%Z, [bz (c_isclose NumF c c0 (fat o 0) (fat o 1)); bz (c_isclose NumF c0 c (fat o 0) (fat o 1))], []) ] ++
      (if (zat o 0 =? 0)%Z then []
       else let P := mkP (it l 3) in let Og := mkP (it l 4) in
            [ encPts (c_convert_from_gcs NumF c P); encPts (c_convert_to_gcs NumF c P) ] ++
            (match c_convert_from_gcs_pairwise NumF c P Og with
             | inr (x, y, z) => [ encF x; encF y; encF z ]
             | inl e => [ err e ]      (* NotModelled outside 1-d origins / points with >= 1 dimension *)
             end))
  end.
(* tag 11: distance_pairwise on Points objects *)
Fixpoint chunks (fuel c : nat) (l : list float) : list (list float) :=
  match fuel with O => [] | S f => firstn c l :: chunks f c (skipn c l) end.
Definition ans_dist (l : list itm) : list outc :=
  let o := it l 2 in
  let out := if (zat o 0 =? 0)%Z then None
             else Some (Z.to_nat (zat o 1), Z.to_nat (zat o 2), chunks (Z.to_nat (zat o 1)) (Z.to_nat (zat o 2)) (snd o)) in
  [match distance_pairwise_points NumF (mkP (it l 0)) (mkP (it l 1)) out (zat o 3) (zat o 4) (fun t => t) with
   | inl e => err e
   | inr t => (0%Z, [Z.of_nat (length t); Z.of_nat (length (hd [] t))], concat t)
   end].
Definition answers (c : caseT) : list outc :=
  let '(tag, l, _) := c in
  match tag with
  | 0%Z => ans_points l | 1%Z => ans_reshape l | 2%Z => ans_translate l | 3%Z => ans_rotate l
  | 4%Z => ans_closest l | 5%Z => ans_allclose l | 6%Z => ans_rectfree l | 7%Z => ans_rectpts l
  | 8%Z => ans_grid l | 9%Z => ans_centred l | 10%Z => ans_cs l | 11%Z => ans_dist l
  | _ => []
  end.
Definition check_case (c : caseT) : bool := list_eqb same (answers c) (snd c).
"""

TAGS = {"points": 0, "reshape": 1, "translate": 2, "rotate": 3, "closest": 4, "allclose": 5, "rectfree": 6, "rectpts": 7,
        "grid": 8, "centred": 9, "cs": 10, "dist": 11}
CORR = {
    "points": "points_init, points_ndim/size/len, points_enumerate, pts_x/y/z, points_to_1d, points_norm2 vs "
              "Points(coords), .ndim/.size/len(), .enumerate(), iter(), .x/.y/.z, .to_1d_points(), .norm2()",
    "reshape": "points_reshape vs Points.reshape(new_shape)",
    "translate": "points_translate vs Points.translate(direction)",
    "rotate": "points_rotate vs Points.rotate(rotation_matrix, centre)",
    "closest": "closest_point vs Points.closest_point(x, y, z)",
    "allclose": "points_allclose vs Points.allclose(other, atol, rtol) (are_points_close)",
    "rectfree": "rectbox_free vs points_in_rectbox(x, y, z, xmin, xmax, ymin, ymax, zmin, zmax)",
    "rectpts": "rectbox_points vs Points.points_in_rectbox(...)",
    "grid": "grid_init, vect_min/max/step, go_num*, rectbox_grid, grid_to_oriented_points, grid_resample vs "
            "Grid(...), .xmin...zmax, .dx...dz, .numx.., .points_in_rectbox, .to_oriented_points(), .resample()",
    "centred": "grid_centred_obj vs Grid.grid_centred_at_point(...)",
    "cs": "cs_new, cs_call_res/cs_call_step/cs_calls, c_k_hat, c_basis_matrix, c_isclose, c_convert_from_gcs, c_convert_to_gcs, "
          "c_convert_from_gcs_pairwise vs CoordinateSystem(...), assignments / .translate / .rotate / .copy on one object, "
          ".k_hat, .basis_matrix, .isclose, .convert_from_gcs, .convert_to_gcs, .convert_from_gcs_pairwise",
    "dist": "distance_pairwise_points vs distance_pairwise(points1, points2, out=, block_size=, numthreads=)",
}
ECODE = {"ValueError": 1, "IndexError": 2, "TypeError": 3, "AssertionError": 4, "ZeroDivisionError": 5,
         "InvalidDimension": 6, "InvalidShape": 7, "OverflowError": 9}
ENAME = {v: k for k, v in ECODE.items()}
NOT_MODELLED = 8        # ecode NotModelled: the model's marker for inputs outside the part of a function it describes


# ---------------------------------------------------------------------------------------------------------------
# encodings
# ---------------------------------------------------------------------------------------------------------------
def fl(a):
    return [float(v) for v in np.asarray(a, dtype=float).ravel()]


def err(code):
    return (int(code), [], [])


def enc_pts(P):
    return (0, [int(n) for n in P.shape], fl(P.coords))


def enc_f(a):
    a = np.asarray(a)
    return (0, [int(n) for n in a.shape], fl(a))


def enc_b(a):
    a = np.asarray(a)
    return (0, [int(n) for n in a.shape] + [-1] + [int(bool(v)) for v in a.ravel()], [])


def attempt(f):
    """(error code or 0, value, text)"""
    try:
        with np.errstate(all="ignore"):
            return 0, f(), ""
    except Exception as e:  # noqa: BLE001
        return ECODE.get(type(e).__name__, 99), None, f"{type(e).__name__}: {str(e)[:100]}"


def lit_outc(o):
    return f"({cZ(o[0])}, {clist(o[1], cZ)}, {clist(o[2], cfloat)})"


def lit_item(x):
    return f"({clist(x[0], cZ)}, {clist(x[1], cfloat)})"


def lit_case(tag, items, expected):
    return f"({cZ(tag)}, {clist([lit_item(x) for x in items])}, {clist([lit_outc(o) for o in expected])})"


def pitem(shape, coords):
    """a Points object as an item: (shape of the points, flat coords)"""
    return ([int(n) for n in shape], fl(coords))


# ---------------------------------------------------------------------------------------------------------------
# generators (every random choice from rng)
# ---------------------------------------------------------------------------------------------------------------
class Gen:
    def __init__(self, rng):
        self.rng = rng

    def i(self, lo, hi):
        return int(self.rng.integers(lo, hi + 1))

    def pick(self, seq):
        return seq[int(self.rng.integers(0, len(seq)))]

    def p(self, prob):
        return bool(self.rng.random() < prob)

    def dy(self, shape=(), den=4, span=3):
        return self.rng.integers(-span * den, span * den + 1, size=shape) / float(den)

    def ints(self, shape=(), span=3):
        return self.rng.integers(-span, span + 1, size=shape).astype(float)

    def shape(self, maxdim=3, zero=0.08):
        nd_ = self.pick([0, 1, 1, 1, 2, 2, 3][: 4 + maxdim])
        return tuple(0 if self.p(zero) else self.i(1, 3) for _ in range(nd_))

    def coords(self, shape, kind=None):
        kind = kind or self.pick(["dy", "dy", "int"])
        full = tuple(shape) + (3,)
        return self.dy(full) if kind == "dy" else self.ints(full)

    def signed_perm(self):
        perm = self.rng.permutation(3)
        m = np.zeros((3, 3))
        for r in range(3):
            m[r, perm[r]] = self.pick([1.0, -1.0])
        return m

    def spell_vec(self, v):
        """tuple / list / ndarray of floats"""
        k = self.pick(["tuple", "list", "ndarray"])
        v = [float(x) for x in v]
        return (tuple(v) if k == "tuple" else v if k == "list" else np.array(v, dtype=float)), k


def factor_shape(G, n):
    """a random shape with n entries"""
    if n == 0:
        s = [G.i(0, 3) for _ in range(G.i(1, 3))]
        s[G.i(0, len(s) - 1)] = 0
        return s
    s, rest = [], n
    for _ in range(G.i(0, 3)):
        divs = [d for d in range(1, rest + 1) if rest % d == 0]
        d = G.pick(divs)
        s.append(d)
        rest //= d
    s.append(rest)
    G.rng.shuffle(s)
    return [int(x) for x in s]


# ---------------------------------------------------------------------------------------------------------------
# the library side, family by family: (items, expected, description of the input)
# ---------------------------------------------------------------------------------------------------------------
def lib_points(g, ashape, flat):
    coords = np.array(flat, dtype=float).reshape(ashape)
    code, P, _ = attempt(lambda: g.Points(coords))
    items = [([int(n) for n in ashape], fl(flat))]
    desc = {"coords_shape": list(ashape), "coords_flat": fl(flat)}
    if code:
        return items, [err(code)], desc
    out = [enc_pts(P), (0, [int(P.ndim), int(P.size)], [])]
    code, n, _ = attempt(lambda: len(P))
    out.append(err(code) if code else (0, [int(n)], []))
    en = list(P.enumerate())
    out.append((0, [int(k) for idx, _ in en for k in idx], [float(v) for _, p in en for v in p]))
    out.append((0, [], [float(v) for p in P for v in p]))
    out += [enc_f(P.x), enc_f(P.y), enc_f(P.z)]
    code, Q, _ = attempt(P.to_1d_points)
    out.append(err(code) if code else enc_pts(Q))
    code, nn, _ = attempt(P.norm2)
    out.append(err(code) if code else enc_f(nn))
    return items, out, desc


def lib_reshape(g, shape, coords, arg, spelling):
    P = g.Points(np.array(coords, dtype=float).reshape(tuple(shape) + (3,)))
    if spelling == "int":
        a, za = int(arg), [0, int(arg)]
    else:
        a = tuple(int(x) for x in arg) if spelling == "tuple" else [int(x) for x in arg]
        za = [1] + [int(x) for x in arg]
    code, Q, _ = attempt(lambda: P.reshape(a))
    return ([pitem(shape, coords), (za, [])], [err(code) if code else enc_pts(Q)],
            {"points_shape": list(shape), "coords_flat": fl(coords), "new_shape": a if spelling == "int" else list(a), "spelling": spelling})


def lib_translate(g, shape, coords, direction, dspell):
    P = g.Points(np.array(coords, dtype=float).reshape(tuple(shape) + (3,)))
    d = np.asarray(direction, dtype=float)
    code, Q, _ = attempt(lambda: P.translate(direction))
    return ([pitem(shape, coords), ([int(n) for n in d.shape], fl(d))], [err(code) if code else enc_pts(Q)],
            {"points_shape": list(shape), "coords_flat": fl(coords), "direction_shape": list(d.shape), "direction": fl(d), "spelling": dspell})


def lib_rotate(g, shape, coords, R, centre, cspell):
    P = g.Points(np.array(coords, dtype=float).reshape(tuple(shape) + (3,)))
    code, Q, _ = attempt(lambda: P.rotate(np.array(R, dtype=float), centre))
    c = [] if centre is None else fl(centre)
    return ([pitem(shape, coords), ([0 if centre is None else 1], fl(R) + c)], [err(code) if code else enc_pts(Q)],
            {"points_shape": list(shape), "coords_flat": fl(coords), "R": fl(R), "centre": None if centre is None else c, "spelling": cspell})


def lib_closest(g, shape, coords, q):
    P = g.Points(np.array(coords, dtype=float).reshape(tuple(shape) + (3,)))
    code, k, _ = attempt(lambda: P.closest_point(float(q[0]), float(q[1]), float(q[2])))
    return ([pitem(shape, coords), ([], fl(q))], [err(code) if code else (0, [int(k)], [])],
            {"points_shape": list(shape), "coords_flat": fl(coords), "xyz": fl(q)})


def lib_allclose(g, s1, c1, s2, c2, atol, rtol, spelling):
    P = g.Points(np.array(c1, dtype=float).reshape(tuple(s1) + (3,)))
    Q = g.Points(np.array(c2, dtype=float).reshape(tuple(s2) + (3,)))
    if spelling == "default":
        atol, rtol = 1e-8, 0.0
        f = lambda: P.allclose(Q)                                     # noqa: E731
    elif spelling == "positional":
        f = lambda: P.allclose(Q, atol, rtol)                         # noqa: E731
    elif spelling == "keywords":
        f = lambda: P.allclose(Q, rtol=rtol, atol=atol)               # noqa: E731
    else:
        f = lambda: g.are_points_close(P, Q, atol=atol, rtol=rtol)    # noqa: E731
    code, b, _ = attempt(f)
    return ([pitem(s1, c1), pitem(s2, c2), ([], [float(atol), float(rtol)])], [err(code) if code else (0, [int(bool(b))], [])],
            {"shape1": list(s1), "coords1": fl(c1), "shape2": list(s2), "coords2": fl(c2), "atol": atol, "rtol": rtol, "spelling": spelling})


BNAMES = ("xmin", "xmax", "ymin", "ymax", "zmin", "zmax")


def bounds_item(bounds):
    return ([0 if b is None else 1 for b in bounds], [0.0 if b is None else float(b) for b in bounds])


def call_with_bounds(G, f, bounds):
    """positional (None for the absent ones) or keywords for the present ones only"""
    if G.p(0.4):
        return (lambda: f(*bounds)), "positional"
    kw = {n: b for n, b in zip(BNAMES, bounds) if b is not None}
    names = list(kw)
    G.rng.shuffle(names)
    kw = {n: kw[n] for n in names}
    return (lambda: f(**kw)), "keywords"


def lib_rectfree(G, g, xs, ys, zs_, bounds):
    f, sp = call_with_bounds(G, lambda *a, **k: g.points_in_rectbox(xs, ys, zs_, *a, **k), bounds)
    code, m, _ = attempt(f)
    return ([(list(map(int, xs.shape)), fl(xs)), (list(map(int, ys.shape)), fl(ys)), (list(map(int, zs_.shape)), fl(zs_)), bounds_item(bounds)],
            [err(code) if code else enc_b(m)],
            {"x": xs.tolist(), "y": ys.tolist(), "z": zs_.tolist(), "shapes": [list(xs.shape), list(ys.shape), list(zs_.shape)],
             "bounds": dict(zip(BNAMES, bounds)), "spelling": sp})


def lib_rectpts(G, g, shape, coords, bounds):
    P = g.Points(np.array(coords, dtype=float).reshape(tuple(shape) + (3,)))
    f, sp = call_with_bounds(G, P.points_in_rectbox, bounds)
    code, m, _ = attempt(f)
    return ([pitem(shape, coords), bounds_item(bounds)], [err(code) if code else enc_b(m)],
            {"points_shape": list(shape), "coords_flat": fl(coords), "bounds": dict(zip(BNAMES, bounds)), "spelling": sp})


def pix_item(pixel):
    if isinstance(pixel, (float, int)):
        return ([0], [float(pixel)])
    return ([1], [float(v) for v in pixel])


def enc_grid(G_, wlist):
    ws = []
    for w in wlist:
        msg = str(w.message)
        for k, a in enumerate("xyz"):
            if msg == f"{a}min > {a}max in grid":
                ws.append(k)
                break
        else:
            ws.append(9)
    return [enc_pts(G_), (0, [int(G_.numx), int(G_.numy), int(G_.numz)], fl(G_.xvect) + fl(G_.yvect) + fl(G_.zvect)), (0, ws, [])]


def with_warnings(f):
    with warnings.catch_warnings(record=True) as w:
        warnings.simplefilter("always")
        code, v, text = attempt(f)
    return code, v, text, [x for x in w if "grid" in str(x.message)]


def lib_grid(G, g, b6, pixel, bounds, pixel2):
    code, gr, _, w = with_warnings(lambda: g.Grid(*b6, pixel))
    a = pix_item(pixel)
    items = [(a[0], [float(v) for v in b6]), ([], a[1]), bounds_item(bounds), pix_item(pixel2)]
    desc = {"bounds": [float(v) for v in b6], "bounds_spelling": [type(v).__name__ for v in b6],
            "pixel_size": pixel if isinstance(pixel, (float, int)) else list(map(float, pixel)), "pixel_spelling": type(pixel).__name__,
            "box": dict(zip(BNAMES, bounds)), "resample": pixel2 if isinstance(pixel2, (float, int)) else list(map(float, pixel2))}
    if code:
        return items, [err(code)], desc
    out = enc_grid(gr, w)
    for name in ("xmin", "xmax", "ymin", "ymax", "zmin", "zmax"):
        c, v, _ = attempt(lambda name=name: getattr(gr, name))
        out.append(err(c) if c else (0, [], [float(v)]))
    for name in ("dx", "dy", "dz"):
        c, v, _ = attempt(lambda name=name: getattr(gr, name))
        out.append(err(c) if c else ((0, [0], []) if v is None else (0, [1], [float(v)])))
    f, sp = call_with_bounds(G, gr.points_in_rectbox, bounds)
    c, m, _ = attempt(f)
    out.append(err(c) if c else enc_b(m))
    c, op, _ = attempt(gr.to_oriented_points)
    out.append(err(c) if c else (0, [int(n) for n in op.points.shape] + [int(n) for n in op.orientations.coords.shape[:-2]],
                                 fl(op.points.coords) + fl(op.orientations.coords)))
    # Grid.resample hands numpy scalars (xvect[0] ...) to Grid.__init__; a zero pixel size on a non-degenerate axis then gives
    # inf and round(inf) raises OverflowError (the constructor called with Python floats raises ZeroDivisionError): the model's
    # grid_resample has its own error kind for that case, and these resamplings are compared like every other one.
    px2 = [float(pixel2)] * 3 if isinstance(pixel2, (float, int)) else [float(v) for v in pixel2]
    vects = (gr.xvect, gr.yvect, gr.zvect)
    zero_px = len(px2) == 3 and all(len(v) for v in vects) and any(px2[k] == 0 and vects[k][0] != vects[k][-1] for k in range(3))
    c, g2, _, w2 = with_warnings(lambda: gr.resample(pixel2))
    desc["resample_zero_pixel_on_nondegenerate_axis"] = bool(zero_px)
    desc["resample_outcome"] = ENAME.get(c, c) if c else "grid"
    out += [err(c)] if c else enc_grid(g2, w2)
    return items, out, desc


def lib_centred(g, args):
    args = [float(v) for v in args]
    code, gr, _, w = with_warnings(lambda: g.Grid.grid_centred_at_point(*args))
    return [([], args)], ([err(code)] if code else enc_grid(gr, w)), {"args (centre_x, centre_y, centre_z, size_x, size_y, size_z, pixel_size)": args}


def small_dyadic(vals):
    return all(math.isfinite(v) and abs(v) <= 64 and float(v * 64).is_integer() for v in vals)


def lib_cs(g, o, i, j, calls, P, O, atol, rtol):
    """o, i, j: (shape, flat, python value); calls: list of dicts; P, O: (shape, coords)"""
    items = [(list(o[0]), fl(o[1])), (list(i[0]), fl(i[1])), (list(j[0]), fl(j[1])), pitem(*P), pitem(*O), None]
    desc = {"origin": [list(o[0]), fl(o[1])], "i_hat": [list(i[0]), fl(i[1])], "j_hat": [list(j[0]), fl(j[1])],
            "calls": [{k: (v.tolist() if isinstance(v, np.ndarray) else v) for k, v in c.items() if k != "value"} for c in calls],
            "points": [list(P[0]), fl(P[1])], "origins": [list(O[0]), fl(O[1])], "atol": atol, "rtol": rtol}
    for c in calls:
        if c["op"] in ("origin", "i_hat", "j_hat"):
            items.append(([("origin", "i_hat", "j_hat").index(c["op"])] + list(c["shape"]), fl(c["flat"])))
        elif c["op"] == "translate":
            items.append(([3] + list(c["shape"]), fl(c["flat"])))
        elif c["op"] == "rotate":
            items.append(([4, 0 if c["centre"] is None else 1], fl(c["R"]) + ([] if c["centre"] is None else fl(c["centre"]))))
        else:
            items.append(([5], []))
    code, cs, _ = attempt(lambda: g.CoordinateSystem(o[2], i[2], j[2]))
    if code:
        items[5] = ([0, 0], [float(atol), float(rtol)])
        return items, [err(code)], desc

    def st9(c):
        return fl(c.origin) + fl(c.i_hat) + fl(c.j_hat)

    out = [(0, [], st9(cs))]
    trace, states = [], []
    for c in calls:
        if c["op"] in ("origin", "i_hat", "j_hat"):
            code, _, _ = attempt(lambda c=c: setattr(cs, c["op"], c["value"]))
        elif c["op"] == "translate":
            code, new, _ = attempt(lambda c=c: cs.translate(c["value"]))
            if not code:
                cs = new
        elif c["op"] == "rotate":
            code, new, _ = attempt(lambda c=c: cs.rotate(np.array(c["R"], dtype=float).reshape(3, 3), c["centre_value"]))
            if not code:
                cs = new
        else:
            code, new, _ = attempt(cs.copy)
            if not code:
                cs = new
        trace.append(code)
        states += st9(cs)
    out.append((0, trace, states))
    out.append((0, [], st9(cs)))
    out.append((0, [], fl(cs.k_hat) + fl(cs.basis_matrix)))
    return items, out, desc, cs


def finish_cs(g, items, out, desc, cs, c0state, P, O, atol, rtol):
    c0 = g.CoordinateSystem(np.array(c0state[0:3]), np.array(c0state[3:6]), np.array(c0state[6:9]))
    out.append((0, [int(bool(cs.isclose(c0, atol, rtol))), int(bool(c0.isclose(cs, rtol=rtol, atol=atol)))], []))
    final = fl(cs.origin) + fl(cs.i_hat) + fl(cs.j_hat)
    doconv = small_dyadic(final) and small_dyadic(fl(P[1])) and small_dyadic(fl(O[1]))
    # convert_from_gcs_pairwise: the library computes points_cs.x[..., newaxis] - origins.x[newaxis, ...], which is the outer
    # difference of shape points.shape + origins.shape only when origins is 1-d and points_gcs has at least one dimension (a 0-d
    # origins gives points.shape + (1,), an n-d one is broadcast against the LAST axis, a 0-d points_gcs gives (1, m)).  The
    # model describes exactly that domain and answers the marker NotModelled outside it: there the library is run (it must
    # return arrays, not raise) and the model's answer is compared with the marker, no values are compared.
    pairwise = doconv and len(O[0]) == 1 and len(P[0]) >= 1
    items[5] = ([1 if doconv else 0, 1 if pairwise else 0], [float(atol), float(rtol)])
    if doconv:
        Pp = g.Points(np.array(P[1], dtype=float).reshape(tuple(P[0]) + (3,)))
        Oo = g.Points(np.array(O[1], dtype=float).reshape(tuple(O[0]) + (3,)))
        out.append(enc_pts(cs.convert_from_gcs(Pp)))
        out.append(enc_pts(cs.convert_to_gcs(Pp)))
        if pairwise:
            x, y, z = cs.convert_from_gcs_pairwise(Pp, Oo)
            out += [enc_f(x), enc_f(y), enc_f(z)]
        else:
            code, _, _ = attempt(lambda: cs.convert_from_gcs_pairwise(Pp, Oo))
            desc["pairwise_library_outcome_outside_domain"] = code      # 0 (arrays) or a broadcast ValueError
            out.append(err(NOT_MODELLED))
    desc["convert_compared"] = doconv
    desc["pairwise_compared"] = pairwise
    return items, out, desc


def lib_dist(arim, g, P1, P2, out_spec, block_size, numthreads):
    """out_spec: None or (rows, cols, fill)"""
    A = g.Points(np.array(P1[1], dtype=float).reshape(tuple(P1[0]) + (3,)))
    B = g.Points(np.array(P2[1], dtype=float).reshape(tuple(P2[0]) + (3,)))
    kw = {}
    if out_spec is not None:
        r, c, content = out_spec
        kw["out"] = np.array(content, dtype=float).reshape(r, c)
    if block_size is not None:
        kw["block_size"] = block_size
    if numthreads is not None:
        kw["numthreads"] = numthreads
    code, t, _ = attempt(lambda: g.distance_pairwise(A, B, **kw))
    bs = int(arim.settings.BLOCK_SIZE_EUC_DISTANCE) if block_size is None else int(block_size)
    nt = int(arim.settings.NUMTHREADS) if numthreads is None else int(numthreads)
    o = ([0, 0, 0, bs, nt], []) if out_spec is None else ([1, int(out_spec[0]), int(out_spec[1]), bs, nt], fl(out_spec[2]))
    if code:
        exp = [err(code)]
    else:
        t = np.asarray(t)
        same_obj = out_spec is None or (t is kw["out"])
        rows = int(t.shape[0])
        exp = [(0 if same_obj else 98, [rows, int(t.shape[1]) if rows else 0], fl(t))]
    return ([pitem(*P1), pitem(*P2), o], exp,
            {"points1": [list(P1[0]), fl(P1[1])], "points2": [list(P2[0]), fl(P2[1])],
             "out": None if out_spec is None else [out_spec[0], out_spec[1], fl(out_spec[2])], "block_size": block_size, "numthreads": numthreads})


# ---------------------------------------------------------------------------------------------------------------
# the streams
# ---------------------------------------------------------------------------------------------------------------
def build_cases(chk, arim, rng, quick):
    g = arim.geometry
    G = Gen(rng)
    cases = []          # (family, stream, items, expected, desc)
    K = 1 if quick else 10

    def add(family, stream, triple):
        items, exp, desc = triple
        cases.append((family, stream, items, exp, desc))
        chk.count(tie_C17=f"{family}:{stream}")

    # ---- Points: constructor and observables ---------------------------------------------------------------
    for s in [(2, 4, 3), (3, 2), (3,), (1, 3), (0, 3), (), (2, 2, 3)]:
        n = int(np.prod(s)) if len(s) else 1
        add("points", "fixed", lib_points(g, s, np.arange(float(n))))
    add("points", "fixed", lib_points(g, (2, 3), [3.0, 4, 0, 0, 0, 0]))
    for _ in range(30 * K):
        s = G.shape() + (3,)
        add("points", "valid", lib_points(g, s, G.coords(s[:-1])))
    for _ in range(10 * K):
        s = G.shape(zero=0.0)[:2] + (G.pick([0, 1, 2, 4, 6]),)
        add("points", "err-last-dim", lib_points(g, s, G.dy(s)))
    for _ in range(2 * K):
        add("points", "err-0d", lib_points(g, (), [float(G.dy())]))

    # ---- reshape -------------------------------------------------------------------------------------------
    P8 = ((2, 4), np.arange(24.0))
    for arg, sp in [((-1, 1), "tuple"), ((-1, -1), "tuple"), (3, "int"), ((-1,), "tuple"), ((4, -1), "tuple"), ((-2, 4), "tuple"),
                    ((3, -1), "tuple"), ((0, -1), "tuple"), (7, "int"), ((2, 2, 2), "list"), (8, "int"), (-1, "int"), ((), "tuple")]:
        add("reshape", "fixed", lib_reshape(g, P8[0], P8[1], arg, sp))
    for arg in [(-1,), (0, -1), (0,), (2, 0), (-1, 0)]:
        add("reshape", "fixed-empty", lib_reshape(g, (0,), [], arg, "tuple"))
    for _ in range(40 * K):
        s = G.shape(zero=0.1)
        n = int(np.prod(s)) if len(s) else 1
        coords = G.coords(s)
        stream = G.pick(["valid", "valid", "valid-unknown", "valid-unknown", "int", "err-product", "err-two-unknown", "err-zero-unknown",
                         "two-fault"])
        new = factor_shape(G, n)
        sp = G.pick(["tuple", "list"])
        if stream == "valid-unknown" and new:
            new[G.i(0, len(new) - 1)] = -G.i(1, 5)
        elif stream == "int":
            new, sp = G.pick([n, n, -1, -3, n + 1, 0, max(n - 1, 0)]), "int"
        elif stream == "err-product":
            new = [x + (1 if k == 0 else 0) for k, x in enumerate(new)] if new else [2]
        elif stream == "err-two-unknown":
            new = new + [1]
            a, b = G.i(0, len(new) - 1), G.i(0, len(new) - 1)
            if a == b:
                new.append(1)
                b = len(new) - 1
            new[a], new[b] = -1, -G.i(1, 3)
        elif stream == "err-zero-unknown":
            new = [0, -1] if G.p(0.5) else [-1, 0, G.i(1, 2)]
        elif stream == "two-fault":
            new = [-1, -1, n + 1] if G.p(0.5) else [0, -1, -2]
        add("reshape", stream, lib_reshape(g, s, coords, new, sp))

    # ---- translate / rotate / closest_point -----------------------------------------------------------------
    Qs, Qc = (2, 2), np.array([[[3.0, 0, 0], [0, 2, 0]], [[0, 0, 2], [1, 1, 1]]])
    Rz = np.array(((0.0, -1, 0), (1, 0, 0), (0.0, 0, 1)))
    add("translate", "fixed", lib_translate(g, Qs, Qc, np.array([1.0, 2, 3]), "ndarray"))
    add("translate", "fixed", lib_translate(g, Qs, Qc, np.arange(12.0).reshape(2, 2, 3), "ndarray"))
    for _ in range(20 * K):
        s = G.shape()
        coords = G.coords(s)
        if G.p(0.5):
            d, sp = G.spell_vec(G.dy((3,)))
            add("translate", "one-direction", lib_translate(g, s, coords, d, sp))
        else:
            add("translate", "per-point", lib_translate(g, s, coords, G.dy(tuple(s) + (3,)), "ndarray"))
    add("rotate", "fixed", lib_rotate(g, Qs, Qc, Rz, (1.0, 0.0, 0.0), "tuple"))
    add("rotate", "fixed", lib_rotate(g, Qs, Qc, Rz, None, "none"))
    for _ in range(24 * K):
        s = G.shape()
        coords = G.coords(s)
        R = G.signed_perm() if G.p(0.4) else G.dy((3, 3), den=4, span=1)
        if G.p(0.35):
            centre, sp = None, "none"
        else:
            centre, sp = G.spell_vec(G.dy((3,)))
        add("rotate", "signed-perm" if np.all(np.abs(R) == np.round(np.abs(R))) else "dyadic-matrix", lib_rotate(g, s, coords, R, centre, sp))
    for q in [(0, 0, 0), (1, 1, 1), (0, 1, 1)]:
        add("closest", "fixed", lib_closest(g, Qs, Qc, q))
    add("closest", "fixed", lib_closest(g, (3,), [[0.0, 2, 0], [0, 0, 2], [2, 0, 0]], (0, 0, 0)))
    add("closest", "fixed", lib_closest(g, (0,), [], (0, 0, 0)))
    for _ in range(24 * K):
        s = G.shape(zero=0.1)
        coords = G.coords(s, "int" if G.p(0.6) else "dy")     # small integers: many equidistant points
        stream = "empty" if 0 in s else "valid"
        if stream == "valid" and coords.size > 3 and G.p(0.45):
            # several copies of two points: the minimum is reached at several flat indices (numpy.argmin: the first one)
            two = G.coords((2,), "int")
            coords = two[G.rng.integers(0, 2, size=tuple(s))]
            stream = "ties"
        add("closest", stream, lib_closest(g, s, coords, G.ints((3,), 2) if G.p(0.6) else G.dy((3,))))

    # ---- allclose ----------------------------------------------------------------------------------------------
    one = [[1.0, 2, 3]]
    for (s1, c1, s2, c2) in [((1,), one, (2,), one * 2), ((2,), one * 2, (1,), one), ((2,), one * 2, (3,), one * 3), ((1,), one, (), one[0]),
                             ((2,), one * 2, (2,), [[1.0, 2, 3], [1 + 5e-9, 2, 3]]), ((2,), one * 2, (2,), [[1.0, 2, 3], [1 + 2e-8, 2, 3]]),
                             ((2, 1), [[1.0, 2, 3], [4, 5, 6]], (1, 2), [[1.0, 2, 3], [4, 5, 6]]), ((2, 1), one * 2, (1, 2), one * 2)]:
        add("allclose", "fixed", lib_allclose(g, s1, c1, s2, c2, 1e-8, 0.0, "default"))
    for _ in range(40 * K):
        stream = G.pick(["same-shape", "same-shape", "same-shape", "broadcast", "err-broadcast", "ndim-differs", "two-fault"])
        s1 = G.shape(zero=0.05)
        c1 = G.coords(s1, "dy")
        atol = G.pick([2.0 ** -10, 2.0 ** -6, 0.0, 1e-8])
        rtol = G.pick([0.0, 0.0, 2.0 ** -8, 1e-5])
        if stream == "same-shape":
            s2 = s1
            e = G.pick([0.0, atol, atol / 2, atol * 2, 2.0 ** -8, -atol, atol + rtol])
            c2 = c1.copy()
            if c2.size and G.p(0.8):
                k = G.i(0, c2.size - 1)
                c2.flat[k] = c2.flat[k] + e
            if G.p(0.15):
                c1, c2 = c2, c1
        elif stream == "broadcast":
            s2 = tuple(1 if G.p(0.5) else n for n in s1)
            c2 = np.broadcast_to(c1, tuple(s1) + (3,))[tuple(slice(0, 1) if a != b else slice(None) for a, b in zip(s2, s1))].copy() \
                if G.p(0.6) and 0 not in s1 else G.coords(s2, "dy")
            if G.p(0.5):
                s1, c1, s2, c2 = s2, c2, s1, c1
        elif stream == "err-broadcast":
            if not len(s1):
                s1 = (2,)
                c1 = G.coords(s1, "dy")
            s2 = tuple(n + 2 if k == 0 else n for k, n in enumerate(s1))
            c2 = G.coords(s2, "dy")
        elif stream == "ndim-differs":
            s2 = tuple(s1) + (1,) if G.p(0.5) else tuple(s1)[1:] if len(s1) else (1,)
            c2 = np.resize(c1, tuple(s2) + (3,)) if c1.size else G.coords(s2, "dy")
        else:   # different number of dimensions AND shapes that do not broadcast: False, no error
            s1 = (2,)
            c1 = G.coords(s1, "dy")
            s2 = (3, 3)
            c2 = G.coords(s2, "dy")
        add("allclose", stream, lib_allclose(g, s1, c1, s2, c2, atol, rtol, G.pick(["default", "positional", "positional", "keywords", "function"])))

    # ---- points_in_rectbox: free function, Points method ---------------------------------------------------------
    x = np.array([[0.0, 1, 2], [3, 4, 5]])
    y = np.array([[5.0, 4, 3], [2, 1, 0]])
    z = np.array([[1.0, 1, 1], [2, 2, 2]])
    for b in [(1, None, None, 4, None, 1), (None,) * 6, (1, 4, 1, 4, 1, 2)]:
        add("rectfree", "fixed", lib_rectfree(G, g, x, y, z, b))
    add("rectfree", "fixed", lib_rectfree(G, g, x, y[:1], z, (None,) * 6))
    add("rectfree", "fixed", lib_rectfree(G, g, x, y, z.T, (None,) * 6))
    add("rectpts", "fixed", lib_rectpts(G, g, (2, 2), np.arange(12.0), (3, None, None, None, None, 8)))
    order = list(range(64))
    rng.shuffle(order)
    for rep in range(K):
        for sub in order:
            s = G.shape(zero=0.05)
            vals = [G.pick([-1.0, 0.0, 1.0, 0.5, 2, -2, 1]) for _ in range(6)]
            bounds = tuple(vals[k] if (sub >> k) & 1 else None for k in range(6))
            if (sub + rep) % 2 == 0:
                add("rectfree", f"subset-{bin(sub).count('1')}-bounds", lib_rectfree(G, g, G.ints(s, 2), G.ints(s, 2), G.ints(s, 2), bounds))
            else:
                add("rectpts", f"subset-{bin(sub).count('1')}-bounds", lib_rectpts(G, g, s, G.coords(s, "int" if G.p(0.7) else "dy"), bounds))
    for _ in range(12 * K):
        s = G.shape(zero=0.0)
        if not len(s):
            s = (2,)
        other = G.pick([tuple(s) + (1,), tuple(s)[::-1] if tuple(s)[::-1] != tuple(s) else tuple(s) + (2,), (1,) + tuple(s), tuple(s)[:-1],
                        tuple(n + 1 for n in s)])
        which = G.pick(["y", "z", "x", "y-and-z"])
        sx, sy, sz = (other if which == "x" else s), (other if "y" in which else s), (other if "z" in which else s)
        bounds = tuple(G.pick([None, 0.0, 1.0]) for _ in range(6))
        add("rectfree", f"err-shape-{which}", lib_rectfree(G, g, G.ints(sx, 2), G.ints(sy, 2), G.ints(sz, 2), bounds))

    # ---- Grid ----------------------------------------------------------------------------------------------------
    nob = (None,) * 6
    for b6, pixel, box, p2 in [((0, 1, 0, 2, 5, 5), (0.5, 1, 0.25), (0.5, None, None, 1, None, None), 0.5),
                               ((1, 0, 0, 0, 3, 2), 0.5, nob, 0.25), ((0, 1, 0, 2, 5, 5), (0.5, 1), nob, 1.0),
                               ((0, 1, 0, 2, 5, 5), (0.5, 1, 1, 1), nob, 1.0), ((0, 1, 0, 2, 5, 5), 0.0, nob, 1.0),
                               ((0, 1, 0, 2, 5, 5), (0.5, 0.0, 1), nob, 1.0), ((0, 1, 0, 2, 5, 5), (0.5, 1, 0.0), nob, (1.0, 0.0, 1.0)),
                               ((0, 1, 0, 0, 0, 0), -2.0, nob, 1.0), ((0, 1, 0, 0, 0, 0), -0.4, nob, 1.0),
                               ((0, 1, 0, 2, 0, 0), (-0.4, 0.0), nob, 1.0), ((0, 0.3, 0, 0, -1, 1), (0.1, 0.0, 0.4), nob, (0.1, 1.0)),
                               # resample with a zero pixel size: OverflowError on a non-degenerate axis (numpy scalars), accepted on
                               # the degenerate one, and the ValueError of an earlier axis comes first
                               ((0, 1, 0, 2, 5, 5), (0.5, 1, 0.25), nob, 0.0), ((0, 1, 0, 2, 5, 5), (0.5, 1, 0.25), nob, (0.5, 1.0, 0.0)),
                               ((0, 1, 0, 2, 5, 5), (0.5, 1, 0.25), nob, (-0.4, 0.0, 1.0))]:
        add("grid", "fixed", lib_grid(G, g, tuple(float(v) for v in b6), pixel, box, p2))

    def rand_bounds(exact):
        out = []
        for _ in range(3):
            lo = float(G.dy(den=4, span=2)) if exact else G.pick([0.1, -0.3, 0.7, 1.1, -1.3])
            kind = G.pick(["up", "up", "up", "same", "down"])
            w = float(G.pick([0.25, 0.5, 0.75, 1.0, 1.25, 1.5, 2.0])) if exact else G.pick([0.3, 0.9, 1.7, 0.1])
            out += [lo, lo if kind == "same" else lo + w if kind == "up" else lo - w]
        return out

    def rand_pixel(exact, allow_np=True):
        vals = [0.25, 0.5, 0.5, 0.75, 1.0, 0.375, 1.5] if exact else [0.3, 0.45, 0.7, 1.1]
        if G.p(0.45):
            return float(G.pick(vals))
        v = [float(G.pick(vals)) for _ in range(3)]
        k = G.pick(["tuple", "list", "ndarray"] if allow_np else ["tuple", "list"])
        return tuple(v) if k == "tuple" else v if k == "list" else np.array(v)

    def npts(b6, pixel):
        px = [pixel] * 3 if isinstance(pixel, float) else list(pixel)
        if len(px) != 3:
            return 1
        n = 1
        for k in range(3):
            lo, hi, d = b6[2 * k], b6[2 * k + 1], float(px[k])
            if lo != hi and d != 0:
                n *= max(1, abs(round((abs(hi - lo) + d) / d)))
        return n

    made = 0
    while made < 45 * K:
        stream = G.pick(["valid", "valid", "valid", "valid", "valid-decimal", "err-length", "err-zero", "negative-pixel", "two-fault",
                         "int-bounds", "err-resample"])
        exact = stream != "valid-decimal"
        b6 = rand_bounds(exact)
        pixel = rand_pixel(exact)
        pixel2 = rand_pixel(exact)
        if stream == "err-length":
            pixel = G.pick([(), (0.5,), (0.5, 1.0), [0.5, 1.0, 0.25, 2.0], (0.0, 0.0), [0.0]])
        elif stream == "err-zero":
            if G.p(0.4):
                pixel = 0.0
            else:
                pixel = [float(G.pick([0.5, 1.0])) for _ in range(3)]
                pixel[G.i(0, 2)] = 0.0
                pixel = tuple(pixel)
        elif stream == "negative-pixel":
            pixel = G.pick([-2.0, -0.4, -0.5, -1.0, -4.0, (-2.0, 0.5, 0.5), (0.5, -0.25, 1.0), (1.0, 1.0, -3.0)])
        elif stream == "two-fault":
            pixel = G.pick([(0.0, -0.1, 1.0), (-0.1, 0.0, 1.0), (1.0, -0.1, 0.0), (1.0, 0.0, -0.1), (-0.1, 1.0, 0.0), (0.0, 1.0, -0.1)])
            b6 = [0.0, 1.0, 0.0, 1.0, 0.0, 1.0] if G.p(0.6) else b6
        elif stream == "int-bounds":
            b6 = [int(v) if float(v).is_integer() and G.p(0.7) else v for v in b6]
        elif stream == "err-resample":
            pixel2 = G.pick([0.0, (0.5, 1.0), (), (0.5, 0.0, 0.0), -2.0, (0.5, 0.5, 0.5, 0.5)])
        if npts(b6, pixel) > 48 or npts(b6, pixel2) > 48:
            continue
        sub = G.i(0, 63)
        box = tuple((float(G.dy(den=4, span=2)) if (sub >> k) & 1 else None) for k in range(6))
        add("grid", stream, lib_grid(G, g, tuple(b6), pixel, box, pixel2))
        made += 1

    for args in [(0, 0, 0, 1, 0, 2, 0.5), (0, 0, 0, 1, -1, 2, 0.5), (0, 0, 0, 1, 0, 2, 0.0), (0, 0, 0, -1, 0, 2, 0.0),
                 (0, 0, 0, float("nan"), 0, 0, 0.5), (0, 0, 0, 1, 0, 0.3, 0.25), (0, 0, 0, 0, 0, 0, 0.5), (1, 2, 3, 0, 0, 0, 0.0)]:
        add("centred", "fixed", lib_centred(g, args))
    made = 0
    while made < 30 * K:
        stream = G.pick(["valid", "valid", "valid", "valid-decimal", "err-negative-size", "err-zero-pixel", "err-nan-size", "two-fault",
                         "negative-pixel"])
        exact = stream != "valid-decimal"
        c = [float(G.dy(den=4, span=2)) if exact else G.pick([0.1, -0.3, 0.7]) for _ in range(3)]
        sz = [G.pick([0.0, 0.0, 0.5, 1.0, 1.5, 2.0, 0.75]) if exact else G.pick([0.0, 0.3, 0.9, 1.3]) for _ in range(3)]
        pixel = G.pick([0.25, 0.5, 1.0, 0.375, 3.0]) if exact else G.pick([0.3, 0.45, 0.7])
        if stream == "err-negative-size":
            sz[G.i(0, 2)] = -G.pick([0.5, 1.0, 1e-300])
        elif stream == "err-zero-pixel":
            pixel = G.pick([0.0, -0.0])
        elif stream == "err-nan-size":
            sz[G.i(0, 2)] = float("nan")
        elif stream == "two-fault":
            sz[G.i(0, 2)] = -1.0
            pixel = 0.0
        elif stream == "negative-pixel":
            pixel = -G.pick([0.5, 1.0, 4.0, 0.75])
        if pixel != 0 and all(v == v for v in sz) and np.prod([abs(v / pixel) + 2 for v in sz]) > 150:
            continue
        add("centred", stream, lib_centred(g, c + sz + [pixel]))
        made += 1

    # ---- CoordinateSystem ------------------------------------------------------------------------------------------
    units = [(1.0, 0, 0), (0, 1.0, 0), (0, 0, 1.0), (-1.0, 0, 0), (0, -1.0, 0), (0, 0, -1.0), (0.6, 0.8, 0), (0, -0.8, 0.6),
             (0, 0, 1.000001), (1 - 1e-6, 0, 0), (0.5, 0.5, 0.7071067811865476), (1.0, 2.0 ** -14, 0)]
    non_units = [(2.0, 0, 0), (0, 0, 1.1), (0, 0, 1.0001), (0, 0, 0), (0.5, 0.5, 0.5), (float("nan"), 0, 0), (0, 1.00002, 0), (0, 0.99998, 0)]
    bad_shapes = [(), (1,), (2,), (4,), (1, 3), (3, 1), (0,), (3, 3)]

    def vec_value(shape, flat):
        """the Python value handed to the library for an array of this shape"""
        a = np.array(flat, dtype=float).reshape(shape)
        if shape == ():
            return G.pick([float(a), np.float64(a), a])
        if shape == (3,):
            return G.spell_vec(flat)[0]
        return a if G.p(0.6) else a.tolist()

    def rand_vec(kind):
        """(shape, flat, value) of an origin / unit vector / refused value"""
        if kind == "origin":
            flat = fl(G.dy((3,), den=4, span=3))
            return (3,), flat, vec_value((3,), flat)
        if kind == "unit":
            flat = fl(G.pick(units[:6] if G.p(0.6) else units))
            return (3,), flat, vec_value((3,), flat)
        if kind == "non-unit":
            flat = fl(G.pick(non_units))
            return (3,), flat, vec_value((3,), flat)
        s = G.pick(bad_shapes)
        n = int(np.prod(s)) if len(s) else 1
        flat = fl(G.pick([1.0, 0.0]) * np.ones(n)) if G.p(0.5) else fl(G.dy((n,)))
        return s, flat, vec_value(s, flat)

    def rand_call(state_kind):
        op = G.pick(["origin", "i_hat", "j_hat", "origin", "i_hat", "j_hat", "translate", "translate", "rotate", "rotate", "copy"])
        if op in ("origin", "i_hat", "j_hat"):
            good = "origin" if op == "origin" else "unit"
            kind = G.pick([good, good, "bad-shape", "non-unit" if op != "origin" else "bad-shape"])
            s, flat, val = rand_vec(kind)
            return {"op": op, "shape": list(s), "flat": flat, "value": val, "kind": kind}
        if op == "translate":
            s = G.pick([(3,), (3,), (3,), (), (1,), G.pick(bad_shapes[2:])])
            n = int(np.prod(s)) if len(s) else 1
            flat = fl(G.dy((n,)))
            return {"op": op, "shape": list(s), "flat": flat, "value": vec_value(s, flat), "kind": "ok" if s in ((3,), (), (1,)) else "bad-shape"}
        if op == "rotate":
            R = G.signed_perm()
            if G.p(0.4):
                return {"op": op, "R": fl(R), "centre": None, "centre_value": None}
            cval, _ = G.spell_vec(G.dy((3,)))
            return {"op": op, "R": fl(R), "centre": fl(cval), "centre_value": cval}
        return {"op": "copy"}

    def cs_case(o, i, j, calls, stream, P=None, O=None, atol=None, rtol=None):
        P = P or ((lambda s: (s, G.coords(s, "dy")))(G.shape()))
        O = O or ((lambda s: (s, G.coords(s, "dy")))((G.i(0, 4),) if G.p(0.8) else G.shape(maxdim=2)))
        atol = G.pick([1e-8, 2.0 ** -4, 0.0, 1.0]) if atol is None else atol
        rtol = G.pick([0.0, 0.0, 2.0 ** -3]) if rtol is None else rtol
        r = lib_cs(g, o, i, j, calls, P, O, atol, rtol)
        if len(r) == 3:
            add("cs", stream, r)
        else:
            items, out, desc, cs = r
            add("cs", stream, finish_cs(g, items, out, desc, cs, out[0][2], P, O, atol, rtol))

    def V(*v):
        return (3,), [float(x) for x in v], np.array(v, dtype=float)

    def A(op, shape, flat, value=None):
        return {"op": op, "shape": list(shape), "flat": [float(x) for x in flat],
                "value": np.array(flat, dtype=float).reshape(shape) if value is None else value, "kind": "fixed"}

    hist = [A("i_hat", (3,), (2.0, 0, 0)), A("i_hat", (1, 3), (1.0, 0, 0), [[1.0, 0, 0]]), A("j_hat", (3,), (0.6, 0.8, 0), (0.6, 0.8, 0.0)),
            A("origin", (2,), (1.0, 2), (1.0, 2.0)), A("origin", (3,), (5.0, 6, 7), (5.0, 6.0, 7.0)), A("i_hat", (3,), (0.0, 0, 1)),
            A("j_hat", (3,), (0, 0, 1.1)), A("j_hat", (), (1.0,), 1.0)]
    cs_case(V(1, 1, 1), V(0, 1, 0), V(0, 0, 1), hist, "fixed")
    cs_case(((2,), [1.0, 1.0], np.array([1.0, 1.0])), V(0, 1, 0), V(0, 0, 1), [], "fixed")
    cs_case(V(1, 1, 1), V(0, 2, 0), V(0, 0, 1), [], "fixed")
    cs_case(V(1, 1, 1), V(0, 1, 0), V(0, 0, 3), [], "fixed")
    cs_case(V(1, 1, 1), V(0, 1, 0), V(0, 1, 0), [], "fixed")
    cs_case(V(1, 1, 1), V(0, 1, 0), V(0, 0, 1.000001), [], "fixed")
    cs_case(V(1, 1, 1), V(0, 1, 0), V(0, 0, 1.0001), [], "fixed")
    cs_case(V(1, 1, 1), V(0, 1, 0), V(0, 0, 1),
            [{"op": "rotate", "R": fl(Rz), "centre": [1.0, 0, 0], "centre_value": (1.0, 0.0, 0.0)}, {"op": "rotate", "R": fl(Rz), "centre": None, "centre_value": None},
             A("translate", (3,), (1.0, 2, 3)), {"op": "copy"}, A("translate", (2,), (1.0, 2)), A("translate", (), (1.0,), 1.0),
             A("translate", (1,), (2.0,)), A("translate", (1, 3), (1.0, 2, 3))], "fixed",
            P=((2, 1), np.array([[[1.0, 2, 3]], [[4, 5, 6]]])), O=((3,), np.eye(3)))
    cs_case(V(1, 1, 1), V(0, 1, 0), V(0, 0, 1), [A("translate", (3,), (1e-9, 0, 0))], "fixed", atol=1e-8, rtol=0.0)
    # convert_from_gcs_pairwise outside the modelled domain (0-d origins; 2-d origins; 0-d points): the model must answer NotModelled
    cs_case(V(1, 1, 1), V(0, 1, 0), V(0, 0, 1), [], "fixed", P=((2,), np.array([[1.0, 2, 3], [4, 5, 6]])), O=((), np.array([1.0, 0, 0])))
    cs_case(V(1, 1, 1), V(0, 1, 0), V(0, 0, 1), [], "fixed", P=((2,), np.array([[1.0, 2, 3], [4, 5, 6]])), O=((2, 1), np.array([[[1.0, 0, 0]], [[0, 1, 0]]])))
    cs_case(V(1, 1, 1), V(0, 1, 0), V(0, 0, 1), [], "fixed", P=((), np.array([1.0, 2, 3])), O=((1,), np.array([[1.0, 0, 0]])))
    for _ in range(50 * K):
        stream = G.pick(["history", "history", "history", "history", "ctor-err-origin", "ctor-err-i", "ctor-err-j", "ctor-two-fault"])
        o, i, j = rand_vec("origin"), rand_vec("unit"), rand_vec("unit")
        if stream == "ctor-err-origin":
            o = rand_vec("bad-shape")
        elif stream == "ctor-err-i":
            i = rand_vec(G.pick(["bad-shape", "non-unit"]))
        elif stream == "ctor-err-j":
            j = rand_vec(G.pick(["bad-shape", "non-unit"]))
        elif stream == "ctor-two-fault":
            a, b = G.pick([(0, 1), (0, 2), (1, 2)])
            vs = [o, i, j]
            vs[a] = rand_vec(G.pick(["bad-shape", "non-unit"]) if a else "bad-shape")
            vs[b] = rand_vec(G.pick(["bad-shape", "non-unit"]))
            o, i, j = vs
        calls = [rand_call(None) for _ in range(G.i(0, 7))] if stream == "history" else []
        cs_case(o, i, j, calls, stream)

    # ---- distance_pairwise on Points objects -----------------------------------------------------------------------
    A_ = ((2,), [[0.0, 0, 0], [3, 4, 0]])
    B_ = ((3,), [[0.0, 0, 0], [3, 4, 12], [3, 0, 0]])
    add("dist", "fixed", lib_dist(arim, g, A_, B_, None, 6, 1))
    add("dist", "fixed", lib_dist(arim, g, A_, B_, (2, 3, [99.0] * 6), 1, 2))
    add("dist", "fixed", lib_dist(arim, g, A_, A_, None, 7, None))
    add("dist", "fixed", lib_dist(arim, g, ((2, 2), np.arange(12.0)), B_, None, None, None))
    add("dist", "fixed", lib_dist(arim, g, A_, ((), [0.0, 0, 0]), None, None, None))
    add("dist", "fixed", lib_dist(arim, g, A_, B_, (3, 2, [0.0] * 6), None, None))
    add("dist", "fixed", lib_dist(arim, g, A_, B_, None, 0, None))
    add("dist", "fixed", lib_dist(arim, g, A_, B_, None, None, 0))
    for _ in range(24 * K):
        stream = G.pick(["valid", "valid", "valid", "valid-out", "valid-out", "err-dimension", "err-out-shape", "err-block-size", "err-numthreads",
                         "two-fault"])
        n1, n2 = G.i(0, 5) if G.p(0.15) else G.i(1, 5), G.i(1, 4)
        P1 = ((n1,), G.coords((n1,), G.pick(["int", "dy"])))
        P2 = ((n2,), G.coords((n2,), G.pick(["int", "dy"])))
        out, bs, nt = None, G.pick([None, 1, 2, 5, 6, 7, 12, 13, 100]), G.pick([None, 1, 2, 3])
        good_out = (n1, n2, fl(G.ints((n1 * n2,), 9)))
        bad_out = G.pick([(n2 + 1, n1, [0.0] * ((n2 + 1) * n1)), (n1, n2 + 1, [0.0] * (n1 * (n2 + 1))), (n1 + 1, n2, [0.0] * ((n1 + 1) * n2))])
        nd_pts = G.pick([((2, 2), G.coords((2, 2))), ((), G.coords(())), ((1, 3), G.coords((1, 3)))])
        if stream == "valid-out":
            out = good_out
        elif stream == "err-dimension":
            if G.p(0.5):
                P1 = nd_pts
            else:
                P2 = nd_pts
        elif stream == "err-out-shape":
            out = bad_out
        elif stream == "err-block-size":
            bs = 0
        elif stream == "err-numthreads":
            nt = G.pick([0, -1])
        else:
            k = G.i(0, 2)
            if k == 0:
                P1, out = nd_pts, bad_out
            elif k == 1:
                out, bs = bad_out, 0
            else:
                bs, nt = 0, 0
        add("dist", stream, lib_dist(arim, g, P1, P2, out, bs, nt))
    return cases


def run(chk, arim, rng, quick):
    cases = build_cases(chk, arim, rng, quick)
    lits = [lit_case(TAGS[f], items, exp) for f, _, items, exp, _ in cases]
    bad = chk.coq_failing("tie_C17", COQ_IMPORTS, "caseT", lits, "check_case", shard=120, jobs=8)
    cov = chk.cov.setdefault("tie_C17", {})
    cov["cases"] = len(cases)
    cov["failing"] = len(bad)
    fams = {}
    for f, _, _, _, _ in cases:
        fams[f] = fams.get(f, 0) + 1
    cov["per_family"] = fams
    cov["resample_zero_pixel_compared"] = sum(1 for c in cases if c[4].get("resample_zero_pixel_on_nondegenerate_axis"))
    cov["resample_overflow_error"] = sum(1 for c in cases if c[4].get("resample_outcome") == "OverflowError")
    cov["pairwise_values_compared"] = sum(1 for c in cases if c[4].get("pairwise_compared"))
    cov["pairwise_outside_domain_marker_compared"] = sum(1 for c in cases if "pairwise_library_outcome_outside_domain" in c[4])
    shown = {}
    for k in bad:
        f, stream, items, exp, desc = cases[k]
        if shown.get(f, 0) >= 3:          # at most three replay files per family
            continue
        shown[f] = shown.get(f, 0) + 1
        try:
            model = chk.coq_values(f"tie_C17_diag_{k}", COQ_IMPORTS, [f"answers {lits[k]}"])
            model = model[model.find("="):][:4000]
        except Exception as e:  # noqa: BLE001
            model = f"(the model's answer could not be printed: {e})"
        lib = [{"kind": "value" if o[0] == 0 else ENAME.get(o[0], f"exception outside the model ({o[0]})"), "ints": o[1], "floats": o[2]} for o in exp]
        chk.violation(f"tie:{f}", f"tie_C17 [{f}:{stream}]: the model (Model/GeometryGlue.v, vm_compute on binary64) and arim disagree "
                      f"on {CORR[f].split(' vs ')[0][:80]}...",
                      {"correspondence": CORR[f], "family": f, "stream": stream, "input": desc, "arim": lib, "model": model,
                       "encoding": "(kind 0 = value | 1 ValueError 2 IndexError 3 TypeError 4 AssertionError 5 ZeroDivisionError "
                                   "6 InvalidDimension 7 InvalidShape 8 NotModelled (model only) 9 OverflowError, ints, floats) per observable, in the order of the correspondence"},
                      failing_input_found=False)
    return len(cases)
