"""Development runner of the C08 tie alone (see /tmp/tie_brief.md):
  cd /verif && VERIF_ARIM_SRC=/repo/src PYTHONPATH=/verif/harness /venv/bin/python harness/ties/try_C08.py --tier quick --no-proofs
"""
import json
import time

from common import Check

chk = Check("C08", design_ref="DESIGN.md §5 C08")
arim = chk.import_arim()
import arim.model  # noqa: E402,F401
import arim.models.block_in_immersion  # noqa: E402,F401
import arim.ray  # noqa: E402,F401

from ties import tie_C08  # noqa: E402

t0 = time.time()
n = tie_C08.run(chk, arim, chk.rng, chk.tier == "quick")
print(f"# tie_C08: {n} comparisons in {time.time() - t0:.1f} s; {json.dumps(chk.cov.get('tie_C08'))}", flush=True)
for k, v in sorted(chk.hist.items()):
    if k.startswith("tie_C08"):
        print("#  ", json.dumps(dict(sorted(v.items())))[:12000])
chk.finish(evaluations=n, distinct_nontrivial=n, rule="tie only", samples=[])
